//! Bounded-exhaustive enumeration of syntax trees `T` (not necessarily closed) over explicit name
//! pools, with a parallel visitor for the top size level that avoids materialising it.

use crate::formulas::{Bi, Hy, Un};
use crate::refparser::T;
use rayon::prelude::*;
use std::collections::HashMap;
use std::sync::Arc;

#[derive(Clone, Debug)]
pub struct TreeAlphabet {
    pub consts: Vec<bool>,
    pub props: Vec<String>,
    pub vars: Vec<String>,
    pub wilds: Vec<String>,
    pub doms: Vec<String>,
    pub un: Vec<Un>,
    pub bi: Vec<Bi>,
    /// quantifiers (with every variable name, without and with every domain)
    pub quant: Vec<Hy>,
    pub jump: bool,
}

impl TreeAlphabet {
    pub fn describe(&self) -> String {
        format!(
            "consts={:?} props={:?} vars={:?} wilds={:?} doms={:?} un=[{}] bin=[{}] quant=[{}] jump={}",
            self.consts,
            self.props,
            self.vars,
            self.wilds,
            self.doms,
            self.un.iter().map(|o| o.s()).collect::<Vec<_>>().join(" "),
            self.bi.iter().map(|o| o.s()).collect::<Vec<_>>().join(" "),
            self.quant.iter().map(|o| o.s()).collect::<Vec<_>>().join(" "),
            self.jump
        )
    }
    fn hybrid_heads(&self) -> Vec<(Hy, String, Option<String>)> {
        let mut out = vec![];
        for q in &self.quant {
            for v in &self.vars {
                out.push((*q, v.clone(), None));
                for d in &self.doms {
                    out.push((*q, v.clone(), Some(d.clone())));
                }
            }
        }
        if self.jump {
            for v in &self.vars {
                out.push((Hy::Jump, v.clone(), None));
            }
        }
        out
    }
}

pub struct TreeGen {
    pub alpha: TreeAlphabet,
    memo: HashMap<usize, Arc<Vec<T>>>,
}

impl TreeGen {
    pub fn new(alpha: TreeAlphabet) -> TreeGen {
        TreeGen { alpha, memo: HashMap::new() }
    }
    pub fn exact(&mut self, size: usize) -> Arc<Vec<T>> {
        if let Some(v) = self.memo.get(&size) {
            return v.clone();
        }
        let a = self.alpha.clone();
        let mut out = vec![];
        if size == 1 {
            for c in &a.consts {
                out.push(T::Const(*c));
            }
            for p in &a.props {
                out.push(T::Prop(p.clone()));
            }
            for v in &a.vars {
                out.push(T::Var(v.clone()));
            }
            for w in &a.wilds {
                out.push(T::Wild(w.clone()));
            }
        } else {
            let sub = self.exact(size - 1);
            for o in &a.un {
                for c in sub.iter() {
                    out.push(T::un(*o, c.clone()));
                }
            }
            for (h, v, d) in a.hybrid_heads() {
                for c in sub.iter() {
                    out.push(T::Hy(h, v.clone(), d.clone(), Box::new(c.clone())));
                }
            }
            for ls in 1..size - 1 {
                let rs = size - 1 - ls;
                let l = self.exact(ls);
                let r = self.exact(rs);
                for o in &a.bi {
                    for x in l.iter() {
                        for y in r.iter() {
                            out.push(T::bin(*o, x.clone(), y.clone()));
                        }
                    }
                }
            }
        }
        let out = Arc::new(out);
        self.memo.insert(size, out.clone());
        out
    }

    /// Visit every tree with exactly `size` nodes in parallel without materialising the list.
    /// `fold`-style: `init` creates an accumulator per worker, `visit` updates it, `merge` combines.
    pub fn par_visit_exact<A: Send, I: Fn() -> A + Sync + Send, V: Fn(&mut A, &T) + Sync + Send, M: Fn(A, A) -> A + Sync + Send>(
        &mut self,
        size: usize,
        init: I,
        visit: V,
        merge: M,
    ) -> A {
        if size == 1 {
            let l = self.exact(1);
            let mut a = init();
            for t in l.iter() {
                visit(&mut a, t);
            }
            return a;
        }
        let a = self.alpha.clone();
        let sub = self.exact(size - 1);
        let heads = a.hybrid_heads();
        let mut pairs = vec![];
        for ls in 1..size - 1 {
            pairs.push((self.exact(ls), self.exact(size - 1 - ls)));
        }
        let acc1 = sub
            .par_iter()
            .fold(&init, |mut acc, c| {
                for o in &a.un {
                    visit(&mut acc, &T::un(*o, c.clone()));
                }
                for (h, v, d) in &heads {
                    visit(&mut acc, &T::Hy(*h, v.clone(), d.clone(), Box::new(c.clone())));
                }
                acc
            })
            .reduce(&init, &merge);
        let mut total = acc1;
        for (l, r) in pairs {
            let acc2 = l
                .par_iter()
                .fold(&init, |mut acc, x| {
                    for y in r.iter() {
                        for o in &a.bi {
                            visit(&mut acc, &T::bin(*o, x.clone(), y.clone()));
                        }
                    }
                    acc
                })
                .reduce(&init, &merge);
            total = merge(total, acc2);
        }
        total
    }
}
