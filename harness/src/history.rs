//! Two-step histories on one fresh OS thread: state carried between calls is an input too.
//!
//! A memo table (thread-local or process-wide) with too weak a key is invisible to every single-call
//! sweep. The families here produce ordered pairs (A, B) of graphs that *look alike* to such a key:
//!   * networks with the same variables, the same parameters and unit = true but different update
//!     functions (identical symbolic encoding),
//!   * the same network on graphs with different unit sets (`SymbolicAsyncGraph::restrict`).
//! A warm-up list is evaluated on A and then the probe formulae on B, both on ONE freshly spawned OS
//! thread; every probe result is held against the explicit-state oracle exactly as a first call in a
//! new process would be (the oracle is independent of any history).

use crate::bridge::Bound;
use crate::formulas::F;
use crate::report::{guarded, Report, Violation};
use crate::sem::{self, Checks};
use crate::sweep::{label_families, NetCtx};
use rayon::prelude::*;
use serde_json::{json, Value};
use std::panic::AssertUnwindSafe;
use std::sync::Arc;

/// Parameter-free networks over (a, b) with every pair of update functions from a menu: all have the
/// same symbolic encoding (variables a, b; no parameters; unit = true).
pub fn same_encoding_plain(k: u16) -> Vec<Arc<Bound>> {
    let funs = ["a", "!a", "b", "!b", "a & b", "a | !b", "!a & b", "true", "false"];
    let mut out = vec![];
    for fa in funs {
        for fb in funs {
            let sp = crate::nets::spec(&format!("a -?? a; b -?? a; a -?? b; b -?? b; $a: {fa}; $b: {fb}"));
            if let Ok(b) = Bound::new(&format!("h[{fa};{fb}]"), &sp, k) {
                out.push(Arc::new(b));
            }
        }
    }
    out
}

/// Networks over (a, b) that share one unary uninterpreted function `f` (4 colours, unit = true) and differ
/// in how the update functions use it.
pub fn same_encoding_param(k: u16) -> Vec<Arc<Bound>> {
    let fa = ["f(b)", "f(b) & a", "f(b) | a", "!f(a)", "f(a) ^ b"];
    let fb = ["a", "!a", "f(a)", "b"];
    let mut out = vec![];
    for x in fa {
        for y in fb {
            let sp = crate::nets::spec(&format!("a -?? a; b -?? a; a -?? b; b -?? b; $a: {x}; $b: {y}"));
            if let Ok(b) = Bound::new(&format!("hp[{x};{y}]"), &sp, k) {
                if b.cols.len() == 4 {
                    out.push(Arc::new(b));
                }
            }
        }
    }
    out
}

/// The same network on graphs with different unit sets: the graph itself, restricted to every second
/// valid colour, restricted to the last colour only.
pub fn unit_variants(b: &Arc<Bound>) -> Vec<Arc<Bound>> {
    let nc = b.cols.len();
    let mut out = vec![b.clone()];
    if nc >= 2 {
        out.push(Arc::new(b.restrict_colours(&(0..nc).step_by(2).collect::<Vec<_>>())));
        out.push(Arc::new(b.restrict_colours(&[nc - 1])));
    }
    out
}

pub struct Family {
    pub pairs: Vec<(Arc<Bound>, Arc<Bound>)>,
    pub describe: Value,
}

fn spread<T: Clone>(v: &[T], k: usize) -> Vec<T> {
    if k >= v.len() {
        return v.to_vec();
    }
    (0..k).map(|i| v[i * v.len() / k].clone()).collect()
}

/// Ordered pairs of look-alike graphs. Quick: a fixed spread of the menu networks; thorough: all of them.
pub fn family(tier: &str, k: u16, extra_units: &[Arc<Bound>]) -> Family {
    let plain = same_encoding_plain(k);
    let param = same_encoding_param(k);
    let (np, nq) = if tier == "quick" { (9, 5) } else { (plain.len(), param.len()) };
    let mut pairs = vec![];
    let sel_plain = spread(&plain, np);
    let sel_param = spread(&param, nq);
    for sel in [&sel_plain, &sel_param] {
        for (i, a) in sel.iter().enumerate() {
            for (j, b) in sel.iter().enumerate() {
                if i != j {
                    pairs.push((a.clone(), b.clone()));
                }
            }
        }
    }
    let n_enc = pairs.len();
    // unit variants of the parametrised menu networks and of the caller's networks
    let mut unit_bases: Vec<Arc<Bound>> = spread(&param, if tier == "quick" { 2 } else { 6 });
    unit_bases.extend(extra_units.iter().filter(|b| b.cols.len() >= 2 && b.spec.vars == ["a", "b"]).cloned());
    for base in &unit_bases {
        let vs = unit_variants(base);
        for (i, a) in vs.iter().enumerate() {
            for (j, b) in vs.iter().enumerate() {
                if i != j {
                    pairs.push((a.clone(), b.clone()));
                }
            }
        }
    }
    let describe = json!({
        "same_encoding_parameter_free_networks": sel_plain.len(), "same_encoding_networks_sharing_a_function_symbol": sel_param.len(),
        "ordered_pairs_same_encoding": n_enc, "networks_with_unit_variants": unit_bases.len(), "ordered_pairs_unit_variants": pairs.len() - n_enc,
    });
    Family { pairs, describe }
}

/// Run every pair on its own fresh OS thread: `warm` texts on A (results discarded but panics reported), then
/// every probe formula on B through `sem::check_formula` (oracle, unit checks, all entry points of `ck`).
/// `labels`: index into `label_families` (same index = same masks on both graphs of a same-encoding pair).
pub fn run(rep: &mut Report, fam: &Family, warm: &[&str], probes: &[&str], ck: Checks, labels: usize) -> Result<(), String> {
    let ext = matches!(ck.entries, sem::Entries::Ext2);
    let bad: Vec<Violation> = fam
        .pairs
        .par_iter()
        .filter_map(|(a, b)| {
            let (a, b) = (a.clone(), b.clone());
            let warm: Vec<String> = warm.iter().map(|s| s.to_string()).collect();
            let probes: Vec<String> = probes.iter().map(|s| s.to_string()).collect();
            std::thread::spawn(move || -> Option<Violation> {
                let la = label_families(&a, labels + 1).pop().unwrap();
                let lb = label_families(&b, labels + 1).pop().unwrap();
                let ca = NetCtx::new(a.clone(), la.1, &la.0);
                let cb = NetCtx::new(b.clone(), lb.1, &lb.0);
                for w in &warm {
                    let _ = guarded(AssertUnwindSafe(|| if ext { ca.ext_dirty(w) } else { ca.formula_dirty(w) }));
                }
                for p in &probes {
                    let f: F = crate::formulas::f(p, &cb.user);
                    let bad = sem::check_formula(&cb, &f, ck, None);
                    if let Some((entry, what)) = bad.into_iter().next() {
                        let mut case = sem::case_json(&cb, &f, ck);
                        case["kind"] = json!("history");
                        case["first"] = json!({"net": a.spec, "aeon": a.aeon, "name": a.name, "colours_kept": a.cols.len()});
                        case["second_name"] = json!(b.name);
                        case["warm"] = json!(warm);
                        case["labels_index"] = json!(labels);
                        return Some(Violation {
                            case,
                            what: format!("after evaluating {} warm-up formulae on {} [{}] on the same thread, {} of {} on {} [{}]: {}", warm.len(), a.name, a.aeon.replace('\n', "; "), entry, f.show(&cb.user), b.name, b.aeon.replace('\n', "; "), what),
                            size: f.size(),
                        });
                    }
                }
                None
            })
            .join()
            .unwrap_or_else(|_| Some(Violation { case: json!({"kind": "machinery"}), what: "MACHINERY: history thread panicked".into(), size: 0 }))
        })
        .collect();
    if bad.iter().any(|v| v.what.starts_with("MACHINERY")) {
        return Err("a two-step history thread of the harness panicked".into());
    }
    let per = if ext { 3 } else { 5 } as u64;
    rep.evaluations += fam.pairs.len() as u64 * (warm.len() as u64 + probes.len() as u64 * per);
    rep.traces_validated += fam.pairs.len() as u64 * probes.len() as u64;
    rep.add_count("two_step_histories", fam.pairs.len() as u64);
    rep.add_count("two_step_history_probe_evaluations", fam.pairs.len() as u64 * probes.len() as u64);
    rep.set("two_step_histories_family", fam.describe.clone());
    rep.violations.extend(bad.into_iter().take(25));
    Ok(())
}

/// Rebuild a graph of a history case from its specification and its name (`...|colours[i, j]` = unit set restricted to those colours).
fn rebuild(name: &str, spec: &crate::nets::NetSpec, k: u16) -> Option<Arc<Bound>> {
    let base = name.split("|colours[").next().unwrap_or(name);
    let b = Bound::new(base, spec, k).ok()?;
    match name.split("|colours[").nth(1) {
        Some(rest) => {
            let keep: Vec<usize> = rest.trim_end_matches(']').split(',').filter_map(|s| s.trim().parse().ok()).collect();
            Some(Arc::new(b.restrict_colours(&keep)))
        }
        None => Some(Arc::new(b)),
    }
}

/// Replay of a recorded history case: warm-up on the first graph, then the probe on the second (on this thread).
pub fn replay(case: &Value) -> Option<String> {
    let k = case["k"].as_u64().unwrap_or(3) as u16;
    let first: crate::nets::NetSpec = serde_json::from_value(case["first"]["net"].clone()).ok()?;
    let a = rebuild(case["first"]["name"].as_str()?, &first, k)?;
    let second: crate::nets::NetSpec = serde_json::from_value(case["net"].clone()).ok()?;
    let b = rebuild(case["second_name"].as_str()?, &second, k)?;
    let idx = case["labels_index"].as_u64().unwrap_or(0) as usize;
    let la = label_families(&a, idx + 1).pop().unwrap();
    let lb = label_families(&b, idx + 1).pop().unwrap();
    let ca = NetCtx::new(a.clone(), la.1, &la.0);
    let cb = NetCtx::new(b.clone(), lb.1, &lb.0);
    let entries = match case["entries"].as_str()? {
        "plain4" => sem::Entries::Plain4,
        "plaindirty" => sem::Entries::PlainDirty,
        _ => sem::Entries::Ext2,
    };
    let ext = matches!(entries, sem::Entries::Ext2);
    for w in case["warm"].as_array().cloned().unwrap_or_default() {
        if let Some(w) = w.as_str() {
            let _ = guarded(AssertUnwindSafe(|| if ext { ca.ext_dirty(w) } else { ca.formula_dirty(w) }));
        }
    }
    let f: F = serde_json::from_value(case["formula"].clone()).ok()?;
    let ck = Checks { semantic: case["semantic"].as_bool()?, unit: case["unit"].as_bool()?, entries };
    let bad = sem::check_formula(&cb, &f, ck, None);
    if bad.is_empty() {
        None
    } else {
        Some(bad.iter().map(|(e, w)| format!("{e}: {w}")).collect::<Vec<_>>().join(" | "))
    }
}

/// Warm-up and probe lists used by the semantic properties (plain operators).
pub const WARM_PLAIN: &[&str] = &[
    "AX a", "EX b", "EG b", "AF a", "a AU b", "a EW b", "a EU b", "AG EF a", "!{x}: AX {x}", "!{x}: AG EF {x}", "3{x}: @{x}: (a & AX b)", "V{x}: (EF {x} | a)",
    "!{x}: 3{y}: (@{x}: ~{y} & AX {x}) & (@{y}: AX {y})",
];
pub const PROBE_PLAIN: &[&str] = &[
    "a", "True", "EX a", "AX b", "EF a", "AF b", "EG a", "AG b", "a EU b", "a AU b", "a EW b", "b AW a", "!{x}: AX {x}", "!{x}: AG EF {x}", "!{x}: EX {x}", "!{x}: AX AF {x}",
    "3{x}: @{x}: (a & AX b)", "V{x}: (EF {x} | a)", "!{x}: 3{y}: (@{x}: ~{y} & AX {x}) & (@{y}: AX {y})", "AG EF a", "EF (!{x}: AX {x})", "AX (!{x}: AG EF {x})",
];
/// ... and with wild-cards and restricted domains
pub const WARM_EXT: &[&str] = &[
    "!{x} in %d%: AX {x}", "3{x} in %d%: @{x}: EX b", "V{x} in %d%: @{x}: EX b", "!{x} in %e%: AG EF {x}", "%p% & AX %q%", "3{x} in %d%: (@{x}: AG a) & %p%", "!{x} in %d%: 3{y} in %e%: (@{y}: EF {x})",
    "!{x}: AX {x}", "EG %p%", "%p% EU %q%",
];
pub const PROBE_EXT: &[&str] = &[
    "!{x} in %d%: AX {x}", "3{x} in %d%: @{x}: EX b", "V{x} in %d%: @{x}: EX b", "V{x} in %d%: @{x}: AG a", "3{x} in %d%: @{x}: AG a", "!{x} in %e%: AG EF {x}", "%p% & AX %q%", "EX %p%", "AF %q%",
    "3{x} in %d%: (@{x}: AG a) & %p%", "!{x} in %d%: 3{y} in %e%: (@{y}: EF {x})", "!{x} in %d%: EF (~{x} & EX {x})", "V{x} in %e%: (%p% | EF {x})", "%p% EW %q%", "%p% AU %q%", "!{x}: AX {x}", "!{x}: AG EF {x}",
];
