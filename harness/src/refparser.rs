//! Reference front end, written from the documented grammar (README + property C05), not from the
//! implementation: character-level tokenizer, recursive-descent parser, canonical renderer,
//! height, scope checker, de-Bruijn normaliser and alpha-equivalence on the harness's own tree `T`.

use crate::formulas::{Bi, Hy, Un};
use biodivine_hctl_model_checker::preprocessing::hctl_tree::{HctlTreeNode, NodeType};
use biodivine_hctl_model_checker::preprocessing::operator_enums::Atomic;
use biodivine_hctl_model_checker::preprocessing::tokenizer::HctlToken;

#[derive(Clone, Debug, PartialEq, Eq, Hash, PartialOrd, Ord, serde::Serialize, serde::Deserialize)]
pub enum T {
    Const(bool),
    Prop(String),
    Var(String),
    Wild(String),
    Un(Un, Box<T>),
    Bin(Bi, Box<T>, Box<T>),
    Hy(Hy, String, Option<String>, Box<T>),
}

#[derive(Clone, Debug, PartialEq, Eq, Hash)]
pub enum Tok {
    Un(Un),
    Bi(Bi),
    Hy(Hy, String, Option<String>),
    /// identifier: proposition name or constant spelling
    Id(String),
    Var(String),
    Wild(String),
    Open,
    Close,
}

fn name_char(c: char) -> bool {
    c.is_alphanumeric() || c == '_'
}

struct Cur<'a> {
    cs: &'a [char],
    i: usize,
}
impl<'a> Cur<'a> {
    fn peek(&self) -> Option<char> {
        self.cs.get(self.i).copied()
    }
    fn bump(&mut self) -> Option<char> {
        let c = self.peek();
        if c.is_some() {
            self.i += 1;
        }
        c
    }
    fn skip_ws(&mut self) {
        while matches!(self.peek(), Some(c) if c.is_whitespace()) {
            self.i += 1;
        }
    }
    fn name(&mut self) -> String {
        let mut s = String::new();
        while let Some(c) = self.peek() {
            if name_char(c) {
                s.push(c);
                self.i += 1;
            } else {
                break;
            }
        }
        s
    }
    fn expect(&mut self, c: char) -> Result<(), String> {
        if self.bump() == Some(c) {
            Ok(())
        } else {
            Err(format!("expected {c:?} at {}", self.i))
        }
    }
    /// `{name}` [ws] [`in` ws `%name%` ws] `:`   (after the operator symbol, leading ws allowed)
    fn hybrid_tail(&mut self, domains: bool) -> Result<(String, Option<String>), String> {
        self.skip_ws();
        self.expect('{')?;
        let v = self.name();
        if v.is_empty() {
            return Err("empty variable name".into());
        }
        self.expect('}')?;
        self.skip_ws();
        let mut dom = None;
        if domains && self.peek() == Some('i') {
            self.i += 1;
            self.expect('n')?;
            self.skip_ws();
            self.expect('%')?;
            let d = self.name();
            if d.is_empty() {
                return Err("empty domain name".into());
            }
            self.expect('%')?;
            self.skip_ws();
            dom = Some(d);
        }
        self.expect(':')?;
        Ok((v, dom))
    }
}

/// Reference tokenizer. `ext` enables wild-card propositions and quantifier domains.
pub fn tokenize(s: &str, ext: bool) -> Result<Vec<Tok>, String> {
    let cs: Vec<char> = s.chars().collect();
    let mut c = Cur { cs: &cs, i: 0 };
    let mut out = vec![];
    let mut depth = 0usize;
    while let Some(ch) = c.peek() {
        if ch.is_whitespace() {
            c.i += 1;
            continue;
        }
        if name_char(ch) {
            // maximal-munch identifier, then classification
            let id = c.name();
            match id.as_str() {
                "EX" => out.push(Tok::Un(Un::EX)),
                "EF" => out.push(Tok::Un(Un::EF)),
                "EG" => out.push(Tok::Un(Un::EG)),
                "AX" => out.push(Tok::Un(Un::AX)),
                "AF" => out.push(Tok::Un(Un::AF)),
                "AG" => out.push(Tok::Un(Un::AG)),
                "EU" => out.push(Tok::Bi(Bi::EU)),
                "EW" => out.push(Tok::Bi(Bi::EW)),
                "AU" => out.push(Tok::Bi(Bi::AU)),
                "AW" => out.push(Tok::Bi(Bi::AW)),
                "3" => {
                    let (v, d) = c.hybrid_tail(ext)?;
                    out.push(Tok::Hy(Hy::Exists, v, d));
                }
                "V" => {
                    let (v, d) = c.hybrid_tail(ext)?;
                    out.push(Tok::Hy(Hy::Forall, v, d));
                }
                _ => out.push(Tok::Id(id)),
            }
            continue;
        }
        c.i += 1;
        match ch {
            '~' => out.push(Tok::Un(Un::Not)),
            '&' => out.push(Tok::Bi(Bi::And)),
            '|' => out.push(Tok::Bi(Bi::Or)),
            '^' => out.push(Tok::Bi(Bi::Xor)),
            '=' => {
                c.expect('>')?;
                out.push(Tok::Bi(Bi::Imp));
            }
            '<' => {
                c.expect('=')?;
                c.expect('>')?;
                out.push(Tok::Bi(Bi::Iff));
            }
            '!' => {
                let (v, d) = c.hybrid_tail(ext)?;
                out.push(Tok::Hy(Hy::Bind, v, d));
            }
            '@' => {
                let (v, _) = c.hybrid_tail(false)?;
                out.push(Tok::Hy(Hy::Jump, v, None));
            }
            '\\' => {
                let op = c.name();
                let h = match op.as_str() {
                    "bind" => Hy::Bind,
                    "jump" => Hy::Jump,
                    "exists" => Hy::Exists,
                    "forall" => Hy::Forall,
                    _ => return Err(format!("unknown operator \\{op}")),
                };
                let (v, d) = c.hybrid_tail(ext && h != Hy::Jump)?;
                out.push(Tok::Hy(h, v, d));
            }
            '(' => {
                depth += 1;
                out.push(Tok::Open);
            }
            ')' => {
                if depth == 0 {
                    return Err("unbalanced )".into());
                }
                depth -= 1;
                out.push(Tok::Close);
            }
            '{' => {
                let v = c.name();
                if v.is_empty() {
                    return Err("empty variable name".into());
                }
                c.expect('}')?;
                out.push(Tok::Var(v));
            }
            '%' if ext => {
                let v = c.name();
                if v.is_empty() {
                    return Err("empty wild-card name".into());
                }
                c.expect('%')?;
                out.push(Tok::Wild(v));
            }
            _ => return Err(format!("unexpected character {ch:?}")),
        }
    }
    if depth != 0 {
        return Err("unbalanced (".into());
    }
    Ok(out)
}

struct Pr<'a> {
    t: &'a [Tok],
    i: usize,
}

impl<'a> Pr<'a> {
    fn peek(&self) -> Option<&Tok> {
        self.t.get(self.i)
    }
    /// F := H* IFF
    fn formula(&mut self) -> Result<T, String> {
        if let Some(Tok::Hy(h, v, d)) = self.peek() {
            let (h, v, d) = (*h, v.clone(), d.clone());
            self.i += 1;
            let body = self.formula()?;
            return Ok(T::Hy(h, v, d, Box::new(body)));
        }
        self.level(0)
    }
    /// binary levels, weakest first; all right-associative
    fn level(&mut self, lvl: usize) -> Result<T, String> {
        const LEVELS: [&[Bi]; 6] = [&[Bi::Iff], &[Bi::Imp], &[Bi::Or], &[Bi::Xor], &[Bi::And], &[Bi::EU, Bi::AU, Bi::EW, Bi::AW]];
        if lvl == LEVELS.len() {
            return self.unary();
        }
        let left = self.level(lvl + 1)?;
        if let Some(Tok::Bi(o)) = self.peek() {
            if LEVELS[lvl].contains(o) {
                let o = *o;
                self.i += 1;
                let right = self.level(lvl)?;
                return Ok(T::Bin(o, Box::new(left), Box::new(right)));
            }
        }
        Ok(left)
    }
    fn unary(&mut self) -> Result<T, String> {
        match self.peek() {
            Some(Tok::Un(o)) => {
                let o = *o;
                self.i += 1;
                Ok(T::Un(o, Box::new(self.unary()?)))
            }
            _ => self.term(),
        }
    }
    fn term(&mut self) -> Result<T, String> {
        let t = self.peek().cloned();
        self.i += 1;
        match t {
            Some(Tok::Id(s)) => Ok(match s.as_str() {
                "true" | "True" | "1" => T::Const(true),
                "false" | "False" | "0" => T::Const(false),
                _ => T::Prop(s),
            }),
            Some(Tok::Var(v)) => Ok(T::Var(v)),
            Some(Tok::Wild(w)) => Ok(T::Wild(w)),
            Some(Tok::Open) => {
                let f = self.formula()?;
                match self.peek() {
                    Some(Tok::Close) => {
                        self.i += 1;
                        Ok(f)
                    }
                    _ => Err("expected )".into()),
                }
            }
            other => Err(format!("expected a term, found {other:?}")),
        }
    }
}

pub fn parse_tokens(t: &[Tok]) -> Result<T, String> {
    let mut p = Pr { t, i: 0 };
    let f = p.formula()?;
    if p.i != t.len() {
        return Err(format!("trailing input at token {}", p.i));
    }
    Ok(f)
}

pub fn parse_str(s: &str, ext: bool) -> Result<T, String> {
    parse_tokens(&tokenize(s, ext)?)
}

/// Flatten the implementation's nested token list into the reference's flat token type.
pub fn flatten_impl_tokens(tokens: &[HctlToken], out: &mut Vec<Tok>) {
    for t in tokens {
        match t {
            HctlToken::Unary(o) => out.push(Tok::Un(Un::from_lib(o))),
            HctlToken::Binary(o) => out.push(Tok::Bi(Bi::from_lib(o))),
            HctlToken::Hybrid(o, v, d) => out.push(Tok::Hy(Hy::from_lib(o), v.clone(), d.clone())),
            HctlToken::Atom(Atomic::Prop(p)) => out.push(Tok::Id(p.clone())),
            HctlToken::Atom(Atomic::Var(v)) => out.push(Tok::Var(v.clone())),
            HctlToken::Atom(Atomic::WildCardProp(w)) => out.push(Tok::Wild(w.clone())),
            HctlToken::Atom(Atomic::True) => out.push(Tok::Id("True".into())),
            HctlToken::Atom(Atomic::False) => out.push(Tok::Id("False".into())),
            HctlToken::Tokens(inner) => {
                out.push(Tok::Open);
                flatten_impl_tokens(inner, out);
                out.push(Tok::Close);
            }
        }
    }
}

impl T {
    pub fn un(o: Un, c: T) -> T {
        T::Un(o, Box::new(c))
    }
    pub fn bin(o: Bi, l: T, r: T) -> T {
        T::Bin(o, Box::new(l), Box::new(r))
    }
    pub fn hy(o: Hy, v: &str, d: Option<&str>, c: T) -> T {
        T::Hy(o, v.to_string(), d.map(|s| s.to_string()), Box::new(c))
    }
    /// Structure of a library tree (stored text and height are ignored here).
    pub fn from_lib(t: &HctlTreeNode) -> T {
        match &t.node_type {
            NodeType::Terminal(Atomic::True) => T::Const(true),
            NodeType::Terminal(Atomic::False) => T::Const(false),
            NodeType::Terminal(Atomic::Prop(p)) => T::Prop(p.clone()),
            NodeType::Terminal(Atomic::Var(v)) => T::Var(v.clone()),
            NodeType::Terminal(Atomic::WildCardProp(w)) => T::Wild(w.clone()),
            NodeType::Unary(o, c) => T::Un(Un::from_lib(o), Box::new(T::from_lib(c))),
            NodeType::Binary(o, l, r) => T::Bin(Bi::from_lib(o), Box::new(T::from_lib(l)), Box::new(T::from_lib(r))),
            NodeType::Hybrid(o, v, d, c) => T::Hy(Hy::from_lib(o), v.clone(), d.clone(), Box::new(T::from_lib(c))),
        }
    }
    /// Build the library tree through the public constructors.
    pub fn to_lib(&self) -> HctlTreeNode {
        match self {
            T::Const(b) => HctlTreeNode::mk_constant(*b),
            T::Prop(p) => HctlTreeNode::mk_proposition(p),
            T::Var(v) => HctlTreeNode::mk_variable(v),
            T::Wild(w) => HctlTreeNode::mk_wild_card(w),
            T::Un(o, c) => HctlTreeNode::mk_unary(c.to_lib(), o.lib()),
            T::Bin(o, l, r) => HctlTreeNode::mk_binary(l.to_lib(), r.to_lib(), o.lib()),
            T::Hy(o, v, d, c) => HctlTreeNode::mk_hybrid(c.to_lib(), v, d.clone(), o.lib()),
        }
    }
    /// Canonical fully parenthesised rendering (independent of the library's).
    pub fn render(&self) -> String {
        match self {
            T::Const(true) => "True".into(),
            T::Const(false) => "False".into(),
            T::Prop(p) => p.clone(),
            T::Var(v) => format!("{{{v}}}"),
            T::Wild(w) => format!("%{w}%"),
            T::Un(Un::Not, c) => format!("(~{})", c.render()),
            T::Un(o, c) => format!("({} {})", o.s(), c.render()),
            T::Bin(o, l, r) => format!("({} {} {})", l.render(), o.s(), r.render()),
            T::Hy(o, v, None, c) => format!("({}{{{}}}: {})", o.s(), v, c.render()),
            T::Hy(o, v, Some(d), c) => format!("({}{{{}}} in %{}%: {})", o.s(), v, d, c.render()),
        }
    }
    pub fn height(&self) -> u32 {
        match self {
            T::Un(_, c) | T::Hy(_, _, _, c) => 1 + c.height(),
            T::Bin(_, l, r) => 1 + l.height().max(r.height()),
            _ => 0,
        }
    }
    pub fn size(&self) -> usize {
        match self {
            T::Un(_, c) | T::Hy(_, _, _, c) => 1 + c.size(),
            T::Bin(_, l, r) => 1 + l.size() + r.size(),
            _ => 1,
        }
    }
    pub fn is_plain(&self) -> bool {
        match self {
            T::Wild(_) => false,
            T::Hy(_, _, Some(_), _) => false,
            T::Un(_, c) | T::Hy(_, _, None, c) => c.is_plain(),
            T::Bin(_, l, r) => l.is_plain() && r.is_plain(),
            _ => true,
        }
    }
    pub fn qdepth(&self) -> usize {
        match self {
            T::Un(_, c) | T::Hy(Hy::Jump, _, _, c) => c.qdepth(),
            T::Hy(_, _, _, c) => 1 + c.qdepth(),
            T::Bin(_, l, r) => l.qdepth().max(r.qdepth()),
            _ => 0,
        }
    }
    pub fn subtrees<'a>(&'a self, out: &mut Vec<&'a T>) {
        out.push(self);
        match self {
            T::Un(_, c) | T::Hy(_, _, _, c) => c.subtrees(out),
            T::Bin(_, l, r) => {
                l.subtrees(out);
                r.subtrees(out)
            }
            _ => {}
        }
    }
    pub fn labels(&self, wilds: &mut Vec<String>, doms: &mut Vec<String>) {
        match self {
            T::Wild(w) => {
                if !wilds.contains(w) {
                    wilds.push(w.clone())
                }
            }
            T::Hy(_, _, d, c) => {
                if let Some(d) = d {
                    if !doms.contains(d) {
                        doms.push(d.clone())
                    }
                }
                c.labels(wilds, doms)
            }
            T::Un(_, c) => c.labels(wilds, doms),
            T::Bin(_, l, r) => {
                l.labels(wilds, doms);
                r.labels(wilds, doms)
            }
            _ => {}
        }
    }

    /// Scope check of C07: every variable occurrence (incl. jump targets) bound, no variable
    /// re-quantified inside its own scope, every proposition a network variable.
    pub fn scope_ok(&self, scope: &mut Vec<String>, props: &[String]) -> bool {
        match self {
            T::Const(_) | T::Wild(_) => true,
            T::Prop(p) => props.contains(p),
            T::Var(v) => scope.contains(v),
            T::Un(_, c) => c.scope_ok(scope, props),
            T::Bin(_, l, r) => l.scope_ok(scope, props) && r.scope_ok(scope, props),
            T::Hy(Hy::Jump, v, _, c) => scope.contains(v) && c.scope_ok(scope, props),
            T::Hy(_, v, _, c) => {
                if scope.contains(v) {
                    return false;
                }
                scope.push(v.clone());
                let r = c.scope_ok(scope, props);
                scope.pop();
                r
            }
        }
    }

    /// De-Bruijn-level normal form: every variable replaced by `#<level of its binder>`; free
    /// variables keep their name prefixed by `?`. Two trees are alpha-equivalent (as closed terms)
    /// iff their normal forms are equal.
    pub fn debruijn(&self, scope: &mut Vec<String>) -> T {
        let lvl = |scope: &Vec<String>, v: &String| match scope.iter().rposition(|x| x == v) {
            Some(i) => format!("#{i}"),
            None => format!("?{v}"),
        };
        match self {
            T::Var(v) => T::Var(lvl(scope, v)),
            T::Un(o, c) => T::Un(*o, Box::new(c.debruijn(scope))),
            T::Bin(o, l, r) => T::Bin(*o, Box::new(l.debruijn(scope)), Box::new(r.debruijn(scope))),
            T::Hy(Hy::Jump, v, d, c) => T::Hy(Hy::Jump, lvl(scope, v), d.clone(), Box::new(c.debruijn(scope))),
            T::Hy(o, v, d, c) => {
                let name = format!("#{}", scope.len());
                scope.push(v.clone());
                let c = c.debruijn(scope);
                scope.pop();
                T::Hy(*o, name, d.clone(), Box::new(c))
            }
            other => other.clone(),
        }
    }

    /// The renaming C07 prescribes: the variable of a quantifier at nesting depth d (1-based) is
    /// named "x" repeated d times.
    pub fn minimized(&self, scope: &mut Vec<(String, String)>) -> T {
        let look = |scope: &Vec<(String, String)>, v: &String| scope.iter().rev().find(|(a, _)| a == v).map(|(_, b)| b.clone()).unwrap_or(format!("?{v}"));
        match self {
            T::Var(v) => T::Var(look(scope, v)),
            T::Un(o, c) => T::Un(*o, Box::new(c.minimized(scope))),
            T::Bin(o, l, r) => T::Bin(*o, Box::new(l.minimized(scope)), Box::new(r.minimized(scope))),
            T::Hy(Hy::Jump, v, d, c) => T::Hy(Hy::Jump, look(scope, v), d.clone(), Box::new(c.minimized(scope))),
            T::Hy(o, v, d, c) => {
                let name = "x".repeat(scope.len() + 1);
                scope.push((v.clone(), name.clone()));
                let c = c.minimized(scope);
                scope.pop();
                T::Hy(*o, name, d.clone(), Box::new(c))
            }
            other => other.clone(),
        }
    }

    pub fn var_names(&self, out: &mut std::collections::BTreeSet<String>) {
        match self {
            T::Var(v) => {
                out.insert(v.clone());
            }
            T::Hy(_, v, _, c) => {
                out.insert(v.clone());
                c.var_names(out)
            }
            T::Un(_, c) => c.var_names(out),
            T::Bin(_, l, r) => {
                l.var_names(out);
                r.var_names(out)
            }
            _ => {}
        }
    }
    pub fn quantified_names(&self, out: &mut std::collections::BTreeSet<String>) {
        match self {
            T::Hy(o, v, _, c) => {
                if *o != Hy::Jump {
                    out.insert(v.clone());
                }
                c.quantified_names(out)
            }
            T::Un(_, c) => c.quantified_names(out),
            T::Bin(_, l, r) => {
                l.quantified_names(out);
                r.quantified_names(out)
            }
            _ => {}
        }
    }
    /// free variables in order of first occurrence (jump targets included)
    pub fn free_vars(&self, scope: &mut Vec<String>, out: &mut Vec<String>) {
        match self {
            T::Var(v) => {
                if !scope.contains(v) && !out.contains(v) {
                    out.push(v.clone())
                }
            }
            T::Un(_, c) => c.free_vars(scope, out),
            T::Bin(_, l, r) => {
                l.free_vars(scope, out);
                r.free_vars(scope, out)
            }
            T::Hy(Hy::Jump, v, _, c) => {
                if !scope.contains(v) && !out.contains(v) {
                    out.push(v.clone())
                }
                c.free_vars(scope, out)
            }
            T::Hy(_, v, _, c) => {
                scope.push(v.clone());
                c.free_vars(scope, out);
                scope.pop();
            }
            _ => {}
        }
    }
}

/// Alpha-equivalence of two (possibly open) sub-formulae: simultaneous traversal building a
/// bijection between free variables; bound variables are matched by binder position.
pub fn alpha_eq(a: &T, b: &T) -> bool {
    fn go(a: &T, b: &T, sa: &mut Vec<String>, sb: &mut Vec<String>, fa: &mut Vec<(String, String)>) -> bool {
        let var_eq = |x: &String, y: &String, sa: &Vec<String>, sb: &Vec<String>, fa: &mut Vec<(String, String)>| -> bool {
            let pa = sa.iter().rposition(|v| v == x);
            let pb = sb.iter().rposition(|v| v == y);
            match (pa, pb) {
                (Some(i), Some(j)) => i == j,
                (None, None) => {
                    // free on both sides: must respect the bijection
                    for (p, q) in fa.iter() {
                        if p == x || q == y {
                            return p == x && q == y;
                        }
                    }
                    fa.push((x.clone(), y.clone()));
                    true
                }
                _ => false,
            }
        };
        match (a, b) {
            (T::Const(x), T::Const(y)) => x == y,
            (T::Prop(x), T::Prop(y)) => x == y,
            (T::Wild(x), T::Wild(y)) => x == y,
            (T::Var(x), T::Var(y)) => var_eq(x, y, sa, sb, fa),
            (T::Un(o, c), T::Un(p, d)) => o == p && go(c, d, sa, sb, fa),
            (T::Bin(o, l, r), T::Bin(p, m, s)) => o == p && go(l, m, sa, sb, fa) && go(r, s, sa, sb, fa),
            (T::Hy(Hy::Jump, x, _, c), T::Hy(Hy::Jump, y, _, d)) => var_eq(x, y, sa, sb, fa) && go(c, d, sa, sb, fa),
            (T::Hy(o, x, dx, c), T::Hy(p, y, dy, d)) => {
                if o != p || dx != dy || *o == Hy::Jump || *p == Hy::Jump {
                    return false;
                }
                sa.push(x.clone());
                sb.push(y.clone());
                let r = go(c, d, sa, sb, fa);
                sa.pop();
                sb.pop();
                r
            }
            _ => false,
        }
    }
    go(a, b, &mut vec![], &mut vec![], &mut vec![])
}
