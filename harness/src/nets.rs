//! Network specifications of the harness (independent of the library's own network type),
//! their rendering to `.aeon` text, and the *independent colour semantics*: every interpretation
//! of every uninterpreted / implicit function, the regulation constraints evaluated on the
//! instantiated update functions, and the asynchronous transition system of every valid colour.

use std::collections::BTreeMap;

#[derive(Clone, Debug, PartialEq, Eq, Hash, PartialOrd, Ord, serde::Serialize, serde::Deserialize)]
pub enum Expr {
    Const(bool),
    Var(usize),
    Not(Box<Expr>),
    /// op in {'&','|','^','>','='}  ('>' = implication, '=' = equivalence)
    Bin(char, Box<Expr>, Box<Expr>),
    /// uninterpreted function applied to network variables
    Call(String, Vec<usize>),
    /// uninterpreted function applied to literals (variable, negated?)
    CallLit(String, Vec<(usize, bool)>),
    /// uninterpreted function applied to arbitrary argument expressions (parameters, constants, terms)
    CallE(String, Vec<Expr>),
}

#[derive(Clone, Copy, Debug, PartialEq, Eq, Hash, PartialOrd, Ord, serde::Serialize, serde::Deserialize)]
pub enum Sign {
    Pos,
    Neg,
    Unk,
}

#[derive(Clone, Debug, PartialEq, Eq, Hash, PartialOrd, Ord, serde::Serialize, serde::Deserialize)]
pub struct Reg {
    pub src: usize,
    pub dst: usize,
    pub sign: Sign,
    pub observable: bool,
}

#[derive(Clone, Debug, PartialEq, Eq, Hash, serde::Serialize, serde::Deserialize)]
pub struct NetSpec {
    /// variable names, must be in strictly increasing alphabetical order (the library sorts them)
    pub vars: Vec<String>,
    pub regs: Vec<Reg>,
    /// explicit update function of each variable (None = implicit over its regulators)
    pub funcs: Vec<Option<Expr>>,
}

impl Expr {
    pub fn not(e: Expr) -> Expr {
        Expr::Not(Box::new(e))
    }
    pub fn bin(op: char, l: Expr, r: Expr) -> Expr {
        Expr::Bin(op, Box::new(l), Box::new(r))
    }
    pub fn render(&self, vars: &[String]) -> String {
        match self {
            Expr::Const(b) => (if *b { "true" } else { "false" }).to_string(),
            Expr::Var(i) => vars[*i].clone(),
            Expr::Not(e) => format!("!{}", e.render_atom(vars)),
            Expr::Bin(op, l, r) => {
                let o = match op {
                    '&' => "&",
                    '|' => "|",
                    '^' => "^",
                    '>' => "=>",
                    '=' => "<=>",
                    _ => panic!("bad op"),
                };
                format!("{} {} {}", l.render_atom(vars), o, r.render_atom(vars))
            }
            Expr::Call(name, args) => {
                if args.is_empty() {
                    name.clone()
                } else {
                    let a: Vec<String> = args.iter().map(|i| vars[*i].clone()).collect();
                    format!("{}({})", name, a.join(", "))
                }
            }
            Expr::CallLit(name, args) => {
                let a: Vec<String> = args.iter().map(|(i, neg)| if *neg { format!("!{}", vars[*i]) } else { vars[*i].clone() }).collect();
                format!("{}({})", name, a.join(", "))
            }
            Expr::CallE(name, args) => {
                let a: Vec<String> = args.iter().map(|e| e.render(vars)).collect();
                format!("{}({})", name, a.join(", "))
            }
        }
    }
    fn render_atom(&self, vars: &[String]) -> String {
        match self {
            Expr::Bin(..) => format!("({})", self.render(vars)),
            _ => self.render(vars),
        }
    }
    /// Collect (name -> arity) of uninterpreted symbols.
    pub fn symbols(&self, out: &mut BTreeMap<String, usize>) {
        match self {
            Expr::Const(_) | Expr::Var(_) => {}
            Expr::Not(e) => e.symbols(out),
            Expr::Bin(_, l, r) => {
                l.symbols(out);
                r.symbols(out);
            }
            Expr::Call(n, a) => {
                out.insert(n.clone(), a.len());
            }
            Expr::CallLit(n, a) => {
                out.insert(n.clone(), a.len());
            }
            Expr::CallE(n, a) => {
                out.insert(n.clone(), a.len());
                for e in a {
                    e.symbols(out);
                }
            }
        }
    }
    pub fn support(&self, out: &mut Vec<usize>) {
        match self {
            Expr::Const(_) => {}
            Expr::Var(i) => {
                if !out.contains(i) {
                    out.push(*i)
                }
            }
            Expr::Not(e) => e.support(out),
            Expr::Bin(_, l, r) => {
                l.support(out);
                r.support(out);
            }
            Expr::Call(_, a) => {
                for i in a {
                    if !out.contains(i) {
                        out.push(*i)
                    }
                }
            }
            Expr::CallLit(_, a) => {
                for (i, _) in a {
                    if !out.contains(i) {
                        out.push(*i)
                    }
                }
            }
            Expr::CallE(_, a) => {
                for e in a {
                    e.support(out);
                }
            }
        }
    }
    pub fn eval(&self, state: usize, interp: &Interp) -> bool {
        match self {
            Expr::Const(b) => *b,
            Expr::Var(i) => state >> i & 1 == 1,
            Expr::Not(e) => !e.eval(state, interp),
            Expr::Bin(op, l, r) => {
                let a = l.eval(state, interp);
                let b = r.eval(state, interp);
                match op {
                    '&' => a && b,
                    '|' => a || b,
                    '^' => a != b,
                    '>' => !a || b,
                    '=' => a == b,
                    _ => unreachable!(),
                }
            }
            Expr::Call(name, args) => {
                let mut idx = 0usize;
                for (k, v) in args.iter().enumerate() {
                    if state >> v & 1 == 1 {
                        idx |= 1 << k;
                    }
                }
                interp.explicit[name][idx]
            }
            Expr::CallLit(name, args) => {
                let mut idx = 0usize;
                for (k, (v, neg)) in args.iter().enumerate() {
                    if (state >> v & 1 == 1) != *neg {
                        idx |= 1 << k;
                    }
                }
                interp.explicit[name][idx]
            }
            Expr::CallE(name, args) => {
                let mut idx = 0usize;
                for (k, e) in args.iter().enumerate() {
                    if e.eval(state, interp) {
                        idx |= 1 << k;
                    }
                }
                interp.explicit[name][idx]
            }
        }
    }
}

/// One interpretation of all unknown functions (= one candidate colour), independent of BDDs.
/// Truth tables are indexed by the integer whose bit `k` is the value of the `k`-th argument.
#[derive(Clone, Debug, PartialEq, Eq, Hash, PartialOrd, Ord)]
pub struct Interp {
    pub explicit: BTreeMap<String, Vec<bool>>,
    /// implicit function of variable `i` over its regulators (sorted by variable index)
    pub implicit: BTreeMap<usize, Vec<bool>>,
}

impl Interp {
    pub fn describe(&self, spec: &NetSpec) -> String {
        let mut parts = vec![];
        for (n, t) in &self.explicit {
            parts.push(format!("{}={}", n, bits(t)));
        }
        for (v, t) in &self.implicit {
            parts.push(format!("f_{}={}", spec.vars[*v], bits(t)));
        }
        parts.join(",")
    }
}
fn bits(t: &[bool]) -> String {
    t.iter().map(|b| if *b { '1' } else { '0' }).collect()
}

/// The asynchronous transition system of one colour.
#[derive(Clone, Debug)]
pub struct ColourTs {
    pub interp: Interp,
    /// successor lists (a state without enabled update carries a self-loop)
    pub succ: Vec<Vec<usize>>,
    pub pred: Vec<Vec<usize>>,
    /// states without any enabled update (before adding the self-loop)
    pub steady: Vec<bool>,
    pub n_edges: usize,
}

impl NetSpec {
    pub fn n(&self) -> usize {
        self.vars.len()
    }
    pub fn regulators(&self, dst: usize) -> Vec<usize> {
        let mut r: Vec<usize> = self.regs.iter().filter(|r| r.dst == dst).map(|r| r.src).collect();
        r.sort();
        r.dedup();
        r
    }
    pub fn to_aeon(&self) -> String {
        let mut s = String::new();
        for r in &self.regs {
            let arrow = match (r.sign, r.observable) {
                (Sign::Pos, true) => "->",
                (Sign::Neg, true) => "-|",
                (Sign::Unk, true) => "-?",
                (Sign::Pos, false) => "->?",
                (Sign::Neg, false) => "-|?",
                (Sign::Unk, false) => "-??",
            };
            s.push_str(&format!("{} {} {}\n", self.vars[r.src], arrow, self.vars[r.dst]));
        }
        for (i, f) in self.funcs.iter().enumerate() {
            if let Some(f) = f {
                s.push_str(&format!("${}: {}\n", self.vars[i], f.render(&self.vars)));
            }
        }
        s
    }
    /// Structural sanity required by the library: functions only mention declared regulators,
    /// variable names sorted, at most one regulation per (src,dst), every variable occurs somewhere.
    pub fn well_formed(&self) -> bool {
        for w in self.vars.windows(2) {
            if w[0] >= w[1] {
                return false;
            }
        }
        self.well_formed_unordered()
    }
    /// Variables sorted by name? (every lib-param-bn parser sorts; a programmatically built network need not be)
    pub fn sorted_names(&self) -> bool {
        self.vars.windows(2).all(|w| w[0] < w[1])
    }
    /// `well_formed` without the requirement that the variable names are sorted (networks built with
    /// `RegulatoryGraph::new` keep the declaration order).
    pub fn well_formed_unordered(&self) -> bool {
        let mut names = std::collections::BTreeSet::new();
        if !self.vars.iter().all(|v| names.insert(v.clone())) {
            return false;
        }
        for (i, f) in self.funcs.iter().enumerate() {
            if let Some(f) = f {
                let mut sup = vec![];
                f.support(&mut sup);
                let regs = self.regulators(i);
                if sup.iter().any(|v| !regs.contains(v)) {
                    return false;
                }
            }
        }
        let mut seen = std::collections::BTreeSet::new();
        for r in &self.regs {
            if !seen.insert((r.src, r.dst)) {
                return false;
            }
        }
        // every variable must be mentioned somewhere in the aeon text
        for i in 0..self.n() {
            if self.funcs[i].is_none() && !self.regs.iter().any(|r| r.src == i || r.dst == i) {
                return false;
            }
        }
        // same symbol must be used with one arity
        let mut sym = BTreeMap::new();
        for f in self.funcs.iter().flatten() {
            let mut s2 = BTreeMap::new();
            f.symbols(&mut s2);
            for (k, v) in s2 {
                if let Some(old) = sym.insert(k, v) {
                    if old != v {
                        return false;
                    }
                }
            }
        }
        true
    }
    pub fn symbols(&self) -> BTreeMap<String, usize> {
        let mut sym = BTreeMap::new();
        for f in self.funcs.iter().flatten() {
            f.symbols(&mut sym);
        }
        sym
    }
    /// Variables with an implicit update function, with arity (= number of regulators).
    pub fn implicit_vars(&self) -> Vec<(usize, usize)> {
        (0..self.n())
            .filter(|i| self.funcs[*i].is_none())
            .map(|i| (i, self.regulators(i).len()))
            .collect()
    }
    /// Number of Boolean parameters (bits of one colour).
    pub fn param_bits(&self) -> usize {
        self.symbols().values().map(|a| 1usize << a).sum::<usize>()
            + self.implicit_vars().iter().map(|(_, a)| 1usize << a).sum::<usize>()
    }
    /// Every interpretation (valid or not), in a deterministic order.
    pub fn all_interps(&self) -> Vec<Interp> {
        let syms: Vec<(String, usize)> = self.symbols().into_iter().collect();
        let imps = self.implicit_vars();
        let total = self.param_bits();
        assert!(total <= 20, "too many parameter bits for explicit enumeration: {total}");
        let mut out = Vec::with_capacity(1 << total);
        for code in 0..(1u64 << total) {
            let mut pos = 0;
            let mut explicit = BTreeMap::new();
            for (name, ar) in &syms {
                let rows = 1usize << ar;
                let t: Vec<bool> = (0..rows).map(|r| code >> (pos + r) & 1 == 1).collect();
                pos += rows;
                explicit.insert(name.clone(), t);
            }
            let mut implicit = BTreeMap::new();
            for (v, ar) in &imps {
                let rows = 1usize << ar;
                let t: Vec<bool> = (0..rows).map(|r| code >> (pos + r) & 1 == 1).collect();
                pos += rows;
                implicit.insert(*v, t);
            }
            out.push(Interp { explicit, implicit });
        }
        out
    }
    /// Value of the update function of `var` in `state` under `interp`.
    pub fn update(&self, var: usize, state: usize, interp: &Interp) -> bool {
        match &self.funcs[var] {
            Some(f) => f.eval(state, interp),
            None => {
                let regs = self.regulators(var);
                let mut idx = 0usize;
                for (k, r) in regs.iter().enumerate() {
                    if state >> r & 1 == 1 {
                        idx |= 1 << k;
                    }
                }
                interp.implicit[&var][idx]
            }
        }
    }
    /// Regulation constraints (observability, monotonicity) on the instantiated functions.
    pub fn is_valid(&self, interp: &Interp) -> bool {
        let n = self.n();
        for r in &self.regs {
            let mut observable = false;
            let mut mono_pos = true;
            let mut mono_neg = true;
            for s in 0..(1usize << n) {
                if s >> r.src & 1 == 1 {
                    continue;
                }
                let f0 = self.update(r.dst, s, interp);
                let f1 = self.update(r.dst, s | (1 << r.src), interp);
                if f0 != f1 {
                    observable = true;
                }
                if f0 && !f1 {
                    mono_pos = false;
                }
                if !f0 && f1 {
                    mono_neg = false;
                }
            }
            if r.observable && !observable {
                return false;
            }
            match r.sign {
                Sign::Pos if !mono_pos => return false,
                Sign::Neg if !mono_neg => return false,
                _ => {}
            }
        }
        true
    }
    pub fn transition_system(&self, interp: &Interp) -> ColourTs {
        let n = self.n();
        let ns = 1usize << n;
        let mut succ = vec![vec![]; ns];
        let mut pred = vec![vec![]; ns];
        let mut steady = vec![false; ns];
        let mut n_edges = 0;
        for s in 0..ns {
            for v in 0..n {
                let nv = self.update(v, s, interp);
                if nv != (s >> v & 1 == 1) {
                    succ[s].push(s ^ (1 << v));
                }
            }
            if succ[s].is_empty() {
                steady[s] = true;
                succ[s].push(s);
            }
            n_edges += succ[s].len();
        }
        for s in 0..ns {
            for &t in &succ[s] {
                pred[t].push(s);
            }
        }
        ColourTs { interp: interp.clone(), succ, pred, steady, n_edges }
    }
    /// Transition systems of all valid colours.
    pub fn valid_colours(&self) -> Vec<ColourTs> {
        self.all_interps()
            .iter()
            .filter(|i| self.is_valid(i))
            .map(|i| self.transition_system(i))
            .collect()
    }
}

// ---------------------------------------------------------------------------------------------
// A tiny parser for hand-written specs:  regulations "a -> b", functions "$a: !b | f(a)"
// ---------------------------------------------------------------------------------------------

struct P<'a> {
    t: Vec<String>,
    i: usize,
    vars: &'a [String],
}
impl<'a> P<'a> {
    fn peek(&self) -> Option<&str> {
        self.t.get(self.i).map(|s| s.as_str())
    }
    fn next(&mut self) -> Option<String> {
        let r = self.t.get(self.i).cloned();
        self.i += 1;
        r
    }
    // precedence (weakest first): <=>, =>, |, ^, &, !
    fn iff(&mut self) -> Expr {
        let l = self.imp();
        if self.peek() == Some("<=>") {
            self.next();
            let r = self.iff();
            return Expr::bin('=', l, r);
        }
        l
    }
    fn imp(&mut self) -> Expr {
        let l = self.or();
        if self.peek() == Some("=>") {
            self.next();
            let r = self.imp();
            return Expr::bin('>', l, r);
        }
        l
    }
    fn or(&mut self) -> Expr {
        let mut l = self.xor();
        while self.peek() == Some("|") {
            self.next();
            let r = self.xor();
            l = Expr::bin('|', l, r);
        }
        l
    }
    fn xor(&mut self) -> Expr {
        let mut l = self.and();
        while self.peek() == Some("^") {
            self.next();
            let r = self.and();
            l = Expr::bin('^', l, r);
        }
        l
    }
    fn and(&mut self) -> Expr {
        let mut l = self.un();
        while self.peek() == Some("&") {
            self.next();
            let r = self.un();
            l = Expr::bin('&', l, r);
        }
        l
    }
    fn un(&mut self) -> Expr {
        match self.next().expect("unexpected end").as_str() {
            "!" => Expr::not(self.un()),
            "(" => {
                let e = self.iff();
                assert_eq!(self.next().as_deref(), Some(")"));
                e
            }
            "true" => Expr::Const(true),
            "false" => Expr::Const(false),
            id => {
                if self.peek() == Some("(") {
                    self.next();
                    let mut args = vec![];
                    loop {
                        let a = self.next().unwrap();
                        if a == ")" {
                            break;
                        }
                        if a == "," {
                            continue;
                        }
                        args.push(self.vars.iter().position(|v| *v == a).expect("arg must be var"));
                    }
                    Expr::Call(id.to_string(), args)
                } else if let Some(p) = self.vars.iter().position(|v| v == id) {
                    Expr::Var(p)
                } else {
                    Expr::Call(id.to_string(), vec![])
                }
            }
        }
    }
}

fn lex(s: &str) -> Vec<String> {
    let cs: Vec<char> = s.chars().collect();
    let mut out = vec![];
    let mut i = 0;
    while i < cs.len() {
        let c = cs[i];
        if c.is_whitespace() {
            i += 1;
        } else if c.is_alphanumeric() || c == '_' {
            let mut j = i;
            while j < cs.len() && (cs[j].is_alphanumeric() || cs[j] == '_') {
                j += 1;
            }
            out.push(cs[i..j].iter().collect());
            i = j;
        } else if s[s.char_indices().nth(i).unwrap().0..].starts_with("<=>") {
            out.push("<=>".into());
            i += 3;
        } else if s[s.char_indices().nth(i).unwrap().0..].starts_with("=>") {
            out.push("=>".into());
            i += 2;
        } else {
            out.push(c.to_string());
            i += 1;
        }
    }
    out
}

pub fn parse_expr(s: &str, vars: &[String]) -> Expr {
    let mut p = P { t: lex(s), i: 0, vars };
    let e = p.iff();
    assert!(p.i == p.t.len(), "trailing tokens in {s:?}");
    e
}

/// Build a spec from aeon-like lines (regulations and `$x: expr` lines). Variables = all names
/// that occur as source/target of a regulation or as target of a function line, sorted.
pub fn spec(lines: &str) -> NetSpec {
    spec_ordered(lines, None)
}

/// `order`: the declaration order of the variables (None = sorted by name, as the aeon parser does).
pub fn spec_ordered(lines: &str, order: Option<&[&str]>) -> NetSpec {
    let mut names = std::collections::BTreeSet::new();
    let mut regs_raw = vec![];
    let mut funs_raw = vec![];
    for line in lines.split(|c| c == '\n' || c == ';') {
        let line = line.trim();
        if line.is_empty() {
            continue;
        }
        if let Some(rest) = line.strip_prefix('$') {
            let (v, e) = rest.split_once(':').unwrap();
            names.insert(v.trim().to_string());
            funs_raw.push((v.trim().to_string(), e.trim().to_string()));
        } else {
            let parts: Vec<&str> = line.split_whitespace().collect();
            assert_eq!(parts.len(), 3, "bad regulation line {line:?}");
            names.insert(parts[0].to_string());
            names.insert(parts[2].to_string());
            regs_raw.push((parts[0].to_string(), parts[1].to_string(), parts[2].to_string()));
        }
    }
    let vars: Vec<String> = match order {
        None => names.into_iter().collect(),
        Some(o) => {
            assert_eq!(o.iter().map(|s| s.to_string()).collect::<std::collections::BTreeSet<_>>(), names, "order must list exactly the variables");
            o.iter().map(|s| s.to_string()).collect()
        }
    };
    let idx = |n: &str| vars.iter().position(|v| v == n).unwrap();
    let regs = regs_raw
        .iter()
        .map(|(s, a, d)| {
            let (sign, observable) = match a.as_str() {
                "->" => (Sign::Pos, true),
                "-|" => (Sign::Neg, true),
                "-?" => (Sign::Unk, true),
                "->?" => (Sign::Pos, false),
                "-|?" => (Sign::Neg, false),
                "-??" => (Sign::Unk, false),
                _ => panic!("bad arrow {a}"),
            };
            Reg { src: idx(s), dst: idx(d), sign, observable }
        })
        .collect();
    let mut funcs = vec![None; vars.len()];
    for (v, e) in funs_raw {
        funcs[idx(&v)] = Some(parse_expr(&e, &vars));
    }
    let s = NetSpec { vars, regs, funcs };
    assert!(if order.is_some() { s.well_formed_unordered() } else { s.well_formed() }, "spec not well formed: {lines:?}");
    s
}

/// The hand-written core family `N_core` (DESIGN §2.1). Every entry: (short name, spec).
pub fn core_family() -> Vec<(&'static str, NetSpec)> {
    vec![
        // 1 variable, no steady state in any colour, 1 colour
        ("neg1", spec("a -| a; $a: !a")),
        // 1 variable, implicit function, unconstrained: 4 colours, steady states in some colours only
        ("imp1", spec("a -?? a")),
        // 2 variables, constrained implicit functions: few valid colours out of many valuations
        ("con2", spec("a -> b; b -| a; b -> b")),
        // 2 variables, fully explicit toggle switch (symmetric), 1 colour, 2 steady states
        ("tog2", spec("a -| b; b -| a; $a: !b; $b: !a")),
        // 2 variables, asymmetric, explicit, one cycle and a fork
        ("asy2", spec("a -> a; b -| a; a -> b; $a: a & !b; $b: a")),
        // 2 variables, unconstrained regulation + explicit function: 16 colours (unit = true)
        ("unc2", spec("a -?? b; b -?? a; $a: !b")),
        // uninterpreted function of arity 1 inside an expression, input-free
        ("unf2", spec("a -?? a; b -? a; a -? b; $a: a | f(b); $b: f(a)")),
        // an input variable (no regulator, no function) driving another one
        ("inp2", spec("a -> b; b -?? b; $b: a | g(b)")),
        // 3 variables, negative feedback cycle (oscillation), asymmetric, 1 colour
        ("cyc3", spec("a -> b; b -> c; c -| a; $a: !c; $b: a; $c: b")),
        // 3 variables, asymmetric, several attractors incl. a non-trivial one, 2-ary symbol shared
        ("shr3", spec("a -?? b; c -?? b; a -?? c; b -?? c; c -| a; $a: !c; $b: h(a, c); $c: h(a, b) & !c; c -?? c")),
        // 3 variables, constrained implicit functions, colour-dependent attractors
        ("imp3", spec("a -> b; c -| b; b -> c; a -> a; $a: a; c -| c")),
        // zero-arity parameter shared by two variables
        ("zer2", spec("a -?? a; b -?? b; $a: a & k; $b: !b | k")),
    ]
}

/// `N_all2` (DESIGN §2.1): all 2-variable networks of a grammar — each of the 4 possible
/// regulations absent or present with sign in {+,-,?} x observable in {yes,no}; per variable:
/// implicit, or an explicit expression over its regulators, or an uninterpreted function of them.
pub fn all2_specs() -> Vec<NetSpec> {
    let vars = vec!["a".to_string(), "b".to_string()];
    let reg_opts: Vec<Option<(Sign, bool)>> = vec![
        None,
        Some((Sign::Pos, true)),
        Some((Sign::Neg, true)),
        Some((Sign::Unk, true)),
        Some((Sign::Pos, false)),
        Some((Sign::Neg, false)),
        Some((Sign::Unk, false)),
    ];
    let fun_opts = |t: usize, regs: &[usize]| -> Vec<Option<Expr>> {
        let v = Expr::Var;
        let sym = if t == 0 { "f" } else { "g" };
        let mut o: Vec<Option<Expr>> = vec![None];
        match regs.len() {
            0 => {
                o.push(Some(Expr::Const(true)));
                o.push(Some(Expr::Const(false)));
            }
            1 => {
                let x = regs[0];
                o.push(Some(v(x)));
                o.push(Some(Expr::not(v(x))));
                o.push(Some(Expr::Call(sym.into(), vec![x])));
                o.push(Some(Expr::Call("f".into(), vec![x])));
            }
            _ => {
                let (x, y) = (regs[0], regs[1]);
                o.push(Some(Expr::bin('&', v(x), v(y))));
                o.push(Some(Expr::bin('|', v(x), v(y))));
                o.push(Some(Expr::bin('^', v(x), v(y))));
                o.push(Some(Expr::bin('&', v(x), Expr::not(v(y)))));
                o.push(Some(Expr::bin('|', Expr::not(v(x)), v(y))));
                o.push(Some(Expr::bin('=', v(x), v(y))));
                o.push(Some(Expr::Call(sym.into(), vec![x, y])));
                o.push(Some(Expr::bin('&', Expr::Call("f".into(), vec![x]), v(y))));
            }
        }
        o.dedup();
        o
    };
    let mut out = vec![];
    for code in 0..7usize.pow(4) {
        let mut c = code;
        let mut regs = vec![];
        for (src, dst) in [(0usize, 0usize), (1, 0), (0, 1), (1, 1)] {
            if let Some((sign, observable)) = reg_opts[c % 7] {
                regs.push(Reg { src, dst, sign, observable });
            }
            c /= 7;
        }
        let r0: Vec<usize> = regs.iter().filter(|r| r.dst == 0).map(|r| r.src).collect();
        let r1: Vec<usize> = regs.iter().filter(|r| r.dst == 1).map(|r| r.src).collect();
        for f0 in fun_opts(0, &r0) {
            for f1 in fun_opts(1, &r1) {
                let s = NetSpec { vars: vars.clone(), regs: regs.clone(), funcs: vec![f0.clone(), f1.clone()] };
                if s.well_formed() && s.param_bits() <= 8 {
                    out.push(s);
                }
            }
        }
    }
    out
}

/// Semantic signature used to de-duplicate networks: the sorted multiset of the valid colours'
/// transition systems plus whether some parameter valuation is excluded.
pub fn signature(spec: &NetSpec) -> Option<(Vec<Vec<Vec<usize>>>, bool)> {
    let interps = spec.all_interps();
    let mut ts = vec![];
    let mut invalid = false;
    for i in &interps {
        if spec.is_valid(i) {
            ts.push(spec.transition_system(i).succ);
        } else {
            invalid = true;
        }
    }
    if ts.is_empty() {
        return None;
    }
    ts.sort();
    Some((ts, invalid))
}
