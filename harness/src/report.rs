//! Evidence files, violation replays, known findings, exit codes.

use serde_json::{json, Map, Value};
use std::collections::BTreeMap;
use std::path::PathBuf;
use std::time::Instant;

pub const VERIF_DIR: &str = "/verif";

/// Where replays and evidence are written (`VERIF_OUT_DIR` overrides /verif; used by the parallel regression driver).
fn out_dir() -> PathBuf {
    PathBuf::from(std::env::var("VERIF_OUT_DIR").unwrap_or_else(|_| VERIF_DIR.to_string()))
}

#[derive(Clone, Debug)]
pub struct Violation {
    /// self-contained, replayable description of the failing case (`kind` selects the replayer)
    pub case: Value,
    /// what was observed vs. expected
    pub what: String,
    /// a size measure used to report the smallest counterexamples first
    pub size: usize,
}

pub struct Report {
    pub property: String,
    pub tier: String,
    pub level: &'static str,
    pub rule: String,
    pub evaluations: u64,
    pub distinct_nontrivial: u64,
    pub states: u64,
    pub transitions: u64,
    pub traces_validated: u64,
    pub exhaustive: bool,
    pub caps: Vec<String>,
    pub samples: Vec<Value>,
    pub extra: Map<String, Value>,
    pub assumptions: Vec<String>,
    pub violations: Vec<Violation>,
    pub started: Instant,
}

impl Report {
    pub fn new(property: &str, tier: &str, level: &'static str) -> Report {
        Report {
            property: property.to_string(),
            tier: tier.to_string(),
            level,
            rule: String::new(),
            evaluations: 0,
            distinct_nontrivial: 0,
            states: 0,
            transitions: 0,
            traces_validated: 0,
            exhaustive: true,
            caps: vec![],
            samples: vec![],
            extra: Map::new(),
            assumptions: vec![],
            violations: vec![],
            started: Instant::now(),
        }
    }
    pub fn sample(&mut self, v: Value) {
        if self.samples.len() < 12 {
            self.samples.push(v);
        }
    }
    pub fn set(&mut self, k: &str, v: Value) {
        self.extra.insert(k.to_string(), v);
    }
    pub fn add_count(&mut self, k: &str, n: u64) {
        let cur = self.extra.get(k).and_then(|v| v.as_u64()).unwrap_or(0);
        self.extra.insert(k.to_string(), json!(cur + n));
    }
    pub fn cap(&mut self, what: String) {
        self.exhaustive = false;
        self.caps.push(what);
    }
}

#[derive(Clone, Debug, serde::Deserialize)]
pub struct Finding {
    pub status: String, // "open" | "fixed"
    #[serde(default)]
    pub id: String,
    pub property: String,
    pub what: String,
    #[serde(default)]
    pub commit: String,
    /// name of an input-level predicate implemented in `triggers::holds`
    #[serde(default)]
    pub trigger: String,
    /// other properties whose checks may also run into this finding (same trigger)
    #[serde(default)]
    pub also_affects: Vec<String>,
    #[serde(default)]
    pub witnesses: Vec<Value>,
}

pub fn load_findings() -> Vec<Finding> {
    let p = PathBuf::from(VERIF_DIR).join("known_findings.json");
    match std::fs::read_to_string(&p) {
        Ok(s) => {
            let v: Value = serde_json::from_str(&s).expect("known_findings.json is not valid JSON");
            let arr = v.get("findings").cloned().unwrap_or(Value::Array(vec![]));
            serde_json::from_value(arr).expect("known_findings.json has unexpected shape")
        }
        Err(_) => vec![],
    }
}

pub fn seed() -> i64 {
    std::env::var("VERIF_SEED").ok().and_then(|s| s.parse().ok()).unwrap_or(0)
}

/// Finish a check: attribute violations to open known findings (by input-level trigger),
/// write replays + evidence, print the protocol lines, and return the process exit code.
pub fn finish(mut rep: Report, replayer: &dyn Fn(&Value) -> Option<String>) -> i32 {
    let findings = load_findings();
    let open: Vec<&Finding> = findings
        .iter()
        .filter(|f| f.status == "open" && (f.property == rep.property || f.also_affects.contains(&rep.property)))
        .collect();
    rep.violations.sort_by_key(|v| v.size);
    let mut attributed: BTreeMap<String, u64> = BTreeMap::new();
    let mut unlisted: Vec<&Violation> = vec![];
    for v in &rep.violations {
        let mut hit = None;
        for f in &open {
            if crate::triggers::holds(&f.trigger, &v.case) {
                hit = Some(f.id.clone());
                break;
            }
        }
        match hit {
            Some(id) => *attributed.entry(id).or_insert(0) += 1,
            None => unlisted.push(v),
        }
    }
    // known-finding lines: re-run the witnesses so that the line reflects the current tree
    for f in &open {
        let mut reproduced = 0;
        for w in &f.witnesses {
            if replayer(w).is_some() {
                reproduced += 1;
            }
        }
        println!(
            "KNOWN-FINDING: property={} {} {} [witnesses reproducing: {}/{}; enumerated cases under its trigger that fail: {}]",
            rep.property,
            f.id,
            f.what,
            reproduced,
            f.witnesses.len(),
            attributed.get(&f.id).copied().unwrap_or(0)
        );
    }
    // replays for unlisted violations (smallest first, capped)
    let dir = out_dir().join("replays").join(&rep.property);
    let _ = std::fs::remove_dir_all(&dir);
    let mut printed = 0;
    if !unlisted.is_empty() {
        std::fs::create_dir_all(&dir).expect("cannot create replay dir");
    }
    for (i, v) in unlisted.iter().enumerate() {
        if i >= 25 {
            break;
        }
        let path = dir.join(format!("{}.json", i));
        let body = json!({"property": rep.property, "tier": rep.tier, "what": v.what, "case": v.case});
        std::fs::write(&path, serde_json::to_string_pretty(&body).unwrap()).expect("cannot write replay");
        println!("VIOLATION property={} replay={}", rep.property, path.display());
        println!("  what: {}", truncate(&v.what, 600));
        printed += 1;
    }
    if unlisted.len() > printed {
        println!("  ... and {} more violations of {} (replays written for the {} smallest)", unlisted.len() - printed, rep.property, printed);
    }
    // evidence
    let wall = rep.started.elapsed().as_secs_f64();
    let mut cov = Map::new();
    cov.insert("evaluations".into(), json!(rep.evaluations));
    cov.insert("distinct_nontrivial".into(), json!(rep.distinct_nontrivial));
    cov.insert("rule".into(), json!(rep.rule));
    if rep.samples.is_empty() {
        rep.samples.push(json!("(no case explored)"));
    }
    cov.insert("samples".into(), Value::Array(rep.samples.clone()));
    cov.insert("exhaustive".into(), json!(rep.exhaustive));
    if !rep.caps.is_empty() {
        cov.insert("caps_hit".into(), json!(rep.caps));
    }
    if rep.level == "model_checking" {
        cov.insert("states".into(), json!(rep.states));
        cov.insert("transitions".into(), json!(rep.transitions));
        cov.insert("traces_validated_against_impl".into(), json!(rep.traces_validated));
    }
    for (k, v) in rep.extra.iter() {
        cov.insert(k.clone(), v.clone());
    }
    cov.insert("violations_attributed_to_known_findings".into(), json!(attributed));
    let ev = json!({
        "property_id": rep.property,
        "tier": rep.tier,
        "seed": seed(),
        "level": rep.level,
        "coverage": Value::Object(cov),
        "assumptions": rep.assumptions,
        "wall_s": wall,
        "violations": unlisted.len(),
    });
    let evdir = out_dir().join("evidence");
    std::fs::create_dir_all(&evdir).expect("cannot create evidence dir");
    std::fs::write(evdir.join(format!("{}.json", rep.property)), serde_json::to_string_pretty(&ev).unwrap())
        .expect("cannot write evidence");
    println!(
        "{} {}: evaluations={} distinct_nontrivial={} states={} transitions={} validated={} exhaustive={} violations={} (known: {}) wall={:.1}s",
        rep.property,
        rep.tier,
        rep.evaluations,
        rep.distinct_nontrivial,
        rep.states,
        rep.transitions,
        rep.traces_validated,
        rep.exhaustive,
        unlisted.len(),
        attributed.values().sum::<u64>(),
        wall
    );
    if unlisted.is_empty() {
        0
    } else {
        1
    }
}

pub fn truncate(s: &str, n: usize) -> String {
    if s.chars().count() <= n {
        s.to_string()
    } else {
        let t: String = s.chars().take(n).collect();
        format!("{t}…")
    }
}

thread_local! { static IN_GUARD: std::cell::Cell<u32> = const { std::cell::Cell::new(0) }; }

/// Run a closure, converting a panic into `Err(message)`.
pub fn guarded<T>(f: impl FnOnce() -> T + std::panic::UnwindSafe) -> Result<T, String> {
    IN_GUARD.with(|g| g.set(g.get() + 1));
    let r = std::panic::catch_unwind(f);
    IN_GUARD.with(|g| g.set(g.get() - 1));
    match r {
        Ok(v) => Ok(v),
        Err(e) => {
            let msg = if let Some(s) = e.downcast_ref::<&str>() {
                s.to_string()
            } else if let Some(s) = e.downcast_ref::<String>() {
                s.clone()
            } else {
                "panic".to_string()
            };
            Err(msg)
        }
    }
}

/// Silence the panic hook for panics of the subject (caught by `guarded` and reported as cases);
/// panics of the harness itself are still printed.
pub fn quiet_panics() {
    let default = std::panic::take_hook();
    std::panic::set_hook(Box::new(move |info| {
        if IN_GUARD.with(|g| g.get()) == 0 {
            default(info);
        }
    }));
}

/// Wall-clock budget helper for capped tiers.
pub struct Budget {
    pub start: Instant,
    pub secs: f64,
}
impl Budget {
    pub fn new(secs: f64) -> Budget {
        Budget { start: Instant::now(), secs }
    }
    pub fn exceeded(&self) -> bool {
        self.start.elapsed().as_secs_f64() > self.secs
    }
}
