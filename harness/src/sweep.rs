//! Shared machinery of the oracle-based sweeps: a network bound to the library plus an
//! interpretation of the context labels, the expected verdict table of a formula, wrappers around
//! the library's entry points that turn panics into values, and the point-wise comparison.

use crate::bridge::{full_mask, Bound, Mask};
use crate::formulas::{Names, F};
use crate::oracle::{Labels, Oracle};
use crate::report::guarded;
use biodivine_hctl_model_checker::model_checking as mc;
use biodivine_lib_bdd::{BddValuation, BddVariable};
use biodivine_lib_param_bn::symbolic_async_graph::{GraphColoredVertices, SymbolicContext};
use std::collections::HashMap;
use std::panic::AssertUnwindSafe;
use std::sync::Arc;

pub struct NetCtx {
    pub b: Arc<Bound>,
    pub user: Names,
    pub mini: Names,
    pub labels: Labels,
    pub label_desc: String,
    /// context sets handed to the extended entry points (wild-card and domain labels)
    pub sets: HashMap<String, GraphColoredVertices>,
    /// network-variable index of proposition `i`
    pub props: Vec<usize>,
    /// canonical context (no extras) and the valuations of the valid colours in it
    pub canon: SymbolicContext,
    canon_col_vals: Vec<Vec<(BddVariable, bool)>>,
}

#[derive(Clone, Debug)]
pub enum Got {
    Set(GraphColoredVertices),
    Err(String),
    Panic(String),
}

impl NetCtx {
    pub fn new(b: Arc<Bound>, labels: Labels, label_desc: &str) -> NetCtx {
        let n = b.n;
        let props: Vec<usize> = if n == 1 { vec![0] } else { vec![0, n - 1] };
        let prop_names: Vec<String> = props.iter().map(|i| b.spec.vars[*i].clone()).collect();
        let user = Names::user(&prop_names);
        let mini = Names::minimized(&prop_names);
        let mut sets = HashMap::new();
        for (i, m) in labels.wild.iter().enumerate() {
            sets.insert(user.wilds[i].clone(), b.mk_set(m));
        }
        for (i, m) in labels.dom.iter().enumerate() {
            sets.insert(user.doms[i].clone(), b.mk_set(m));
        }
        let canon = b.graph.symbolic_context().as_canonical_context();
        let mut canon_col_vals = vec![];
        for cv in &b.col_vals {
            let mut v = vec![];
            for (bv, val) in cv {
                let name = b.graph.symbolic_context().bdd_variable_set().name_of(*bv);
                let nv = canon.bdd_variable_set().var_by_name(&name).expect("canonical context lacks parameter");
                v.push((nv, *val));
            }
            canon_col_vals.push(v);
        }
        let mut labels = labels;
        labels.props = props.clone();
        NetCtx { b, user, mini, labels, label_desc: label_desc.to_string(), sets, props, canon, canon_col_vals }
    }

    /// The same context with EVERY network variable available as a proposition (proposition i = variable i).
    pub fn with_all_props(&self) -> NetCtx {
        let n = self.b.n;
        let props: Vec<usize> = (0..n).collect();
        let names: Vec<String> = self.b.spec.vars.clone();
        let mut user = self.user.clone();
        user.props = names.clone();
        let mut mini = self.mini.clone();
        mini.props = names;
        let mut labels = self.labels.clone();
        labels.props = props.clone();
        NetCtx { b: self.b.clone(), user, mini, labels, label_desc: self.label_desc.clone(), sets: self.sets.clone(), props, canon: self.canon.clone(), canon_col_vals: self.canon_col_vals.clone() }
    }

    /// Same network, other interpretation of the labels; `sets` must be the symbolic versions of
    /// the masks (wild labels first, then domain labels), built once by the caller.
    pub fn relabel(&self, labels: Labels, desc: &str, sets: Vec<GraphColoredVertices>) -> NetCtx {
        let mut m = HashMap::new();
        let mut it = sets.into_iter();
        for i in 0..labels.wild.len() {
            m.insert(self.user.wilds[i].clone(), it.next().expect("set for wild label"));
        }
        for i in 0..labels.dom.len() {
            m.insert(self.user.doms[i].clone(), it.next().expect("set for domain label"));
        }
        let mut labels = labels;
        labels.props = self.props.clone();
        NetCtx {
            b: self.b.clone(),
            user: self.user.clone(),
            mini: self.mini.clone(),
            labels,
            label_desc: desc.to_string(),
            sets: m,
            props: self.props.clone(),
            canon: self.canon.clone(),
            canon_col_vals: self.canon_col_vals.clone(),
        }
    }

    /// Same context with other NAMES for the wild-card / domain labels (the sets move with their label).
    pub fn with_label_names(&self, wilds: &[&str], doms: &[&str]) -> NetCtx {
        let mut c = self.relabel(self.labels.clone(), &self.label_desc, {
            let mut v = vec![];
            for i in 0..self.labels.wild.len() {
                v.push(self.sets[&self.user.wilds[i]].clone());
            }
            for i in 0..self.labels.dom.len() {
                v.push(self.sets[&self.user.doms[i]].clone());
            }
            v
        });
        let mut sets = HashMap::new();
        for i in 0..c.labels.wild.len() {
            sets.insert(wilds[i].to_string(), c.sets[&c.user.wilds[i]].clone());
        }
        for i in 0..c.labels.dom.len() {
            sets.insert(doms[i].to_string(), c.sets[&c.user.doms[i]].clone());
        }
        for (i, w) in wilds.iter().enumerate() {
            c.user.wilds[i] = w.to_string();
            c.mini.wilds[i] = w.to_string();
        }
        for (i, d) in doms.iter().enumerate() {
            c.user.doms[i] = d.to_string();
            c.mini.doms[i] = d.to_string();
        }
        c.sets = sets;
        c
    }

    pub fn nprops(&self) -> u8 {
        self.props.len() as u8
    }

    /// The verdict table the property text dictates: per valid colour the set of states.
    pub fn expected(&self, f: &F) -> Vec<Mask> {
        (0..self.b.cols.len())
            .map(|ci| Oracle::new(self.b.n, &self.b.cols[ci], ci, &self.labels).eval_closed(f))
            .collect()
    }

    /// Point-wise read-back of a set living in the canonical (sanitised) context.
    pub fn masks_of_canonical(&self, set: &GraphColoredVertices) -> Vec<Mask> {
        let bdd = set.as_bdd();
        let mut out = vec![];
        for ci in 0..self.b.cols.len() {
            let mut v = BddValuation::all_false(self.canon.bdd_variable_set().num_vars());
            for (bv, val) in &self.canon_col_vals[ci] {
                v.set_value(*bv, *val);
            }
            let mut m: Mask = 0;
            for s in 0..self.b.n_states() {
                for (i, sv) in self.canon.state_variables().iter().enumerate() {
                    v.set_value(*sv, s >> i & 1 == 1);
                }
                if bdd.eval_in(&v) {
                    m |= 1 << s;
                }
            }
            out.push(m);
        }
        out
    }

    pub fn is_canonical_shape(&self, set: &GraphColoredVertices) -> bool {
        set.as_bdd().num_vars() == self.canon.bdd_variable_set().num_vars()
    }

    // ---- entry points, panics caught -----------------------------------------------------

    pub fn run(&self, f: impl FnOnce() -> Result<GraphColoredVertices, String>) -> Got {
        match guarded(AssertUnwindSafe(f)) {
            Ok(Ok(s)) => Got::Set(s),
            Ok(Err(e)) => Got::Err(e),
            Err(p) => Got::Panic(p),
        }
    }
    pub fn formula_dirty(&self, text: &str) -> Got {
        self.run(|| mc::model_check_formula_dirty(text, &self.b.graph))
    }
    pub fn formula(&self, text: &str) -> Got {
        self.run(|| mc::model_check_formula(text, &self.b.graph))
    }
    pub fn tree_dirty(&self, f: &F) -> Got {
        self.run(|| mc::model_check_tree_dirty(f.to_tree(&self.mini), &self.b.graph))
    }
    pub fn tree(&self, f: &F) -> Got {
        self.run(|| mc::model_check_tree(f.to_tree(&self.mini), &self.b.graph))
    }
    pub fn ext_dirty(&self, text: &str) -> Got {
        self.run(|| mc::model_check_extended_formula_dirty(text, &self.b.graph, &self.sets))
    }
    pub fn ext(&self, text: &str) -> Got {
        self.run(|| mc::model_check_extended_formula(text, &self.b.graph, &self.sets))
    }

    /// Compare a raw result with the expected table on every state x valid colour.
    pub fn diff_dirty(&self, set: &GraphColoredVertices, expected: &[Mask]) -> Option<String> {
        let got = self.b.masks_of(set);
        self.diff(&got, expected)
    }
    pub fn diff_canonical(&self, set: &GraphColoredVertices, expected: &[Mask]) -> Option<String> {
        if !self.is_canonical_shape(set) {
            return Some(format!(
                "sanitised result has {} BDD variables, canonical context has {}",
                set.as_bdd().num_vars(),
                self.canon.bdd_variable_set().num_vars()
            ));
        }
        let got = self.masks_of_canonical(set);
        self.diff(&got, expected)
    }
    pub fn diff(&self, got: &[Mask], expected: &[Mask]) -> Option<String> {
        for ci in 0..expected.len() {
            if got[ci] != expected[ci] {
                return Some(format!(
                    "colour {} [{}]: states (bit s = state s, bit i of s = value of {:?}[i]) expected {:0w$b} got {:0w$b}",
                    ci,
                    self.b.cols[ci].interp.describe(&self.b.spec),
                    self.b.spec.vars,
                    expected[ci],
                    got[ci],
                    w = self.b.n_states()
                ));
            }
        }
        None
    }

    pub fn nontrivial(&self, expected: &[Mask]) -> bool {
        let u = full_mask(self.b.n);
        expected.iter().any(|m| *m != 0) && expected.iter().any(|m| *m != u)
    }
}

/// Deterministic families of label interpretations for a network (DESIGN §3 C02).
/// Returns (description, labels) pairs; every family defines 2 wild-card and 2 domain labels.
pub fn label_families(b: &Bound, how_many: usize) -> Vec<(String, Labels)> {
    let nc = b.cols.len();
    let u = full_mask(b.n);
    let ns = b.n_states();
    let pat = |bits: u64| -> Mask {
        // repeat an 8-bit pattern over the state space
        let mut m = 0u64;
        for s in 0..ns {
            if bits >> (s % 8) & 1 == 1 {
                m |= 1 << s;
            }
        }
        m & u
    };
    let mut out: Vec<(String, Labels)> = vec![];
    let mk = |p: Vec<Mask>, q: Vec<Mask>, d: Vec<Mask>, e: Vec<Mask>| Labels { wild: vec![p, q], dom: vec![d, e], props: vec![] };
    // 0: the mixed family: p colour-dependent, q colour-independent, d non-empty everywhere and
    //    colour-dependent, e empty for colour 0 only
    out.push((
        "mixed".into(),
        mk(
            (0..nc).map(|c| if c % 2 == 0 { pat(0b01100110) } else { pat(0b10011001) }).collect(),
            (0..nc).map(|_| pat(0b0011)).collect(),
            (0..nc).map(|c| if c % 2 == 0 { pat(0b01010101) } else { pat(0b00100010) | 1 }).collect(),
            (0..nc).map(|c| if c == 0 { 0 } else { pat(0b11001100) }).collect(),
        ),
    ));
    // 1: everything empty
    out.push(("empty".into(), mk(vec![0; nc], vec![0; nc], vec![0; nc], vec![0; nc])));
    // 2: everything full
    out.push(("full".into(), mk(vec![u; nc], vec![u; nc], vec![u; nc], vec![u; nc])));
    // 3: colour-disjoint domains: d only in even colours, e only in odd ones (or disjoint states)
    out.push((
        "disjoint".into(),
        mk(
            (0..nc).map(|c| if c % 2 == 1 { pat(0b10101010) } else { pat(0b00001111) }).collect(),
            (0..nc).map(|c| if c % 3 == 0 { u } else { 0 }).collect(),
            (0..nc).map(|c| if c % 2 == 0 { pat(0b00111100) | 1 } else { 0 }).collect(),
            (0..nc).map(|c| if c % 2 == 1 { pat(0b11000011) } else if nc == 1 { pat(0b11000010) } else { 0 }).collect(),
        ),
    ));
    // 4..: singletons (state, colour): p = d = {(s, c)}, q = e = complement within that colour
    let mut singles = vec![];
    for c in 0..nc {
        for s in 0..ns {
            singles.push((c, s));
        }
    }
    // spread the choice deterministically
    let step = (singles.len() / 4).max(1);
    let mut k = 0;
    while out.len() < how_many && k < singles.len() {
        let (c, s) = singles[k];
        let single: Vec<Mask> = (0..nc).map(|x| if x == c { 1u64 << s } else { 0 }).collect();
        let compl: Vec<Mask> = (0..nc).map(|x| if x == c { u & !(1u64 << s) } else { u }).collect();
        out.push((format!("single(c{c},s{s})"), mk(single.clone(), compl.clone(), single, compl)));
        k += step;
    }
    out.truncate(how_many.max(1));
    out
}
