//! Input-level trigger predicates of open known findings (DESIGN §4). A predicate only looks at
//! the *input* of a case (formula, network, configuration), never at the outcome.

use serde_json::Value;

pub fn holds(trigger: &str, case: &Value) -> bool {
    match trigger {
        // C19: the aeon network has a variable whose name equals a name the converter generates
        // for a fresh input (`<prefix>_<bits>`), see props/c19.rs
        "c19_generated_name_clash" => case.get("name_clash").and_then(|v| v.as_bool()).unwrap_or(false)
            && crate::props::c19::recompute_name_clash(case),
        _ => false,
    }
}
