//! Binding between the harness's independent colour semantics (`nets`) and the library's BDD
//! encoding: mapping of interpretations to parameter valuations, point-wise read-back of symbolic
//! sets, construction of symbolic sets from explicit masks, and the conformance checks of
//! DESIGN §2.2 (model of the transition systems == what the library builds).

use crate::nets::{ColourTs, Interp, NetSpec};
use biodivine_hctl_model_checker::mc_utils::get_extended_symbolic_graph;
use biodivine_lib_bdd::{Bdd, BddPartialValuation, BddValuation, BddVariable};
use biodivine_lib_param_bn::symbolic_async_graph::{GraphColoredVertices, SymbolicAsyncGraph};
use biodivine_lib_param_bn::BooleanNetwork;

/// State masks: bit `s` of a `u64` = state `s` (bit `i` of `s` = value of variable `i`). n <= 6.
pub type Mask = u64;

pub fn full_mask(n: usize) -> Mask {
    if n == 6 {
        u64::MAX
    } else {
        (1u64 << (1usize << n)) - 1
    }
}

/// A network together with the library's graph and the validated explicit colour semantics.
pub struct Bound {
    pub name: String,
    pub spec: NetSpec,
    pub aeon: String,
    pub bn: BooleanNetwork,
    pub k: u16,
    pub graph: SymbolicAsyncGraph,
    pub n: usize,
    /// valid colours with their transition systems (independent semantics)
    pub cols: Vec<ColourTs>,
    /// parameter valuation of each valid colour
    pub col_vals: Vec<Vec<(BddVariable, bool)>>,
    /// number of parameter valuations that are not valid colours
    pub invalid_valuations: usize,
}

#[derive(Debug)]
pub enum BindError {
    /// the library rejects the network (not an error of anyone: such specs are dropped)
    Rejected(String),
    /// the independent semantics and the library disagree: machinery failure
    Mismatch(String),
}

fn interp_valuation(
    spec: &NetSpec,
    interp: &Interp,
    graph: &SymbolicAsyncGraph,
) -> Result<Vec<(BddVariable, bool)>, String> {
    let ctx = graph.symbolic_context();
    let mut out = vec![];
    for (name, table) in &interp.explicit {
        let pid = ctx
            .find_network_parameter(name)
            .ok_or(format!("library does not know parameter {name}"))?;
        let ft = ctx.get_explicit_function_table(pid);
        let mut rows = 0;
        for (inputs, var) in ft {
            let mut idx = 0usize;
            for (k, b) in inputs.iter().enumerate() {
                if *b {
                    idx |= 1 << k;
                }
            }
            out.push((var, table[idx]));
            rows += 1;
        }
        if rows != table.len() {
            return Err(format!("arity mismatch for {name}"));
        }
    }
    for (v, table) in &interp.implicit {
        let vid = ctx
            .find_network_variable(&spec.vars[*v])
            .ok_or("variable missing".to_string())?;
        let ft = ctx
            .get_implicit_function_table(vid)
            .ok_or(format!("no implicit table for {}", spec.vars[*v]))?;
        let mut rows = 0;
        for (inputs, var) in ft {
            let mut idx = 0usize;
            for (k, b) in inputs.iter().enumerate() {
                if *b {
                    idx |= 1 << k;
                }
            }
            out.push((var, table[idx]));
            rows += 1;
        }
        if rows != table.len() {
            return Err(format!("arity mismatch for implicit {}", spec.vars[*v]));
        }
    }
    out.sort();
    Ok(out)
}

impl Bound {
    /// Build the library objects for `spec` with `k` spare variable sets and run the binding checks.
    pub fn new(name: &str, spec: &NetSpec, k: u16) -> Result<Bound, BindError> {
        Self::new_opt(name, spec, k, true)
    }

    pub fn new_opt(name: &str, spec: &NetSpec, k: u16, check_witness: bool) -> Result<Bound, BindError> {
        let aeon = spec.to_aeon();
        let bn = if spec.sorted_names() {
            BooleanNetwork::try_from(aeon.as_str()).map_err(BindError::Rejected)?
        } else {
            // variables declared in a non-lexicographic order: the network is built programmatically
            // (RegulatoryGraph::new keeps the given order; every parser of lib-param-bn would sort the names)
            let mut rg = biodivine_lib_param_bn::RegulatoryGraph::new(spec.vars.clone());
            for line in aeon.lines().filter(|l| !l.starts_with('$') && !l.trim().is_empty()) {
                rg.add_string_regulation(line).map_err(BindError::Rejected)?;
            }
            let mut bn = BooleanNetwork::new(rg);
            let mut symbols = std::collections::BTreeMap::new();
            for f in spec.funcs.iter().flatten() {
                f.symbols(&mut symbols);
            }
            for (name, arity) in &symbols {
                bn.add_parameter(name, *arity as u32).map_err(BindError::Rejected)?;
            }
            for line in aeon.lines().filter(|l| l.starts_with('$')) {
                let (v, e) = line[1..].split_once(':').ok_or_else(|| BindError::Mismatch("update line".into()))?;
                bn.add_string_update_function(v.trim(), e.trim()).map_err(BindError::Rejected)?;
            }
            bn
        };
        let graph = get_extended_symbolic_graph(&bn, k).map_err(BindError::Rejected)?;
        let n = spec.n();
        if graph.num_vars() != n {
            return Err(BindError::Mismatch("variable count".into()));
        }
        for (i, v) in graph.variables().enumerate() {
            if graph.get_variable_name(v) != spec.vars[i] {
                return Err(BindError::Mismatch(format!("variable order: {:?}", spec.vars)));
            }
        }
        let ctx = graph.symbolic_context();
        let pvars = ctx.parameter_variables().clone();
        if pvars.len() != spec.param_bits() {
            return Err(BindError::Mismatch(format!(
                "parameter bit count: library {} vs spec {} for {aeon:?}",
                pvars.len(),
                spec.param_bits()
            )));
        }
        let mut cols = vec![];
        let mut col_vals = vec![];
        let mut invalid = 0usize;
        let unit_colors = graph.unit_colors().as_bdd().clone();
        for interp in spec.all_interps() {
            let val = interp_valuation(spec, &interp, &graph).map_err(BindError::Mismatch)?;
            if val.len() != pvars.len() {
                return Err(BindError::Mismatch("valuation does not cover all parameters".into()));
            }
            let mut full = BddValuation::all_false(ctx.bdd_variable_set().num_vars());
            for (v, b) in &val {
                full.set_value(*v, *b);
            }
            let lib_valid = unit_colors.eval_in(&full);
            let my_valid = spec.is_valid(&interp);
            // binding check 1: validity of colours
            if lib_valid != my_valid {
                return Err(BindError::Mismatch(format!(
                    "colour validity differs for {} on {aeon:?}: library {lib_valid}, independent {my_valid}",
                    interp.describe(spec)
                )));
            }
            if !my_valid {
                invalid += 1;
                continue;
            }
            let ts = spec.transition_system(&interp);
            // binding check 2: update functions point-wise
            for s in 0..(1usize << n) {
                let mut v = full.clone();
                for (i, sv) in ctx.state_variables().iter().enumerate() {
                    v.set_value(*sv, s >> i & 1 == 1);
                }
                for (i, var) in graph.variables().enumerate() {
                    let lib = graph.get_symbolic_fn_update(var).eval_in(&v);
                    if lib != spec.update(i, s, &interp) {
                        return Err(BindError::Mismatch(format!(
                            "update of {} in state {s} differs for colour {} on {aeon:?}",
                            spec.vars[i],
                            interp.describe(spec)
                        )));
                    }
                }
            }
            cols.push(ts);
            col_vals.push(val);
        }
        if cols.is_empty() {
            return Err(BindError::Rejected("no valid colour".into()));
        }
        let b = Bound {
            name: name.to_string(),
            spec: spec.clone(),
            aeon,
            bn,
            k,
            graph,
            n,
            cols,
            col_vals,
            invalid_valuations: invalid,
        };
        if check_witness {
            b.check_witnesses().map_err(BindError::Mismatch)?;
        }
        Ok(b)
    }

    /// binding check 3: the witness network of every valid colour has exactly the transition
    /// system the independent semantics computed.
    pub fn check_witnesses(&self) -> Result<(), String> {
        for ci in 0..self.cols.len() {
            let w = self.witness(ci);
            let g = SymbolicAsyncGraph::new(&w).map_err(|e| format!("witness graph: {e}"))?;
            let ctx = g.symbolic_context();
            if ctx.num_parameter_variables() != 0 {
                return Err("witness network still has parameters".into());
            }
            for s in 0..(1usize << self.n) {
                let mut v = BddValuation::all_false(ctx.bdd_variable_set().num_vars());
                for (i, sv) in ctx.state_variables().iter().enumerate() {
                    v.set_value(*sv, s >> i & 1 == 1);
                }
                let mut succ = vec![];
                for (i, var) in g.variables().enumerate() {
                    if g.get_symbolic_fn_update(var).eval_in(&v) != (s >> i & 1 == 1) {
                        succ.push(s ^ (1 << i));
                    }
                }
                if succ.is_empty() {
                    succ.push(s);
                }
                if succ != self.cols[ci].succ[s] {
                    return Err(format!(
                        "witness transition system differs in state {s} for colour {} of {:?}",
                        self.cols[ci].interp.describe(&self.spec),
                        self.aeon
                    ));
                }
            }
        }
        Ok(())
    }

    /// The fully specified network obtained by instantiating colour `ci` (via the library).
    pub fn witness(&self, ci: usize) -> BooleanNetwork {
        let c = self.colour_singleton(ci);
        self.graph.pick_witness(&c.colors())
    }

    pub fn n_states(&self) -> usize {
        1 << self.n
    }
    pub fn total_states(&self) -> usize {
        self.cols.len() * self.n_states()
    }
    pub fn total_edges(&self) -> usize {
        self.cols.iter().map(|c| c.n_edges).sum()
    }

    /// Full valuation (extras = false) of (colour, state) for `graph` (must share the context shape).
    pub fn valuation(&self, ci: usize, s: usize) -> BddValuation {
        let ctx = self.graph.symbolic_context();
        let mut v = BddValuation::all_false(ctx.bdd_variable_set().num_vars());
        for (bv, b) in &self.col_vals[ci] {
            v.set_value(*bv, *b);
        }
        for (i, sv) in ctx.state_variables().iter().enumerate() {
            v.set_value(*sv, s >> i & 1 == 1);
        }
        v
    }

    /// Read a symbolic set point-wise on (valid colour, state), auxiliary variables set to 0.
    pub fn masks_of(&self, set: &GraphColoredVertices) -> Vec<Mask> {
        self.masks_of_bdd(set.as_bdd())
    }
    pub fn masks_of_bdd(&self, bdd: &Bdd) -> Vec<Mask> {
        let mut out = Vec::with_capacity(self.cols.len());
        for ci in 0..self.cols.len() {
            let mut m: Mask = 0;
            let mut v = self.valuation(ci, 0);
            let ctx = self.graph.symbolic_context();
            for s in 0..self.n_states() {
                for (i, sv) in ctx.state_variables().iter().enumerate() {
                    v.set_value(*sv, s >> i & 1 == 1);
                }
                if bdd.eval_in(&v) {
                    m |= 1 << s;
                }
            }
            out.push(m);
        }
        out
    }

    /// Symbolic set containing exactly the (state, colour) pairs of `masks` (valid colours only).
    pub fn mk_set(&self, masks: &[Mask]) -> GraphColoredVertices {
        self.mk_set_in(&self.graph, masks)
    }
    pub fn mk_set_in(&self, graph: &SymbolicAsyncGraph, masks: &[Mask]) -> GraphColoredVertices {
        let ctx = graph.symbolic_context();
        let vs = ctx.bdd_variable_set();
        let mut bdd = vs.mk_false();
        for ci in 0..self.cols.len() {
            if masks[ci] == 0 {
                continue;
            }
            let mut colour = BddPartialValuation::empty();
            // parameter variables may have different indices in a different context: map by name
            for (bv, b) in &self.col_vals[ci] {
                let name = self.graph.symbolic_context().bdd_variable_set().name_of(*bv);
                let nv = vs.var_by_name(&name).expect("parameter variable missing in other context");
                colour.set_value(nv, *b);
            }
            let cb = vs.mk_conjunctive_clause(&colour);
            let mut sb = vs.mk_false();
            for s in 0..self.n_states() {
                if masks[ci] >> s & 1 == 1 {
                    let mut pv = BddPartialValuation::empty();
                    for (i, sv) in ctx.state_variables().iter().enumerate() {
                        pv.set_value(*sv, s >> i & 1 == 1);
                    }
                    sb = sb.or(&vs.mk_conjunctive_clause(&pv));
                }
            }
            bdd = bdd.or(&cb.and(&sb));
        }
        GraphColoredVertices::new(bdd, ctx)
    }

    /// The same network on a graph whose unit set is restricted to the colours `keep`
    /// (all vertices of those colours); the explicit semantics is restricted accordingly.
    pub fn restrict_colours(&self, keep: &[usize]) -> Bound {
        let mut masks = vec![0; self.cols.len()];
        for &c in keep {
            masks[c] = full_mask(self.n);
        }
        let sub = self.mk_set(&masks);
        let graph = self.graph.restrict(&sub);
        Bound {
            name: format!("{}|colours{:?}", self.name, keep),
            spec: self.spec.clone(),
            aeon: self.aeon.clone(),
            bn: self.bn.clone(),
            k: self.k,
            graph,
            n: self.n,
            cols: keep.iter().map(|c| self.cols[*c].clone()).collect(),
            col_vals: keep.iter().map(|c| self.col_vals[*c].clone()).collect(),
            invalid_valuations: self.invalid_valuations + self.cols.len() - keep.len(),
        }
    }

    /// The same binding with another graph object over the same symbolic context (e.g. a graph perturbed by the library);
    /// the explicit semantics is NOT adjusted, so only differential checks may use it.
    pub fn with_graph(&self, name: &str, graph: SymbolicAsyncGraph) -> Bound {
        Bound { name: name.to_string(), spec: self.spec.clone(), aeon: self.aeon.clone(), bn: self.bn.clone(), k: self.k, graph, n: self.n, cols: self.cols.clone(), col_vals: self.col_vals.clone(), invalid_valuations: self.invalid_valuations }
    }

    pub fn colour_singleton(&self, ci: usize) -> GraphColoredVertices {
        let mut masks = vec![0; self.cols.len()];
        masks[ci] = full_mask(self.n);
        self.mk_set(&masks)
    }

    /// Does `set` contain any (state, colour, extras) point outside the graph's unit set?
    pub fn outside_unit(&self, set: &GraphColoredVertices) -> bool {
        !set.as_bdd().and_not(self.graph.unit_colored_vertices().as_bdd()).is_false()
    }

    /// Does the BDD of `set` depend on any auxiliary (extra) variable?
    pub fn depends_on_extras(&self, set: &GraphColoredVertices) -> bool {
        let extras = self.graph.symbolic_context().all_extra_state_variables();
        set.as_bdd().support_set().iter().any(|v| extras.contains(v))
    }

    /// A graph for the same network with a different number of spare variable sets.
    pub fn graph_with_k(&self, k: u16) -> SymbolicAsyncGraph {
        get_extended_symbolic_graph(&self.bn, k).unwrap()
    }

    pub fn describe_masks(&self, masks: &[Mask]) -> String {
        masks
            .iter()
            .enumerate()
            .map(|(ci, m)| format!("{}:{:0w$b}", self.cols[ci].interp.describe(&self.spec), m, w = self.n_states()))
            .collect::<Vec<_>>()
            .join(" ")
    }
}
