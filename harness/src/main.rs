//! Verification harness for biodivine-hctl-model-checker (bounded-exhaustive model checking).
//! usage: harness <ID> <quick|thorough>   |   harness <ID> --replay <file>

mod bigmodels;
mod bridge;
mod cachemc;
mod cli;
mod formulas;
mod history;
mod jobs;
mod nets;
mod oracle;
mod refparser;
mod props;
mod report;
mod sem;
mod style;
mod sweep;
mod trees;
mod triggers;

use serde_json::Value;

fn replayer_for(id: &str) -> fn(&Value) -> Option<String> {
    match id {
        "C01" | "C02" | "C03" | "C13" => generic_replay,
        _ => generic_replay,
    }
}

/// Replays are dispatched on the `kind` of the recorded case.
pub fn generic_replay(case: &Value) -> Option<String> {
    match case.get("kind").and_then(|k| k.as_str()) {
        Some("sem") => sem::replay(case),
        Some("history") => history::replay(case),
        Some("parse") => props::c05::replay(case),
        Some("tree") => props::c06::replay(case),
        Some("prep") => props::c07::replay(case),
        Some("c01chains") => { let v = props::c01::job_chains(case); v["problems"].as_array().and_then(|a| a.first()).map(|p| p["what"].as_str().unwrap_or("").to_string()) }
        Some("c01big") => props::c01::replay_big(case),
        Some("c02big") => props::c02::replay_big(case),
        Some("c13big") => props::c13::replay_big(case),
        Some("c12big") => { let v = props::c12::job(case); if let Some(e) = v.get("error") { Some(format!("job error: {e}")) } else { v["problems"].as_array().and_then(|a| a.first()).map(|p| p.as_str().unwrap_or("").to_string()) } }
        Some("prep_tree") => props::c07::replay_tree(case),
        Some("reject") => props::c14::replay(case),
        Some("cache") => props::c04::replay(case),
        Some("canon") => props::c09::replay(case),
        Some("rewrite") => props::c08::replay(case),
        Some("subst") => props::c10::replay(case),
        Some("law") => props::c11::replay(case),
        Some("archive") => props::c16::replay(case),
        Some("cli") => props::c17::replay(case),
        Some("convert") => props::c19::replay(case),
        Some("sanitize") | Some("sanitize_history") | Some("c15big") => props::c15::replay(case),
        Some("unsafe_ex") | Some("unsafe_ex_history") => props::c18::replay(case),
        Some("colour") | Some("colour_ext") | Some("c20big") => props::c20::replay(case),
        other => Some(format!("unknown replay kind {other:?}")),
    }
}

fn main() {
    let args: Vec<String> = std::env::args().collect();
    if args.len() < 3 {
        eprintln!("usage: harness <ID> <quick|thorough> | harness <ID> --replay <file>");
        std::process::exit(2);
    }
    let id = args[1].to_uppercase();
    report::quiet_panics();
    if args[2] == "--replay" {
        let body: Value = serde_json::from_str(&std::fs::read_to_string(&args[3]).expect("cannot read replay file")).expect("bad replay file");
        let case = body.get("case").cloned().unwrap_or(body.clone());
        match generic_replay(&case) {
            Some(what) => {
                println!("VIOLATION property={} replay={}", id, args[3]);
                println!("  what: {what}");
                std::process::exit(1);
            }
            None => {
                println!("replay of {} passes on the current tree", args[3]);
                std::process::exit(0);
            }
        }
    }
    if id == "JOB" {
        let job: Value = serde_json::from_str(&args[2]).expect("bad job");
        println!("{}", jobs::child_main(&job));
        return;
    }
    if id == "DBG17" {
        use biodivine_hctl_model_checker::model_checking as mc;
        let nets = props::common::core_nets(1).unwrap();
        let b = props::common::by_name(&nets, &args[2]);
        let fams = sweep::label_families(&b, 4);
        let ctx = sweep::NetCtx::new(b.clone(), fams[0].1.clone(), "mixed");
        let mut sets = std::collections::HashMap::new();
        sets.insert("p".to_string(), ctx.sets["p"].clone());
        sets.insert("d".to_string(), ctx.sets["d"].clone());
        sets.insert("dom_1".to_string(), ctx.sets["e"].clone());
        let fs = vec!["3{x} in %dom_1%: @{x}: EG %p%", "%p%", "V{x} in %d%: @{x}: AX {x}"];
        let batch = mc::model_check_multiple_extended_formulae_dirty(fs.clone(), &b.graph, &sets).unwrap();
        for (i, f) in fs.iter().enumerate() {
            let solo = mc::model_check_extended_formula_dirty(f, &b.graph, &sets).unwrap();
            println!("{f}: equal={} solo masks {:?} batch masks {:?} solo⊆unit {} batch⊆unit {} batch extras {} solo extras {}", solo.as_bdd() == batch[i].as_bdd(), b.masks_of(&solo), b.masks_of(&batch[i]), !b.outside_unit(&solo), !b.outside_unit(&batch[i]), b.depends_on_extras(&batch[i]), b.depends_on_extras(&solo));
        }
        println!("labels: p={:?} d={:?} dom_1={:?}", fams[0].1.wild[0], fams[0].1.dom[0], fams[0].1.dom[1]);
        return;
    }
    if id == "EGTEST" {
        let k: u16 = args[3].parse().unwrap();
        let big = bigmodels::load(&args[2], k).expect("load");
        let names = formulas::Names::user(&big.var_names());
        let cube = names.props.join(" & ");
        for t in [format!("~({cube})"), format!("EX ~({cube})"), format!("EG ~({cube})")] {
            let t0 = std::time::Instant::now();
            let r = biodivine_hctl_model_checker::model_checking::model_check_formula_dirty(&t, &big.graph).unwrap();
            eprintln!("{} -> nodes {} in {:?}", &t[..12], r.as_bdd().size(), t0.elapsed());
            if t.starts_with("EG") {
                use biodivine_lib_param_bn::biodivine_std::traits::Set;
                let nc = biodivine_hctl_model_checker::model_checking::model_check_formula_dirty(&format!("~({cube})"), &big.graph).unwrap();
                let diff = nc.minus(&r);
                eprintln!("(~cube) minus EG: {} pairs, {} colours; aeon head: {}", diff.approx_cardinality(), diff.colors().approx_cardinality(), big.bn.to_string().lines().filter(|l| l.contains("c3")).collect::<Vec<_>>().join(" ; "));
            }
        }
        return;
    }
    if id == "LOADTEST" {
        let n: usize = args[2].parse().unwrap();
        let name = |i: usize| format!("x{i:02}");
        let mut s = format!("{} -> {}\n${}: {}\n", name(0), name(0), name(0), name(0));
        for i in 1..n { s.push_str(&format!("{} -> {}\n${}: {}\n", name(i - 1), name(i), name(i), name(i - 1))); }
        let t0 = std::time::Instant::now();
        let bn = biodivine_lib_param_bn::BooleanNetwork::try_from(s.as_str()).unwrap();
        eprintln!("parsed {:?}", t0.elapsed());
        let ctx = biodivine_lib_param_bn::symbolic_async_graph::SymbolicContext::new(&bn).unwrap();
        eprintln!("context {:?}", t0.elapsed());
        let g = biodivine_lib_param_bn::symbolic_async_graph::SymbolicAsyncGraph::new(&bn).unwrap();
        eprintln!("plain graph {:?} {}", t0.elapsed(), g.num_vars());
        let g = biodivine_hctl_model_checker::mc_utils::get_extended_symbolic_graph(&bn, 1).unwrap();
        eprintln!("extended graph {:?} {}", t0.elapsed(), g.num_vars());
        let _ = ctx;
        return;
    }
    if id == "FAMILY" {
        let t0 = std::time::Instant::now();
        let big = bigmodels::load(&args[2], 1).expect("load");
        println!("loaded {:?}", t0.elapsed());
        let ss = biodivine_hctl_model_checker::evaluation::algorithm::compute_steady_states(&big.graph);
        println!("steady {:?} {}", t0.elapsed(), ss.approx_cardinality());
        let fam = props::c11::argument_family_mode(&big.graph, args[2].starts_with("synthetic:"));
        println!("family {} in {:?}", fam.len(), t0.elapsed());
        let all = props::c11::laws();
        for li in [0usize, 1, 2, 4, 12, 19, 20] {
            for pi in 0..fam.len() {
                let t1 = std::time::Instant::now();
                let r = props::c11::check_law(&all[li], &big.graph, &fam[pi].1, Some(&fam[3].1), Some(&fam[5].1));
                println!("law {} p={} -> {:?} in {:?}", all[li].name, fam[pi].0, r, t1.elapsed());
            }
        }
        return;
    }
    if id == "MODELS" {
        use std::io::Write;
        let big = bigmodels::load(&args[2], 3).expect("load");
        println!("{}: vars={} colours={}", big.name, big.graph.num_vars(), big.colours());
        let names = formulas::Names::user(&big.var_names());
        let v0 = &names.props[0];
        let v1 = &names.props[names.props.len() / 2];
        for t in [
            "!{x}: AG EF {x}".to_string(),
            "!{x}: AX {x}".to_string(),
            format!("(!{{x}}: AX {{x}}) & EF ({v0} & ~{v1})"),
            format!("3{{x}}: @{{x}}: ((!{{y}}: AX {{y}}) & {v0}) & EF (AG {v1})"),
            "AF (!{x}: (AX (~{x} & AF {x})))".to_string(),
            "!{x}: 3{y}: ((@{x}: ~{y} & AX {x}) & (@{y}: AX {y}))".to_string(),
            format!("EF (!{{x}}: AX {{x}}) | AG (EF {v0} => EX {v1})"),
            "3{x}: 3{y}: (@{x}: ~{y} & (!{z}: AX {z})) & (@{y}: (!{z}: AX {z}))".to_string(),
            format!("AG ((!{{x}}: AX (~{{x}} & AF {{x}})) | ~{v0}) & ({v1} EU (!{{y}}: AG EF {{y}}))"),
        ] {
            print!("  {t} ... ");
            std::io::stdout().flush().unwrap();
            let t0 = std::time::Instant::now();
            let r = biodivine_hctl_model_checker::model_checking::model_check_formula_dirty(&t, &big.graph).unwrap();
            println!("{:.2}s card={}", t0.elapsed().as_secs_f64(), r.approx_cardinality());
        }
        return;
    }
    if id == "ALL2" {
        let t0 = std::time::Instant::now();
        let (nets, info) = props::common::all2_nets(3, args.get(2).and_then(|s| s.parse().ok())).expect("all2");
        println!("{info} in {:?}; colour counts: {:?}", t0.elapsed(), { let mut m = std::collections::BTreeMap::new(); for b in &nets { *m.entry(b.cols.len()).or_insert(0) += 1; } m });
        return;
    }
    if id == "NETS" {
        for (name, spec) in nets::core_family() {
            match bridge::Bound::new(name, &spec, 2) {
                Ok(b) => println!("{name}: n={} colours={} invalid={} steady/colour={:?} edges={}  [{}]", b.n, b.cols.len(), b.invalid_valuations,
                    b.cols.iter().map(|c| c.steady.iter().filter(|x| **x).count()).collect::<Vec<_>>(), b.total_edges(), b.aeon.replace('\n', "; ")),
                Err(e) => println!("{name}: {e:?}"),
            }
        }
        return;
    }
    let tier = args[2].as_str();
    if tier != "quick" && tier != "thorough" {
        eprintln!("tier must be quick or thorough");
        std::process::exit(2);
    }
    if (id == "C17" || id == "C19") && std::env::var("VERIF_VIA_CHECK").is_err() {
        eprintln!("MACHINERY: {id} drives the repository's binaries, which only ./check rebuilds from the working tree; run ./check {id} {tier}");
        std::process::exit(2);
    }
    let rep = match id.as_str() {
        "C01" => props::c01::run(tier),
        "C02" => props::c02::run(tier),
        "C03" => props::c03::run(tier),
        "C04" => props::c04::run(tier),
        "C05" => props::c05::run(tier),
        "C06" => props::c06::run(tier),
        "C07" => props::c07::run(tier),
        "C08" => props::c08::run(tier),
        "C09" => props::c09::run(tier),
        "C10" => props::c10::run(tier),
        "C11" => props::c11::run(tier),
        "C12" => props::c12::run(tier),
        "C15" => props::c15::run(tier),
        "C16" => props::c16::run(tier),
        "C17" => props::c17::run(tier),
        "C18" => props::c18::run(tier),
        "C19" => props::c19::run(tier),
        "C20" => props::c20::run(tier),
        "C13" => props::c13::run(tier),
        "C14" => props::c14::run(tier),
        _ => {
            eprintln!("unknown property {id}");
            std::process::exit(2);
        }
    };
    let rep = match rep {
        Ok(r) => r,
        Err(e) => {
            eprintln!("MACHINERY FAILURE in {id}: {e}");
            std::process::exit(2);
        }
    };
    let code = report::finish(rep, &replayer_for(&id));
    std::process::exit(code);
}
