//! State-space exploration of the evaluation cache (DESIGN §3 C04), built on `stateright`.
//! A state is the *real* `EvalContext` after a sequence of calls of the *real* `eval_node` on the
//! formulae of a batch; transitions evaluate any not-yet-evaluated position next. States are
//! de-duplicated by a canonical digest of the context object. Violations are collected by the
//! model itself (stateright would stop at the first discovery per property).

use crate::bridge::Mask;
use crate::formulas::F;
use crate::report::guarded;
use crate::sweep::NetCtx;
use biodivine_hctl_model_checker::evaluation::algorithm::{compute_steady_states, eval_node};
use biodivine_hctl_model_checker::evaluation::eval_context::EvalContext;
use biodivine_hctl_model_checker::evaluation::VarDomainMap;
use biodivine_hctl_model_checker::model_checking as mc;
use biodivine_hctl_model_checker::preprocessing::hctl_tree::{HctlTreeNode, NodeType};
use biodivine_hctl_model_checker::preprocessing::operator_enums::Atomic;
use biodivine_lib_param_bn::symbolic_async_graph::GraphColoredVertices;
use sha2::{Digest, Sha256};
use stateright::{Checker, Model, Property};
use std::collections::{BTreeMap, HashMap, HashSet};
use std::hash::{Hash, Hasher};
use std::panic::AssertUnwindSafe;
use std::sync::atomic::{AtomicU64, Ordering};
use std::sync::{Arc, Mutex};

pub fn digest(c: &EvalContext) -> u64 {
    let mut d: Vec<String> = c.duplicates.iter().map(|(k, v)| format!("D{:?}={}", k, v)).collect();
    d.extend(c.cache.iter().map(|(k, (s, r))| {
        let mut r: Vec<_> = r.iter().collect();
        r.sort();
        format!("C{:?}={}|{:?}", k, s.as_bdd(), r)
    }));
    d.extend(c.free_var_domains.iter().map(|(k, v)| format!("F{k}={v:?}")));
    d.sort();
    let h = Sha256::digest(d.join(";").as_bytes());
    u64::from_le_bytes(h[..8].try_into().unwrap())
}

fn count_wild(t: &HctlTreeNode, out: &mut BTreeMap<String, i32>) {
    match &t.node_type {
        NodeType::Terminal(Atomic::WildCardProp(w)) => *out.entry(w.clone()).or_insert(0) += 1,
        NodeType::Terminal(_) => {}
        NodeType::Unary(_, c) | NodeType::Hybrid(_, _, _, c) => count_wild(c, out),
        NodeType::Binary(_, l, r) => {
            count_wild(l, out);
            count_wild(r, out)
        }
    }
}

pub struct Entry {
    pub f: F,
    pub text: String,
    pub tree: HctlTreeNode,
    /// result of evaluating the formula alone (with the library's own sharing inside it)
    pub alone: Result<GraphColoredVertices, String>,
    /// result with sharing disabled (only wild-card terminals are in the cache)
    pub unshared: Result<GraphColoredVertices, String>,
    pub expected: Vec<Mask>,
}

pub struct Env {
    pub ctx: Arc<NetCtx>,
    pub entries: Vec<Entry>,
    pub steady: GraphColoredVertices,
    pub props_ctx: HashMap<String, GraphColoredVertices>,
    pub doms_ctx: HashMap<String, GraphColoredVertices>,
    pub violations: Mutex<Vec<(Vec<usize>, Vec<usize>, String)>>, // (batch as alphabet indices, order of positions, what)
    pub transitions: AtomicU64,
    pub digests: Mutex<HashSet<u64>>,
    pub complete_orders: AtomicU64,
    pub stale_free_var_domains: AtomicU64,
    pub leftover_cache_entries: AtomicU64,
}

impl Env {
    pub fn new(ctx: Arc<NetCtx>, formulas: &[F]) -> Env {
        let steady = compute_steady_states(&ctx.b.graph);
        let mut props_ctx = HashMap::new();
        let mut doms_ctx = HashMap::new();
        for w in &ctx.user.wilds {
            if let Some(s) = ctx.sets.get(w) {
                props_ctx.insert(w.clone(), s.clone());
            }
        }
        for d in &ctx.user.doms {
            if let Some(s) = ctx.sets.get(d) {
                doms_ctx.insert(d.clone(), s.clone());
            }
        }
        let mut env = Env {
            ctx: ctx.clone(),
            entries: vec![],
            steady,
            props_ctx,
            doms_ctx,
            violations: Mutex::new(vec![]),
            transitions: AtomicU64::new(0),
            digests: Mutex::new(HashSet::new()),
            complete_orders: AtomicU64::new(0),
            stale_free_var_domains: AtomicU64::new(0),
            leftover_cache_entries: AtomicU64::new(0),
        };
        for f in formulas {
            let tree = f.to_tree(&ctx.mini);
            let text = f.show(&ctx.user);
            let alone = env.eval_alone(&tree);
            let unshared = env.eval_unshared(&tree);
            let expected = ctx.expected(f);
            env.entries.push(Entry { f: f.clone(), text, tree, alone, unshared, expected });
        }
        env
    }

    /// the wild-card / domain context restricted to the labels the trees use (as the entry points do)
    fn used_context(&self, trees: &[HctlTreeNode]) -> (HashMap<String, GraphColoredVertices>, HashMap<String, GraphColoredVertices>) {
        let mut p = HashMap::new();
        let mut d = HashMap::new();
        for t in trees {
            let (ws, ds) = biodivine_hctl_model_checker::mc_utils::collect_unique_wild_cards(t.clone());
            for w in ws {
                p.insert(w.clone(), self.props_ctx[&w].clone());
            }
            for x in ds {
                d.insert(x.clone(), self.doms_ctx[&x].clone());
            }
        }
        (p, d)
    }

    /// context exactly as `_model_check_multiple_extended_formulae_dirty` prepares it
    pub fn batch_context(&self, trees: &Vec<HctlTreeNode>) -> EvalContext {
        let mut c = EvalContext::from_multiple_trees(trees);
        let (p, d) = self.used_context(trees);
        c.extend_context_with_wild_cards(&p, &d);
        c
    }

    fn eval_alone(&self, tree: &HctlTreeNode) -> Result<GraphColoredVertices, String> {
        let mut c = self.batch_context(&vec![tree.clone()]);
        guarded(AssertUnwindSafe(|| eval_node(tree.clone(), &self.ctx.b.graph, &mut c, &self.steady, &mut |_, _| {})))
    }

    /// Sharing disabled: no sub-formula is marked as duplicate; wild-card terminals (which are
    /// only ever served from the cache) get a counter equal to their number of occurrences.
    fn eval_unshared(&self, tree: &HctlTreeNode) -> Result<GraphColoredVertices, String> {
        let mut counts = BTreeMap::new();
        count_wild(tree, &mut counts);
        let mut dup = HashMap::new();
        for (w, n) in &counts {
            if *n > 1 {
                dup.insert((format!("%{w}%"), VarDomainMap::new()), n - 1);
            }
        }
        let mut c = EvalContext::new(dup);
        let (p, d) = self.used_context(&[tree.clone()]);
        c.extend_context_with_wild_cards(&p, &d);
        guarded(AssertUnwindSafe(|| eval_node(tree.clone(), &self.ctx.b.graph, &mut c, &self.steady, &mut |_, _| {})))
    }

    pub fn check_entry_points_pub(&self, list: &[usize], order: &[usize]) {
        self.check_entry_points(list, order, &[]);
    }

    fn violation(&self, batch: &[usize], order: &[usize], what: String) {
        let mut v = self.violations.lock().unwrap();
        if v.len() < 5000 {
            v.push((batch.to_vec(), order.to_vec(), what));
        }
    }

    /// Compare one result with the three references. Returns a description of the first difference.
    pub fn judge(&self, idx: usize, got: &GraphColoredVertices) -> Option<String> {
        let e = &self.entries[idx];
        match &e.alone {
            Ok(a) if a == got => {}
            Ok(_) => return Some(format!("result for `{}` differs from the result of evaluating it alone", e.text)),
            Err(p) => return Some(format!("evaluating `{}` alone panics: {p}", e.text)),
        }
        match &e.unshared {
            Ok(a) if a == got => {}
            Ok(_) => return Some(format!("result for `{}` differs from the result with sharing disabled", e.text)),
            Err(p) => return Some(format!("evaluating `{}` with sharing disabled panics: {p}", e.text)),
        }
        if let Some(d) = self.ctx.diff_dirty(got, &e.expected) {
            return Some(format!("result for `{}` differs from explicit-state semantics: {d}", e.text));
        }
        None
    }

    /// Conformance of the driver with the public entry points for one complete order, and the
    /// entry points' own results against the references (run twice, with and without observer).
    fn check_entry_points(&self, batch: &[usize], order: &[usize], driver_results: &[GraphColoredVertices]) {
        let list: Vec<usize> = order.iter().map(|p| batch[*p]).collect();
        let texts: Vec<&str> = list.iter().map(|i| self.entries[*i].text.as_str()).collect();
        let g = &self.ctx.b.graph;
        let sets = &self.ctx.sets;
        let mut cb_calls = 0u64;
        let runs: Vec<(&str, Result<Result<Vec<GraphColoredVertices>, String>, String>)> = vec![
            ("model_check_multiple_extended_formulae_dirty", guarded(AssertUnwindSafe(|| mc::model_check_multiple_extended_formulae_dirty(texts.clone(), g, sets)))),
            ("model_check_multiple_extended_formulae_dirty (2nd run)", guarded(AssertUnwindSafe(|| mc::model_check_multiple_extended_formulae_dirty(texts.clone(), g, sets)))),
            (
                "_model_check_multiple_extended_formulae_dirty (observer)",
                guarded(AssertUnwindSafe(|| mc::_model_check_multiple_extended_formulae_dirty(texts.clone(), g, sets, &mut |_, _| cb_calls += 1))),
            ),
        ];
        for (name, r) in runs {
            match r {
                Err(p) => self.violation(batch, order, format!("{name} panics on {texts:?}: {p}")),
                Ok(Err(e)) => self.violation(batch, order, format!("{name} returns Err on {texts:?}: {e}")),
                Ok(Ok(rs)) => {
                    if rs.len() != list.len() {
                        self.violation(batch, order, format!("{name} returns {} results for {} formulae", rs.len(), list.len()));
                        continue;
                    }
                    for (i, r) in rs.iter().enumerate() {
                        if let Some(w) = self.judge(list[i], r) {
                            self.violation(batch, order, format!("{name} on {texts:?}, position {i}: {w}"));
                        }
                        if i < driver_results.len() && r != &driver_results[i] {
                            self.violation(batch, order, format!("{name} on {texts:?}, position {i}: differs from eval_node driven step by step"));
                        }
                    }
                }
            }
        }
        // the sanitising variant
        match guarded(AssertUnwindSafe(|| mc::model_check_multiple_extended_formulae(texts.clone(), g, sets))) {
            Err(p) => self.violation(batch, order, format!("model_check_multiple_extended_formulae panics on {texts:?}: {p}")),
            Ok(Err(e)) => self.violation(batch, order, format!("model_check_multiple_extended_formulae returns Err on {texts:?}: {e}")),
            Ok(Ok(rs)) => {
                for (i, r) in rs.iter().enumerate() {
                    if let Some(d) = self.ctx.diff_canonical(r, &self.entries[list[i]].expected) {
                        self.violation(batch, order, format!("model_check_multiple_extended_formulae on {texts:?}, position {i}: {d}"));
                    }
                }
            }
        }
        // plain entry points when the batch is plain
        if list.iter().all(|i| !self.entries[*i].f.uses_wild_or_dom()) {
            let trees: Vec<HctlTreeNode> = list.iter().map(|i| self.entries[*i].tree.clone()).collect();
            for (name, r) in [
                ("model_check_multiple_formulae", guarded(AssertUnwindSafe(|| mc::model_check_multiple_formulae(texts.clone(), g)))),
                ("model_check_multiple_trees", guarded(AssertUnwindSafe(|| mc::model_check_multiple_trees(trees.clone(), g)))),
            ] {
                match r {
                    Ok(Ok(rs)) => {
                        for (i, r) in rs.iter().enumerate() {
                            if let Some(d) = self.ctx.diff_canonical(r, &self.entries[list[i]].expected) {
                                self.violation(batch, order, format!("{name} on {texts:?}, position {i}: {d}"));
                            }
                        }
                    }
                    Ok(Err(e)) => self.violation(batch, order, format!("{name} returns Err on {texts:?}: {e}")),
                    Err(p) => self.violation(batch, order, format!("{name} panics on {texts:?}: {p}")),
                }
            }
            match guarded(AssertUnwindSafe(|| mc::model_check_multiple_trees_dirty(trees.clone(), g))) {
                Ok(Ok(rs)) => {
                    for (i, r) in rs.iter().enumerate() {
                        if let Some(w) = self.judge(list[i], r) {
                            self.violation(batch, order, format!("model_check_multiple_trees_dirty on {texts:?}, position {i}: {w}"));
                        }
                    }
                }
                Ok(Err(e)) => self.violation(batch, order, format!("model_check_multiple_trees_dirty returns Err on {texts:?}: {e}")),
                Err(p) => self.violation(batch, order, format!("model_check_multiple_trees_dirty panics on {texts:?}: {p}")),
            }
            match guarded(AssertUnwindSafe(|| mc::model_check_multiple_formulae_dirty(texts.clone(), g))) {
                Ok(Ok(rs)) => {
                    for (i, r) in rs.iter().enumerate() {
                        if let Some(w) = self.judge(list[i], r) {
                            self.violation(batch, order, format!("model_check_multiple_formulae_dirty on {texts:?}, position {i}: {w}"));
                        }
                    }
                }
                Ok(Err(e)) => self.violation(batch, order, format!("model_check_multiple_formulae_dirty returns Err on {texts:?}: {e}")),
                Err(p) => self.violation(batch, order, format!("model_check_multiple_formulae_dirty panics on {texts:?}: {p}")),
            }
        }
        self.complete_orders.fetch_add(1, Ordering::Relaxed);
    }
}

#[derive(Clone, Debug)]
pub struct St {
    pub batch: Arc<Vec<usize>>,
    /// positions in evaluation order
    pub done: Vec<usize>,
    pub ctx: Arc<EvalContext>,
    pub results: Arc<Vec<GraphColoredVertices>>,
    pub digest: u64,
    pub ok: bool,
}
impl PartialEq for St {
    fn eq(&self, o: &Self) -> bool {
        // histories that evaluated the same positions (in any order) and reached the same context are merged
        let mut a = self.done.clone();
        let mut b = o.done.clone();
        a.sort();
        b.sort();
        self.batch == o.batch && a == b && self.digest == o.digest && self.ok == o.ok
    }
}
impl Eq for St {}
impl Hash for St {
    fn hash<H: Hasher>(&self, h: &mut H) {
        self.batch.hash(h);
        let mut a = self.done.clone();
        a.sort();
        a.hash(h);
        self.digest.hash(h);
        self.ok.hash(h);
    }
}

pub struct CacheModel {
    pub env: Arc<Env>,
    pub batches: Vec<Vec<usize>>,
}

impl Model for CacheModel {
    type State = St;
    type Action = usize;

    fn init_states(&self) -> Vec<St> {
        let mut out = vec![];
        for b in &self.batches {
            let trees: Vec<HctlTreeNode> = b.iter().map(|i| self.env.entries[*i].tree.clone()).collect();
            let c = self.env.batch_context(&trees);
            let d = digest(&c);
            self.env.digests.lock().unwrap().insert(d);
            out.push(St { batch: Arc::new(b.clone()), done: vec![], ctx: Arc::new(c), results: Arc::new(vec![]), digest: d, ok: true });
        }
        out
    }

    fn actions(&self, s: &St, acts: &mut Vec<usize>) {
        if !s.ok {
            return;
        }
        // positions holding the same formula are interchangeable: offer only the first remaining one
        let mut seen = vec![];
        for pos in 0..s.batch.len() {
            if !s.done.contains(&pos) && !seen.contains(&s.batch[pos]) {
                seen.push(s.batch[pos]);
                acts.push(pos);
            }
        }
    }

    fn next_state(&self, s: &St, pos: usize) -> Option<St> {
        let env = &self.env;
        env.transitions.fetch_add(1, Ordering::Relaxed);
        let mut c = (*s.ctx).clone();
        let idx = s.batch[pos];
        let tree = env.entries[idx].tree.clone();
        let mut done = s.done.clone();
        done.push(pos);
        let r = guarded(AssertUnwindSafe(|| eval_node(tree, &env.ctx.b.graph, &mut c, &env.steady, &mut |_, _| {})));
        let mut results = (*s.results).clone();
        let ok = match r {
            Ok(r) => {
                if let Some(w) = env.judge(idx, &r) {
                    env.violation(&s.batch, &done, format!("eval_node history: {w}"));
                }
                results.push(r);
                true
            }
            Err(p) => {
                env.violation(&s.batch, &done, format!("eval_node panics on `{}` after this history: {p}", env.entries[idx].text));
                false
            }
        };
        if ok && !c.free_var_domains.is_empty() {
            env.stale_free_var_domains.fetch_add(1, Ordering::Relaxed);
        }
        let d = digest(&c);
        env.digests.lock().unwrap().insert(d);
        if ok && done.len() == s.batch.len() {
            env.leftover_cache_entries.fetch_add(c.cache.len() as u64, Ordering::Relaxed);
            env.check_entry_points(&s.batch, &done, &results);
        }
        Some(St { batch: s.batch.clone(), done, ctx: Arc::new(c), results: Arc::new(results), digest: d, ok })
    }

    fn properties(&self) -> Vec<Property<Self>> {
        // never falsified on purpose: violations are collected in `env.violations` so that the
        // whole bounded space is always explored (needed to tell known findings from new ones)
        vec![Property::always("exploration placeholder", |_, _| true)]
    }
}

/// All multisets (sorted index vectors) of size 1..=max_len over `n` symbols.
pub fn multisets(n: usize, max_len: usize) -> Vec<Vec<usize>> {
    fn rec(n: usize, start: usize, left: usize, cur: &mut Vec<usize>, out: &mut Vec<Vec<usize>>) {
        if !cur.is_empty() {
            out.push(cur.clone());
        }
        if left == 0 {
            return;
        }
        for i in start..n {
            cur.push(i);
            rec(n, i, left - 1, cur, out);
            cur.pop();
        }
    }
    let mut out = vec![];
    rec(n, 0, max_len, &mut vec![], &mut out);
    out
}

pub struct McStats {
    pub unique_states: usize,
    pub max_depth: usize,
    pub transitions: u64,
    pub digests: usize,
    pub complete_orders: u64,
    pub init_states: usize,
}

pub fn explore(env: Arc<Env>, batches: Vec<Vec<usize>>, threads: usize) -> McStats {
    let init_states = batches.len();
    let model = CacheModel { env: env.clone(), batches };
    let ch = model.checker().threads(threads).spawn_bfs().join();
    McStats {
        unique_states: ch.unique_state_count(),
        max_depth: ch.max_depth(),
        transitions: env.transitions.load(Ordering::Relaxed),
        digests: env.digests.lock().unwrap().len(),
        complete_orders: env.complete_orders.load(Ordering::Relaxed),
        init_states,
    }
}
