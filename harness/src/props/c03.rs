//! C03 — results stay inside the unit set; closed results ignore auxiliary variables.

use super::common::*;
use crate::formulas::{Alphabet, Gen};
use crate::oracle::Labels;
use crate::report::Report;
use crate::sem::{self, Checks, Entries};
use crate::sweep::{label_families, NetCtx};
use serde_json::json;

pub fn run(tier: &str) -> Result<Report, String> {
    let mut rep = Report::new("C03", tier, "model_checking");
    std_assumptions(&mut rep);
    let nets = core_nets(3)?;
    // only networks whose regulation constraints exclude some parametrisations
    let constrained: Vec<_> = nets.iter().filter(|b| b.invalid_valuations > 0).cloned().collect();
    if constrained.len() < 3 {
        return Err("core family lost its constrained networks".into());
    }
    let (m_plain, m_ext, fams) = if tier == "quick" { (4, 3, 3) } else { (5, 4, 6) };
    let mut slices: Vec<serde_json::Value> = vec![];
    for b in &constrained {
        sem::note_network(&mut rep, b);
        let ctx = NetCtx::new(b.clone(), Labels::default(), "none");
        let mut alpha = Alphabet::plain(ctx.nprops(), 3);
        alpha.bi = crate::formulas::ALL_BI.to_vec();
        let mut g = Gen::new(alpha.clone());
        let mut fs = g.closed_up_to(m_plain);
        // shapes beyond the node bound: quantifier nests and sub-formulae repeated up to renaming at equal
        // and different depths, in both orders (a cached result re-used under another variable name must not
        // leave a dependence on a spare variable behind)
        let n_bounded = fs.len();
        fs.extend(crate::formulas::templates(&ctx.user, false, if tier == "quick" { 2 } else { 8 }));
        fs.extend(crate::formulas::duplicate_templates(ctx.nprops(), if tier == "quick" { 4 } else { 5 }, tier == "quick", false));
        let n_templates = fs.len() - n_bounded;
        if rep.samples.len() < 4 {
            rep.sample(json!({"network": b.name, "formula": fs[fs.len() / 3].show(&ctx.user), "unit_colours": b.cols.len(), "invalid_parameter_valuations": b.invalid_valuations}));
        }
        sem::sweep(&mut rep, &ctx, &fs, Checks { semantic: false, unit: true, entries: Entries::Plain4 });
        slices.push(json!({"network": b.name, "plain_max_nodes": m_plain, "formulae": n_bounded, "template_formulae": n_templates}));
        if b.n <= 2 {
            let alpha = Alphabet::extended(ctx.nprops(), 2, 1, 2);
            let mut g = Gen::new(alpha);
            let mut fs: Vec<_> = g.closed_up_to(m_ext).into_iter().filter(|f| f.uses_wild_or_dom()).collect();
            // extended shapes beyond the node bound: templates and ordered pairs of the collision alphabet
            // (the same sub-formula / shortcut pattern inside and outside a domain-restricted scope, both orders)
            fs.extend(crate::formulas::templates(&ctx.user, true, if tier == "quick" { 2 } else { 6 }).into_iter().filter(|f| f.uses_wild_or_dom()));
            if b.n >= 2 {
                let pool: Vec<_> = crate::formulas::collision_alphabet(&ctx.user).into_iter().take(if tier == "quick" { 14 } else { 28 }).collect();
                fs.extend(crate::formulas::pair_family(&pool, if tier == "quick" { 6 } else { 12 }, true).into_iter().filter(|f| f.uses_wild_or_dom()));
            }
            for (desc, labels) in label_families(b, fams) {
                let ctx = NetCtx::new(b.clone(), labels, &desc);
                sem::sweep(&mut rep, &ctx, &fs, Checks { semantic: false, unit: true, entries: Entries::Ext2 });
            }
            slices.push(json!({"network": b.name, "extended_max_nodes": m_ext, "formulae": fs.len(), "label_families": fams}));
        }
    }
    // graphs with a different number of spare variables per network variable
    {
        let mut n_non = 0u64;
        for b in constrained.iter().filter(|b| b.n >= 2) {
            let ctx = NetCtx::new(b.clone(), Labels::default(), "none");
            let mut alpha = Alphabet::plain(ctx.nprops(), 2);
            alpha.bi = crate::formulas::ALL_BI.to_vec();
            let mut fs = Gen::new(alpha).closed_up_to(if tier == "quick" { 3 } else { 4 });
            fs.extend(crate::formulas::templates(&ctx.user, false, 2));
            let texts: Vec<String> = fs.iter().map(|f| f.show(&ctx.user)).collect();
            let depth = |t: &str| crate::refparser::parse_str(t, false).map(|x| x.qdepth()).unwrap_or(99);
            n_non += texts.len() as u64 * 3;
            for w in nonuniform_check(b, &texts, &depth) {
                if w.starts_with("harness:") {
                    return Err(w);
                }
                rep.violations.push(crate::report::Violation { case: json!({"kind": "none"}), what: format!("on {}: {w}", b.name), size: 30 });
            }
        }
        rep.evaluations += n_non * 2;
        slices.push(json!({"part": "graphs with per-variable spare counts [3,1,2] / [1,3,1] / [2,1,4]", "formula_graph_pairs": n_non}));
    }
    // graphs whose unit set is additionally restricted to every second valid colour
    // (SymbolicAsyncGraph::restrict): results must stay inside the restricted universe as well
    let mut n_restricted = 0;
    for b in nets.iter().filter(|b| b.cols.len() >= 2) {
        let keep: Vec<usize> = (0..b.cols.len()).step_by(2).collect();
        let rb = std::sync::Arc::new(b.restrict_colours(&keep));
        sem::note_network(&mut rep, &rb);
        let ctx = NetCtx::new(rb.clone(), Labels::default(), "none");
        let mut alpha = Alphabet::plain(ctx.nprops(), 3);
        alpha.bi = crate::formulas::ALL_BI.to_vec();
        let mut g = Gen::new(alpha);
        let fs = g.closed_up_to(if tier == "quick" { 3 } else { 4 });
        sem::sweep(&mut rep, &ctx, &fs, Checks { semantic: true, unit: true, entries: Entries::Plain4 });
        n_restricted += 1;
    }
    slices.push(json!({"part": "core networks with the unit set restricted to every second colour", "networks": n_restricted}));
    // graphs whose unit set is narrowed in VERTICES after construction (SymbolicAsyncGraph::restrict to the states where the first
    // variable is true / false): plain and extended formulae (context sets cut to the narrowed unit set) must stay inside it
    {
        use biodivine_lib_param_bn::biodivine_std::traits::Set;
        let mut n_vertex = 0;
        for b in nets.iter().filter(|b| b.n >= 2 && b.n <= 3) {
            for val in [true, false] {
                let v0 = b.graph.variables().next().unwrap();
                let sub = b.graph.unit_colored_vertices().intersect(&b.graph.fix_network_variable(v0, val));
                let g = b.graph.restrict(&sub);
                let vb = std::sync::Arc::new(b.with_graph(&format!("{}|{}={}", b.name, b.spec.vars[0], val), g));
                let fam = label_families(b, 1).pop().unwrap();
                let mut ctx = NetCtx::new(vb.clone(), fam.1, &format!("{} cut to the narrowed unit set", fam.0));
                for s in ctx.sets.values_mut() {
                    *s = s.intersect(vb.graph.unit_colored_vertices());
                }
                let mut fs = Gen::new(Alphabet::extended(ctx.nprops(), 2, 1, 2)).closed_up_to(3);
                fs.extend(crate::formulas::templates(&ctx.user, true, 2));
                let (plain, ext): (Vec<_>, Vec<_>) = fs.into_iter().partition(|f| !f.uses_wild_or_dom());
                sem::sweep(&mut rep, &ctx, &plain, Checks { semantic: false, unit: true, entries: Entries::Plain4 });
                sem::sweep(&mut rep, &ctx, &ext, Checks { semantic: false, unit: true, entries: Entries::Ext2 });
                n_vertex += 1;
            }
        }
        slices.push(json!({"part": "graphs narrowed in vertices (first variable fixed to true / false)", "graphs": n_vertex}));
    }
    // every constrained network of the all-2-variable grammar
    let (all2, info) = all2_nets(3, if tier == "quick" { Some(2) } else { None })?;
    rep.set("all_2_variable_networks", info);
    let mut alpha2 = Alphabet::plain(2, 2);
    alpha2.bi = crate::formulas::ALL_BI.to_vec();
    let mut g2 = Gen::new(alpha2);
    let fs2 = g2.closed_up_to(3);
    let mut n2 = 0;
    for b in all2.iter().filter(|b| b.invalid_valuations > 0) {
        sem::note_network_light(&mut rep, b);
        let ctx = NetCtx::new(b.clone(), Labels::default(), "none");
        sem::sweep(&mut rep, &ctx, &fs2, Checks { semantic: false, unit: true, entries: Entries::Plain4 });
        n2 += 1;
    }
    slices.push(json!({"part": "constrained networks of the all-2-variable family", "networks": n2, "max_nodes": 3, "formulae": fs2.len()}));
    rep.set("slices", json!(slices));
    rep.rule = "networks of the core family and of the de-duplicated all-2-variable family whose unit set is a strict subset of all parameter valuations x all closed plain formulae (all 9 binary operators) up to plain_max_nodes, the template families (benchmark formulae, quantifier nests, sub-formulae duplicated up to renaming at equal / different quantifier depths in both orders) and extended formulae up to extended_max_nodes plus the extended templates and the pair family of the collision alphabet: every raw result must be a subset of the unit set and independent of auxiliary variables, every sanitised result must not have more elements/colours than the unit set; also: graphs narrowed in vertices by SymbolicAsyncGraph::restrict (first variable fixed), plain and extended formulae with context sets inside the narrowed unit set; graphs whose context gives different numbers of spare variables to different network variables (raw result independent of spare variables and equal to the uniform graph's); distinct_nontrivial counts distinct non-trivial verdict tables of the explored formulae".into();
    Ok(rep)
}
