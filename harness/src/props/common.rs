//! Helpers shared by the property modules.

use crate::bridge::{BindError, Bound};
use crate::nets::{core_family, NetSpec};
use crate::report::Report;
use crate::sem;
use std::sync::Arc;

/// Bind the hand-written core family (machinery failure if model and library disagree).
pub fn core_nets(k: u16) -> Result<Vec<Arc<Bound>>, String> {
    let mut out = vec![];
    for (name, spec) in core_family() {
        out.push(Arc::new(bind(name, &spec, k)?));
    }
    Ok(out)
}

pub fn bind(name: &str, spec: &NetSpec, k: u16) -> Result<Bound, String> {
    match Bound::new(name, spec, k) {
        Ok(b) => {
            sem::oracle_self_check(&b).map_err(|e| format!("oracle self-check failed on {name}: {e}"))?;
            Ok(b)
        }
        Err(BindError::Rejected(e)) => Err(format!("library rejects core network {name}: {e}")),
        Err(BindError::Mismatch(e)) => Err(format!("binding mismatch on {name}: {e}")),
    }
}

pub fn by_name<'a>(nets: &'a [Arc<Bound>], name: &str) -> Arc<Bound> {
    nets.iter().find(|b| b.name == name).unwrap_or_else(|| panic!("no core net {name}")).clone()
}

pub fn std_assumptions(rep: &mut Report) {
    rep.assumptions.push("biodivine-lib-bdd (eval_in, support_set, BDD equality) and biodivine-lib-param-bn's aeon parser are trusted; the transition systems themselves are re-derived independently and cross-checked (unit colours, update functions, witness networks) before any verdict".into());
    rep.assumptions.push("the explicit-state oracle is written against the property text and passes its own duality/fixed-point self-laws on every network of this run".into());
}

/// Bind the de-duplicated `N_all2` family. `per_bucket`: keep at most that many networks per
/// (number of valid colours, constrained?) bucket (None = all). Networks the library rejects are
/// dropped; a binding mismatch is a machinery failure.
pub fn all2_nets(k: u16, per_bucket: Option<usize>) -> Result<(Vec<Arc<Bound>>, serde_json::Value), String> {
    use rayon::prelude::*;
    use std::collections::{BTreeMap, HashSet};
    let specs = crate::nets::all2_specs();
    let texts = specs.len();
    let sigs: Vec<Option<(Vec<Vec<Vec<usize>>>, bool)>> = specs.par_iter().map(crate::nets::signature).collect();
    let mut seen = HashSet::new();
    let mut chosen: Vec<&NetSpec> = vec![];
    let mut with_colours = 0;
    let mut buckets: BTreeMap<(usize, bool), usize> = BTreeMap::new();
    for (s, sig) in specs.iter().zip(sigs.into_iter()) {
        if let Some(sig) = sig {
            with_colours += 1;
            let key = (sig.0.len(), sig.1);
            if seen.insert(sig) {
                let c = buckets.entry(key).or_insert(0);
                if per_bucket.map(|m| *c < m).unwrap_or(true) {
                    *c += 1;
                    chosen.push(s);
                }
            }
        }
    }
    let distinct = seen.len();
    let bound: Vec<Result<Option<Bound>, String>> = chosen
        .par_iter()
        .enumerate()
        .map(|(i, s)| match Bound::new(&format!("all2#{i}"), s, k) {
            Ok(b) => Ok(Some(b)),
            Err(BindError::Rejected(_)) => Ok(None),
            Err(BindError::Mismatch(e)) => Err(e),
        })
        .collect();
    let mut out = vec![];
    let mut rejected = 0;
    for b in bound {
        match b? {
            Some(b) => out.push(Arc::new(b)),
            None => rejected += 1,
        }
    }
    let info = serde_json::json!({"grammar_texts": texts, "with_a_valid_colour": with_colours, "distinct_coloured_transition_systems": distinct, "selected": chosen.len(), "rejected_by_library": rejected, "bound": out.len()});
    Ok((out, info))
}

/// Networks whose variable names are unusual as data: names that look like the spare variables'
/// names, names equal to the internal HCTL variable names, a name that is a prefix of another, names
/// that look like operators / constants. (Semantics are ordinary; only the names are special.)
pub fn name_nets(k: u16) -> Result<Vec<Arc<Bound>>, String> {
    let specs = [
        ("xtr2", "Ca_extra_cell -> b_extra_1; b_extra_1 -?? Ca_extra_cell; $b_extra_1: Ca_extra_cell"),
        ("nam2", "x -?? xx; xx -| x; $x: !xx"),
        ("pre2", "a -> ab; ab -?? a; ab -?? ab; $ab: a | ab"),
        ("kw2", "EF1 -| TRUE; TRUE -?? EF1; $TRUE: !EF1"),
        // explicit parameters whose order of first use (g, f) differs from the alphabetical order of their names
        ("ord2", "b -?? a; a -?? b; $a: g(b); $b: f(a)"),
        ("ord3", "c -?? a; a -?? b; b -?? c; $a: q | c; $b: a & p; $c: b"),
    ];
    let mut out = vec![];
    for (name, text) in specs {
        out.push(Arc::new(bind(name, &crate::nets::spec(text), k)?));
    }
    Ok(out)
}

/// Networks built PROGRAMMATICALLY with variables declared in a non-lexicographic order
/// (`RegulatoryGraph::new` keeps the given order; every parser sorts the names).
pub fn decl_nets(k: u16) -> Result<Vec<Arc<Bound>>, String> {
    let specs: [(&str, &str, &[&str]); 3] = [
        ("dcl2", "b -> a; a -| b; a -?? a", &["b", "a"]),
        ("dcl3", "c -?? a; a -> b; b -| c; $b: a", &["c", "a", "b"]),
        ("dclp2", "b -?? a; a -?? b; $a: g(b); $b: f(a)", &["b", "a"]),
    ];
    let mut out = vec![];
    for (name, text, order) in specs {
        out.push(Arc::new(bind(name, &crate::nets::spec_ordered(text, Some(order)), k)?));
    }
    Ok(out)
}

/// Networks that are unusual as DATA: constants only, a constant feeding a toggle, four variables,
/// an implicit function of three regulators (256 valuations), a variable that regulates nothing.
pub fn edge_nets(k: u16) -> Result<Vec<Arc<Bound>>, String> {
    let specs = [
        ("allc2", "$a: true; $b: false"),
        ("cst2", "a -?? b; b -| b; $a: true; $b: a & !b"),
        ("lin4", "a -> b; b -> c; c -> d; d -| a; $a: !d; $b: a; $c: b; $d: c"),
        ("imp4", "a -?? d; b -?? d; c -?? d; $a: a; a -> a; $b: !c; c -| b; $c: b; b -> c"),
        ("sink3", "a -> b; a -> c; a -| a; $a: !a; $b: a; $c: a & c; c -> c"),
        // multi-stability in one colour: a steady state (c = 1) next to a cyclic attractor (c = 0)
        ("mul3", "b -?? a; c -?? a; a -?? b; c -?? b; c -?? c; $a: b & !c; $b: (!a & !c) | c; $c: c"),
        // the same with an unknown function: colours with a steady state only, a cycle only, and both
        ("mul2", "a -?? a; b -?? a; a -?? b; b -?? b; $a: (b & !a) | (a & k(b)); $b: !a | (a & b)"),
    ];
    let mut out = vec![];
    for (name, text) in specs {
        out.push(Arc::new(bind(name, &crate::nets::spec(text), k)?));
    }
    Ok(out)
}

/// Graphs whose symbolic context gives DIFFERENT numbers of spare variables to different network variables
/// (SymbolicContext::with_extra_state_variables takes a per-variable map). For formulae with nesting depth
/// <= the smallest count, the raw result must not depend on any spare variable and must equal the result on
/// the uniform graph (both moved to the canonical context by lib-param-bn).
pub fn nonuniform_check(b: &Bound, texts: &[String], depth_of: &dyn Fn(&str) -> usize) -> Vec<String> {
    use biodivine_hctl_model_checker::model_checking as mc;
    use biodivine_lib_param_bn::symbolic_async_graph::{SymbolicAsyncGraph, SymbolicContext};
    use std::collections::HashMap;
    let mut bad = vec![];
    let vars: Vec<_> = b.bn.variables().collect();
    for counts in [vec![3u16, 1, 2], vec![1, 3, 1], vec![2, 1, 4], vec![3, 2, 2], vec![2, 3, 4], vec![4, 1, 1], vec![2, 4, 3]] {
        let map: HashMap<_, _> = vars.iter().enumerate().map(|(i, v)| (*v, counts[i % counts.len()])).collect();
        let min = vars.iter().enumerate().map(|(i, _)| counts[i % counts.len()]).min().unwrap_or(0) as usize;
        let ctx = match SymbolicContext::with_extra_state_variables(&b.bn, &map) {
            Ok(c) => c,
            Err(e) => return vec![format!("harness: non-uniform context: {e}")],
        };
        let unit = ctx.mk_constant(true);
        let g = match SymbolicAsyncGraph::with_custom_context(&b.bn, ctx, unit) {
            Ok(g) => g,
            Err(e) => return vec![format!("harness: non-uniform graph: {e}")],
        };
        let gu = b.graph_with_k(min as u16);
        let canon = g.symbolic_context().as_canonical_context();
        for t in texts {
            if depth_of(t) > min {
                continue;
            }
            let r = crate::report::guarded(std::panic::AssertUnwindSafe(|| (mc::model_check_formula_dirty(t, &g), mc::model_check_formula_dirty(t, &gu))));
            match r {
                Ok((Ok(a), Ok(u))) => {
                    let (ta, tu) = (canon.transfer_from(a.as_bdd(), g.symbolic_context()), canon.transfer_from(u.as_bdd(), gu.symbolic_context()));
                    match (ta, tu) {
                        (Some(x), Some(y)) if x == y => {}
                        (None, _) => bad.push(format!("formula {t} on a graph with spare variables per network variable {counts:?}: the raw result depends on spare variables")),
                        (Some(_), Some(_)) => bad.push(format!("formula {t} on a graph with spare variables per network variable {counts:?}: result differs from the uniform graph with k={min}")),
                        (_, None) => bad.push(format!("formula {t}: the result on the uniform graph depends on spare variables")),
                    }
                }
                Ok((a, u)) => {
                    if a.is_ok() != u.is_ok() {
                        bad.push(format!("formula {t} on a graph with spare variables {counts:?}: {:?}, on the uniform graph with k={min}: {:?}", a.map(|_| "ok"), u.map(|_| "ok")));
                    }
                }
                Err(p) => bad.push(format!("formula {t} on a graph with spare variables {counts:?}: panic: {p}")),
            }
            // the sanitising entry point: both results live in the canonical context and must be the same set
            let r = crate::report::guarded(std::panic::AssertUnwindSafe(|| (mc::model_check_formula(t, &g), mc::model_check_formula(t, &gu))));
            match r {
                Ok((Ok(a), Ok(u))) => {
                    if a.as_bdd() != u.as_bdd() {
                        bad.push(format!("formula {t} on a graph with spare variables per network variable {counts:?}: the sanitised result differs from the one on the uniform graph with k={min}"));
                    }
                }
                Ok((a, u)) => {
                    if a.is_ok() != u.is_ok() {
                        bad.push(format!("formula {t} (sanitising entry point) on a graph with spare variables {counts:?}: {:?}, on the uniform graph with k={min}: {:?}", a.map(|_| "ok"), u.map(|_| "ok")));
                    }
                }
                Err(p) => bad.push(format!("formula {t} (sanitising entry point) on a graph with spare variables {counts:?}: panic: {p}")),
            }
            if bad.len() >= 5 {
                return bad;
            }
        }
    }
    bad
}
