//! Helpers shared by the property modules.

use crate::bridge::{BindError, Bound};
use crate::nets::{core_family, NetSpec};
use crate::report::Report;
use crate::sem;
use std::sync::Arc;

/// Bind the hand-written core family (machinery failure if model and library disagree).
pub fn core_nets(k: u16) -> Result<Vec<Arc<Bound>>, String> {
    let mut out = vec![];
    for (name, spec) in core_family() {
        out.push(Arc::new(bind(name, &spec, k)?));
    }
    Ok(out)
}

pub fn bind(name: &str, spec: &NetSpec, k: u16) -> Result<Bound, String> {
    match Bound::new(name, spec, k) {
        Ok(b) => {
            sem::oracle_self_check(&b).map_err(|e| format!("oracle self-check failed on {name}: {e}"))?;
            Ok(b)
        }
        Err(BindError::Rejected(e)) => Err(format!("library rejects core network {name}: {e}")),
        Err(BindError::Mismatch(e)) => Err(format!("binding mismatch on {name}: {e}")),
    }
}

pub fn by_name<'a>(nets: &'a [Arc<Bound>], name: &str) -> Arc<Bound> {
    nets.iter().find(|b| b.name == name).unwrap_or_else(|| panic!("no core net {name}")).clone()
}

pub fn std_assumptions(rep: &mut Report) {
    rep.assumptions.push("biodivine-lib-bdd (eval_in, support_set, BDD equality) and biodivine-lib-param-bn's aeon parser are trusted; the transition systems themselves are re-derived independently and cross-checked (unit colours, update functions, witness networks) before any verdict".into());
    rep.assumptions.push("the explicit-state oracle is written against the property text and passes its own duality/fixed-point self-laws on every network of this run".into());
}
