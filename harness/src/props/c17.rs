//! C17 — the command-line tool computes the same sets as the library.

use super::common::*;
use crate::bridge::{full_mask, Bound, Mask};
use crate::cli::{self, Block};
use crate::refparser as rp;
use crate::report::{guarded, Report, Violation};
use crate::sweep::label_families;
use biodivine_hctl_model_checker::generate_output::build_result_archive;
use biodivine_hctl_model_checker::mc_utils::get_extended_symbolic_graph;
use biodivine_hctl_model_checker::model_checking as mc;
use biodivine_lib_bdd::Bdd;
use biodivine_lib_param_bn::symbolic_async_graph::GraphColoredVertices;
use biodivine_lib_param_bn::BooleanNetwork;
use rayon::prelude::*;
use serde_json::{json, Value};
use std::collections::{BTreeSet, HashMap};
use std::panic::AssertUnwindSafe;
use std::sync::Arc;

#[derive(Clone, Debug, serde::Serialize, serde::Deserialize)]
pub struct Case {
    pub fmt: String,
    pub layout: usize,
    pub print: String,
    pub with_out: bool,
    pub formulas: Vec<String>,
    /// context labels (label, masks) if the run uses -e; `ctx_k_delta` shifts the k the archive is built for
    pub ctx: Option<Vec<(String, Vec<Mask>)>>,
    pub ctx_k_delta: i32,
    /// `-o` names the same file as `-e` (the context archive is updated in place)
    #[serde(default)]
    pub same_path: bool,
}

pub const LAYOUTS: usize = 7;

/// Render the formula file in one of the layouts; the list of formulae the tool must read is
/// always `formulas` (in order).
pub fn formula_file(formulas: &[String], layout: usize) -> String {
    let mut s = String::new();
    match layout {
        0 => {
            for f in formulas {
                s.push_str(f);
                s.push('\n');
            }
        }
        1 => {
            s.push_str("# header comment\n");
            for (i, f) in formulas.iter().enumerate() {
                s.push_str(&format!("# comment {i}: EF a\n{f}\n"));
            }
            s.push_str("#trailing\n");
        }
        2 => {
            s.push_str("\n\n");
            for f in formulas {
                s.push_str(f);
                s.push_str("\n\n   \n\t\n");
            }
        }
        3 => {
            for f in formulas {
                s.push_str(&format!("  \t {f} \t  \n"));
            }
        }
        4 => {
            for f in formulas {
                s.push_str(f);
                s.push_str("\r\n");
            }
        }
        5 => {
            s.push_str(&formulas.join("\n"));
        }
        _ => {
            s.push_str("   # indented comment\r\n\r\n");
            for (i, f) in formulas.iter().enumerate() {
                s.push_str(&format!("\t{f}  \r\n"));
                if i % 2 == 0 {
                    s.push_str("  \n#x\n");
                }
            }
            s.push_str("   #last line is a comment without newline");
        }
    }
    s
}

fn model_file(bn: &BooleanNetwork, fmt: &str) -> Option<(String, String)> {
    match fmt {
        "aeon" => Some(("model.aeon".into(), bn.to_string())),
        "sbml" => {
            let text = bn.to_sbml(None);
            let back = BooleanNetwork::try_from_sbml(&text).ok()?.0;
            if back.to_string() == bn.to_string() {
                Some(("model.sbml".into(), text))
            } else {
                None
            }
        }
        "bnet" => {
            let text = bn.to_bnet(false).ok()?;
            let back = BooleanNetwork::try_from_bnet(&text).ok()?;
            if back.to_string() == bn.to_string() {
                Some(("model.bnet".into(), text))
            } else {
                None
            }
        }
        _ => None,
    }
}

fn counts(b: &Bound, masks: &[Mask]) -> (f64, f64, f64) {
    let total: u32 = masks.iter().map(|m| m.count_ones()).sum();
    let colours = masks.iter().filter(|m| **m != 0).count();
    let states = masks.iter().fold(0u64, |a, m| a | m).count_ones();
    let _ = b;
    (total as f64, colours as f64, states as f64)
}

/// Run one configuration and compare with the library. Err = not applicable (format cannot express the network).
pub fn check(b: &Bound, c: &Case) -> Result<Option<String>, String> {
    let (mname, mtext) = model_file(&b.bn, &c.fmt).ok_or("format not applicable")?;
    let dir = tempfile::tempdir().map_err(|e| e.to_string())?;
    let mpath = dir.path().join(&mname);
    std::fs::write(&mpath, &mtext).map_err(|e| e.to_string())?;
    let fpath = dir.path().join("formulae.txt");
    std::fs::write(&fpath, formula_file(&c.formulas, c.layout)).map_err(|e| e.to_string())?;
    let epath = dir.path().join("context.zip");
    let in_place = c.same_path && c.with_out && c.ctx.is_some();
    let opath = if in_place { epath.clone() } else { dir.path().join("out").join("results.zip") };
    // the k the tool derives: maximal quantifier nesting depth over the formulae (reference parser)
    let ext = c.ctx.is_some();
    let mut k = 0usize;
    for f in &c.formulas {
        match rp::parse_str(f, ext) {
            Ok(t) => k = k.max(t.qdepth()),
            Err(e) => return Err(format!("case formula {f:?} is not valid: {e}")),
        }
    }
    let g = get_extended_symbolic_graph(&b.bn, k as u16)?;
    let mut ctx_sets: HashMap<String, GraphColoredVertices> = HashMap::new();
    if let Some(ctx) = &c.ctx {
        let kk = (k as i32 + c.ctx_k_delta).max(0) as u16;
        let gk = get_extended_symbolic_graph(&b.bn, kk)?;
        // labels `raw` / `rawa` are sets that are NOT confined to the valid colours: the whole symbolic space /
        // "first variable is true" for every parameter valuation (the tool must hand them to the evaluation as archived)
        let mk = |gr: &biodivine_lib_param_bn::symbolic_async_graph::SymbolicAsyncGraph, l: &str, m: &Vec<Mask>| -> GraphColoredVertices {
            let sc = gr.symbolic_context();
            match l {
                "raw" => GraphColoredVertices::new(sc.mk_constant(true), sc),
                "rawa" => GraphColoredVertices::new(sc.mk_state_variable_is_true(gr.variables().next().unwrap()), sc),
                _ => b.mk_set_in(gr, m),
            }
        };
        let sets: HashMap<String, GraphColoredVertices> = ctx.iter().map(|(l, m)| (l.clone(), mk(&gk, l, m))).collect();
        build_result_archive(sets, epath.to_str().unwrap(), b.bn.to_string().as_str(), vec![]).map_err(|e| e.to_string())?;
        ctx_sets = ctx.iter().map(|(l, m)| (l.clone(), mk(&g, l, m))).collect();
    }
    // odd layouts: the output path already holds a (much longer) result archive of an earlier run on another model
    if c.with_out && c.layout % 2 == 1 && !in_place {
        let other = BooleanNetwork::try_from("zz_old -| zz_old\n$zz_old: !zz_old\n").map_err(|e| e.to_string())?;
        let go = get_extended_symbolic_graph(&other, 1)?;
        let old: HashMap<String, GraphColoredVertices> = (0..200).map(|i| (format!("formula-{i}"), if i % 2 == 0 { go.mk_unit_colored_vertices() } else { go.mk_empty_colored_vertices() })).collect();
        build_result_archive(old, opath.to_str().unwrap(), other.to_string().as_str(), (0..200).map(|i| format!("OLD FORMULA {i}")).collect()).map_err(|e| e.to_string())?;
    }
    let mut args: Vec<String> = vec![mpath.to_str().unwrap().into(), fpath.to_str().unwrap().into(), "-p".into(), c.print.clone()];
    if c.with_out {
        args.push("-o".into());
        args.push(opath.to_str().unwrap().into());
    }
    if ext {
        args.push("-e".into());
        args.push(epath.to_str().unwrap().into());
    }
    let argv: Vec<&str> = args.iter().map(|s| s.as_str()).collect();
    let out = cli::run(&cli::checker_bin(), &argv, None, 60.0)?;
    if out.timed_out {
        return Ok(Some("the tool did not finish within 60 s".into()));
    }
    if out.panicked() {
        return Ok(Some(format!("the tool crashed (exit {:?}): {}", out.code, crate::report::truncate(&out.stderr, 300))));
    }
    if c.ctx_k_delta != 0 {
        // archive written for a different number of spare variable sets: must be reported, not crash
        return Ok(if out.stdout.trim().is_empty() && out.stderr.trim().is_empty() { Some("mismatched context archive: the tool prints nothing".into()) } else { None });
    }
    // the library's answer
    let texts: Vec<&str> = c.formulas.iter().map(|s| s.as_str()).collect();
    let lib = guarded(AssertUnwindSafe(|| if ext { mc::model_check_multiple_extended_formulae_dirty(texts.clone(), &g, &ctx_sets) } else { mc::model_check_multiple_formulae_dirty(texts.clone(), &g) }));
    let lib = match lib {
        Ok(Ok(l)) => l,
        other => return Err(format!("library cannot evaluate the case formulae: {:?}", other.map(|r| r.map(|_| "ok")))),
    };
    let bk = Bound::new_opt(&b.name, &b.spec, k as u16, false).map_err(|e| format!("{e:?}"))?;
    // the reference is the library's answer for every formula evaluated on its own; the batch entry
    // point must agree with it (otherwise tool and batch API could share a defect unnoticed)
    for (i, f) in c.formulas.iter().enumerate() {
        let solo = guarded(AssertUnwindSafe(|| if ext { mc::model_check_extended_formula_dirty(f, &g, &ctx_sets) } else { mc::model_check_formula_dirty(f, &g) }));
        match solo {
            Ok(Ok(s)) => {
                if s.as_bdd() != lib[i].as_bdd() {
                    return Ok(Some(format!("library disagrees with itself: formula {f:?} evaluated alone differs from position {i} of the batch entry point (so the tool's answer cannot equal both)")));
                }
            }
            other => return Err(format!("library cannot evaluate {f:?} alone: {:?}", other.map(|r| r.map(|_| "ok")))),
        }
    }
    let lib_masks: Vec<Vec<Mask>> = lib.iter().map(|s| bk.masks_of(s)).collect();
    // stdout
    let blocks: Vec<Block> = cli::parse_blocks(&out.stdout).map_err(|e| format!("cannot parse tool output: {e}"))?;
    if c.print == "no-print" {
        if !blocks.is_empty() {
            return Ok(Some("no-print mode prints result blocks".into()));
        }
    } else {
        if blocks.len() != c.formulas.len() {
            return Ok(Some(format!("{} result blocks for {} formulae (stdout: {})", blocks.len(), c.formulas.len(), crate::report::truncate(&out.stdout, 300))));
        }
        for (i, bl) in blocks.iter().enumerate() {
            if bl.formula != c.formulas[i] {
                return Ok(Some(format!("block {i} is for {:?}, line {i} of the file is {:?}", bl.formula, c.formulas[i])));
            }
            let raw_case = c.ctx.as_ref().map(|x| x.iter().any(|(l, _)| l == "raw" || l == "rawa")).unwrap_or(false);
            // with context sets outside the valid colours the numbers are those of the library's raw set
            let (t, col, st) = if raw_case { (lib[i].approx_cardinality(), lib[i].colors().approx_cardinality(), lib[i].vertices().approx_cardinality()) } else { counts(&bk, &lib_masks[i]) };
            if (bl.results, bl.colors, bl.states) != (t, col, st) {
                return Ok(Some(format!(
                    "formula {:?}: tool prints {} results / {} colours / {} states, the library's set has {} / {} / {}",
                    bl.formula, bl.results, bl.colors, bl.states, t, col, st
                )));
            }
            if c.print == "exhaustive" {
                let mut listed: BTreeSet<usize> = BTreeSet::new();
                for st in &bl.listed {
                    if st.len() != bk.n || st.iter().enumerate().any(|(j, (n, _))| n != &bk.spec.vars[j]) {
                        return Ok(Some(format!("exhaustive listing has a malformed state line {st:?}")));
                    }
                    let s = st.iter().enumerate().fold(0usize, |a, (j, (_, v))| if *v { a | (1 << j) } else { a });
                    if !listed.insert(s) {
                        return Ok(Some(format!("state {s} listed twice")));
                    }
                }
                let want: BTreeSet<usize> = (0..bk.n_states()).filter(|s| lib_masks[i].iter().any(|m| m >> s & 1 == 1)).collect();
                if listed != want {
                    return Ok(Some(format!("formula {:?}: exhaustive mode lists states {listed:?}, the library's set has {want:?}", bl.formula)));
                }
            } else if !bl.listed.is_empty() {
                return Ok(Some("state lines printed outside exhaustive mode".into()));
            }
        }
    }
    // archive
    if c.with_out {
        let entries = match cli::read_zip(&opath) {
            Ok(e) => e,
            Err(e) => return Ok(Some(format!("-o archive missing or unreadable: {e}"))),
        };
        let mut want: BTreeSet<String> = (0..c.formulas.len()).map(|i| format!("formula-{i}.bdd")).collect();
        want.insert("model.aeon".into());
        want.insert("formulae.txt".into());
        let have: BTreeSet<String> = entries.iter().map(|(n, _)| n.clone()).collect();
        if have != want || entries.len() != want.len() {
            return Ok(Some(format!("archive entries {have:?}, expected {want:?}")));
        }
        let fl: Vec<String> = entries.iter().find(|(n, _)| n == "formulae.txt").unwrap().1.lines().map(|s| s.to_string()).collect();
        if fl != c.formulas {
            return Ok(Some(format!("archived formulae.txt {fl:?} vs file order {:?}", c.formulas)));
        }
        for i in 0..c.formulas.len() {
            let text = &entries.iter().find(|(n, _)| n == &format!("formula-{i}.bdd")).unwrap().1;
            let bdd = match guarded(AssertUnwindSafe(|| Bdd::from_string(text))) {
                Ok(b) => b,
                Err(p) => return Ok(Some(format!("archived formula-{i}.bdd is not a BDD: {p}"))),
            };
            if bdd.num_vars() != g.symbolic_context().bdd_variable_set().num_vars() {
                return Ok(Some(format!("archived formula-{i}.bdd has {} variables, a graph with k={k} has {}", bdd.num_vars(), g.symbolic_context().bdd_variable_set().num_vars())));
            }
            let set = GraphColoredVertices::new(bdd, g.symbolic_context());
            if bk.masks_of(&set) != lib_masks[i] || set.as_bdd() != lib[i].as_bdd() {
                return Ok(Some(format!("archived set formula-{i} differs from the library result of {:?}", c.formulas[i])));
            }
        }
    } else if opath.exists() {
        return Ok(Some("an archive was written without -o".into()));
    }
    Ok(None)
}

/// Wide models (no explicit-state binding possible): the printed numbers must be the library's numbers
/// (f64, printed by Display - the same text the tool prints when it formats the same value).
pub fn check_wide(model: &str, print: &str) -> Result<Option<String>, String> {
    let big = crate::bigmodels::load(model, 1)?;
    let dir = tempfile::tempdir().map_err(|e| e.to_string())?;
    let mpath = dir.path().join("model.aeon");
    std::fs::write(&mpath, big.bn.to_string()).map_err(|e| e.to_string())?;
    let names = big.var_names();
    let formulas: Vec<String> = vec!["True".into(), names[0].clone(), format!("~ {}", names[names.len() - 1]), "!{x}: AX {x}".into(), format!("EF ({} & {})", names[0], names[1])];
    let fpath = dir.path().join("f.txt");
    std::fs::write(&fpath, formulas.join("\n") + "\n").map_err(|e| e.to_string())?;
    let out = cli::run(&cli::checker_bin(), &[mpath.to_str().unwrap(), fpath.to_str().unwrap(), "-p", print], None, 120.0)?;
    if out.timed_out {
        return Ok(Some(format!("{model}: the tool did not finish within 120 s")));
    }
    if out.panicked() {
        return Ok(Some(format!("{model}: the tool crashed: {}", crate::report::truncate(&out.stderr, 300))));
    }
    let blocks = cli::parse_blocks(&out.stdout).map_err(|e| format!("cannot parse tool output: {e}"))?;
    if blocks.len() != formulas.len() {
        return Ok(Some(format!("{model}: {} result blocks for {} formulae", blocks.len(), formulas.len())));
    }
    let texts: Vec<&str> = formulas.iter().map(|s| s.as_str()).collect();
    let lib = mc::model_check_multiple_formulae_dirty(texts, &big.graph).map_err(|e| format!("library: {e}"))?;
    for (i, bl) in blocks.iter().enumerate() {
        let want = (lib[i].approx_cardinality(), lib[i].colors().approx_cardinality(), lib[i].vertices().approx_cardinality());
        if (bl.results, bl.colors, bl.states) != want {
            return Ok(Some(format!("{model} / -p {print}: formula {:?}: tool prints {} results / {} colours / {} states, the library's set has {} / {} / {}", formulas[i], bl.results, bl.colors, bl.states, want.0, want.1, want.2)));
        }
    }
    Ok(None)
}

/// Failure configurations: a message, no crash.
pub fn check_failure(b: &Bound, which_full: &str) -> Option<String> {
    let (which, print_opt) = match which_full.split_once(" @ ") {
        Some((w, p)) => (w, Some(p)),
        None => (which_full, None),
    };
    let dir = tempfile::tempdir().ok()?;
    let m = dir.path().join("model.aeon");
    let f = dir.path().join("f.txt");
    std::fs::write(&m, b.bn.to_string()).ok()?;
    std::fs::write(&f, "EF a\n").ok()?;
    let e = dir.path().join("ctx.zip");
    let g1 = match get_extended_symbolic_graph(&b.bn, 1) {
        Ok(g) => g,
        Err(e) => return Some(format!("{which}: cannot build the graph for the context archive: {e}")),
    };
    let unit: Vec<Mask> = vec![full_mask(b.n); b.cols.len()];
    if let Err(err) = build_result_archive(HashMap::from([("p".to_string(), b.mk_set_in(&g1, &unit))]), e.to_str().unwrap(), b.bn.to_string().as_str(), vec![]) {
        return Some(format!("{which}: cannot write the context archive: {err}"));
    }
    let (ms, fs, es) = (m.to_str().unwrap().to_string(), f.to_str().unwrap().to_string(), e.to_str().unwrap().to_string());
    let missing = dir.path().join("nope.aeon").to_str().unwrap().to_string();
    let mut expected_formulae: Option<usize> = None;
    let args: Vec<String> = match which {
        "missing model" => vec![missing, fs],
        "corrupt model" => {
            std::fs::write(&m, "a -> \n$$$ b: (((\n").ok()?;
            vec![ms, fs]
        }
        "model with unknown extension" => {
            let x = dir.path().join("model.xyz");
            std::fs::write(&x, "garbage").ok()?;
            vec![x.to_str().unwrap().into(), fs]
        }
        "missing formula file" => vec![ms, missing],
        "invalid formula" => {
            std::fs::write(&f, "EF a\n!{x}: (AX {y}\n").ok()?;
            vec![ms, fs]
        }
        "free variable" => {
            std::fs::write(&f, "AX {x}\n").ok()?;
            vec![ms, fs]
        }
        "unknown proposition" => {
            std::fs::write(&f, "EF zzz\n").ok()?;
            vec![ms, fs]
        }
        "model without any valid colour" => {
            // b is declared as an observable activator but the function does not depend on it: the library rejects the model
            let text = "a -> x\nb -> x\na -?? a\nb -?? b\n$x: a | (b & !b)\n";
            match BooleanNetwork::try_from(text).map_err(|e| e.to_string()).and_then(|bn| get_extended_symbolic_graph(&bn, 1).map(|_| ())) {
                Err(_) => {}
                Ok(()) => return Some(format!("{which}: MACHINERY: the library accepts the model that was meant to admit no colour")),
            }
            std::fs::write(&m, text).ok()?;
            vec![ms, fs]
        }
        "wild-card without -e" => {
            std::fs::write(&f, "%p% & a\n").ok()?;
            vec![ms, fs]
        }
        "missing context label" => {
            std::fs::write(&f, "!{x}: (%p% & %q%)\n").ok()?;
            vec![ms, fs, "-e".into(), es]
        }
        "missing context archive" => {
            std::fs::write(&f, "%p%\n").ok()?;
            vec![ms, fs, "-e".into(), missing]
        }
        "context archive is not a zip" => {
            std::fs::write(&f, "%p%\n").ok()?;
            std::fs::write(&e, "not a zip").ok()?;
            vec![ms, fs, "-e".into(), es]
        }
        "wrong print option" => vec![ms, fs, "-p".into(), "verbose".into()],
        "empty formula file" => {
            std::fs::write(&f, "# nothing\n\n").ok()?;
            vec![ms, fs]
        }
        // formula files that cannot be read completely: the tool must either report that or evaluate
        // every formula of the file - never a silent prefix
        "formula file with a non-UTF-8 byte in a comment" => {
            std::fs::write(&f, b"EF a\n# caf\xe9 notation\nAG b\nEX a\n").ok()?;
            expected_formulae = Some(3);
            vec![ms, fs]
        }
        "formula file with a non-UTF-8 byte in a formula" => {
            std::fs::write(&f, b"EF a\nAG b\nEX \xff a\n").ok()?;
            expected_formulae = Some(3);
            vec![ms, fs]
        }
        "formula file with a non-UTF-8 byte in its first line" => {
            std::fs::write(&f, b"# \xe9\nEF a\nAG b\n").ok()?;
            expected_formulae = Some(2);
            vec![ms, fs]
        }
        "formula path is a directory" => {
            expected_formulae = Some(1);
            vec![ms, dir.path().to_str().unwrap().to_string()]
        }
        "invalid formula between valid ones" => {
            std::fs::write(&f, "EF a\nEX (a &\nAG b\n!{x}: AX {x}\n").ok()?;
            expected_formulae = Some(4);
            vec![ms, fs]
        }
        "unknown proposition between valid ones" => {
            std::fs::write(&f, "EF a\nEF zzz\nAG b\n~ a\n").ok()?;
            expected_formulae = Some(4);
            vec![ms, fs, "-p".into(), "exhaustive".into()]
        }
        "invalid formula after valid ones" => {
            std::fs::write(&f, "EF a\nAG b\nEX (a &\n").ok()?;
            expected_formulae = Some(3);
            vec![ms, fs]
        }
        _ => return None,
    };
    // `which` may carry a print option after " @ " (every failure is tried under every print option)
    let mut args = args;
    if let Some(p) = print_opt {
        if !args.iter().any(|a| a == "-p") {
            args.push("-p".into());
            args.push(p.to_string());
        }
    }
    let argv: Vec<&str> = args.iter().map(|s| s.as_str()).collect();
    let out = match cli::run(&cli::checker_bin(), &argv, None, 60.0) {
        Ok(o) => o,
        Err(e) => return Some(format!("{which}: the tool cannot be executed: {e}")),
    };
    if out.timed_out {
        return Some(format!("{which}: the tool hangs"));
    }
    if out.panicked() {
        return Some(format!("{which}: the tool crashes instead of reporting (exit {:?}): {}", out.code, crate::report::truncate(&out.stderr, 300)));
    }
    if which == "model without any valid colour" && cli::strip_ansi(&out.stdout).lines().any(|l| l.trim_start().starts_with("Formula:")) {
        return Some(format!("{which}: the tool prints results for a model the library rejects (no parametrisation satisfies the declared regulations): {}", crate::report::truncate(&out.stdout, 200)));
    }
    if which != "empty formula file" && out.stdout.trim().is_empty() && out.stderr.trim().is_empty() {
        return Some(format!("{which}: nothing is reported"));
    }
    if let Some(n) = expected_formulae {
        let text = format!("{}\n{}", cli::strip_ansi(&out.stdout), cli::strip_ansi(&out.stderr));
        let blocks = text.lines().filter(|l| l.trim_start().starts_with("Formula:")).count();
        let diagnostic = ["corrupted", "rror", "nvalid", "UTF-8", "annot", "ailed", "nexpected", "xpected", "directory", "There is no", "no network variable", "lacks", "is free", "several times", "not support"].iter().any(|w| text.contains(w));
        if blocks < n && !diagnostic {
            return Some(format!("{which}: the tool evaluates {blocks} of the {n} formulae of the file and reports no problem (output: {})", crate::report::truncate(&text, 300)));
        }
        // whatever the tool does print must be true: every printed block carries the numbers of ITS formula
        if let Ok(parsed) = cli::parse_blocks(&out.stdout) {
            for bl in parsed {
                let k = match rp::parse_str(&bl.formula, false) {
                    Ok(t) => t.qdepth() as u16,
                    Err(_) => return Some(format!("{which}: a result block is printed for {:?}, which is not a formula", bl.formula)),
                };
                let g = match get_extended_symbolic_graph(&b.bn, k) {
                    Ok(g) => g,
                    Err(e) => return Some(format!("{which}: graph: {e}")),
                };
                match mc::model_check_formula_dirty(&bl.formula, &g) {
                    Ok(r) => {
                        let want = (r.approx_cardinality(), r.colors().approx_cardinality(), r.vertices().approx_cardinality());
                        if (bl.results, bl.colors, bl.states) != want {
                            return Some(format!("{which}: the block for {:?} prints {} / {} / {}, the library's result for that formula has {} / {} / {}", bl.formula, bl.results, bl.colors, bl.states, want.0, want.1, want.2));
                        }
                    }
                    Err(e) => return Some(format!("{which}: a result block is printed for {:?}, which the library rejects: {e}", bl.formula)),
                }
            }
        }
    }
    None
}

pub fn replay(case: &Value) -> Option<String> {
    let spec = serde_json::from_value(case["net"].clone()).ok()?;
    let b = Bound::new("replay", &spec, 0).ok()?;
    if let Some(w) = case.get("failure").and_then(|w| w.as_str()) {
        return check_failure(&b, w);
    }
    if let Some(m) = case.get("wide").and_then(|w| w.as_str()) {
        return match check_wide(m, case["print"].as_str().unwrap_or("summary")) {
            Ok(v) => v,
            Err(e) => Some(format!("case not executable: {e}")),
        };
    }
    let c: Case = serde_json::from_value(case["case"].clone()).ok()?;
    match check(&b, &c) {
        Ok(v) => v,
        Err(e) => Some(format!("case not executable: {e}")),
    }
}

pub fn run(tier: &str) -> Result<Report, String> {
    let mut rep = Report::new("C17", tier, "exploration");
    if !cli::checker_bin().exists() {
        return Err(format!("{} not built (./check builds it)", cli::checker_bin().display()));
    }
    let mut nets = core_nets(0)?;
    // networks whose DECLARED regulations cut the colours of an explicit function down (a non-observable inhibition on an input the
    // function uses positively; an observable activation next to a function symbol): the tool must work on the graph the library builds
    nets.push(Arc::new(bind("dcf3", &crate::nets::spec("a -|? x; b -?? x; a -?? a; b -?? b; $x: f(b) & a"), 0)?));
    nets.push(Arc::new(bind("dcf2", &crate::nets::spec("a -> b; a -?? a; $b: a | g(a)"), 0)?));
    let which = vec!["tog2", "con2", "unf2", "inp2", "imp3", "dcf3", "dcf2"];
    let plain_lists: Vec<Vec<String>> = vec![
        vec!["!{x}: AX {x}".into()],
        vec!["EF a".into(), "!{x}: AG EF {x}".into(), "3{x}: 3{y}: (@{x}: ~{y} & AX {x}) & (@{y}: AX {y})".into()],
        vec!["a & b".into(), "a & b".into(), "~(a & b)".into()],
        // sibling quantifiers with different names: more distinct names than nesting depth
        vec!["(!{s}: AX {s}) | (!{t}: EF {t})".into(), "3{u}: @{u}: (a & (!{v}: AX {v})) | (3{w}: @{w}: b)".into()],
    ];
    let ext_lists: Vec<Vec<String>> = vec![
        vec!["%p% & EF a".into(), "!{x} in %d%: AX ({x} | %p%)".into()],
        vec!["3{x} in %dom_1%: @{x}: EG %p%".into(), "%p%".into(), "V{x} in %d%: @{x}: AX {x}".into()],
        // the context archive is used for DOMAINS only (no wild-card proposition in the whole file), and for propositions only
        vec!["!{x} in %d%: AX {x}".into(), "3{x} in %dom_1%: @{x}: EF a".into()],
        vec!["%p% | EX %p%".into()],
    ];
    // one formula file per operator: the tool drives the evaluation itself (analysis module), so
    // every operator has to go through it in isolation as well as in mixed files
    let mut operator_lists: Vec<Vec<String>> = vec![];
    for u in ["~", "EX", "AX", "EF", "AF", "EG", "AG"] {
        operator_lists.push(vec![format!("{u} a"), format!("{u} ({u} b)")]);
    }
    for o in ["&", "|", "^", "=>", "<=>", "EU", "AU", "EW", "AW"] {
        operator_lists.push(vec![format!("a {o} b"), format!("b {o} (a {o} b)")]);
    }
    for h in ["!{x}: AX {x}", "!{x}: AG EF {x}", "3{x}: @{x}: a", "V{x}: @{x}: (a | b)", "!{x}: 3{y}: (@{x}: EF {y})", "True", "False", "a"] {
        operator_lists.push(vec![h.to_string()]);
    }
    // a long formula file: 40 different formulae, many of equal height, heights in unsorted order
    {
        let uns = ["~", "EX", "AX", "EF", "AF", "EG", "AG"];
        let inn = ["a", "b", "(a & b)", "(EF a)", "(~ b)", "(a EU b)"];
        let long: Vec<String> = (0..40).map(|i| format!("{} {}", uns[i % 7], inn[(i / 7) % 6])).collect();
        operator_lists.push(long.clone());
        operator_lists.push(long.into_iter().rev().collect());
    }
    // thorough: the tool's own driver loop gets the breadth of a node-bounded family: every closed formula with <= 3 nodes over
    // all operators and every closed extended formula with <= 3 nodes, in formula files of 7 lines each
    let mut ext_chunks: Vec<Vec<String>> = vec![];
    if tier != "quick" {
        use crate::formulas::{Alphabet, Gen, Names};
        let nm = Names::user(&["a".to_string(), "b".to_string()]);
        let all: Vec<String> = Gen::new(Alphabet::all_ops(2, 2)).closed_up_to(5).iter().map(|f| f.show(&nm)).collect();
        rep.set("node_bounded_plain_formulae_through_the_tool", json!(all.len()));
        for c in all.chunks(7) {
            operator_lists.push(c.to_vec());
        }
        // label names of the extended lists of this check: p (wild-card), d and dom_1 (domains)
        let mut nm2 = nm.clone();
        nm2.wilds = vec!["p".into(), "unused".into()];
        nm2.doms = vec!["d".into(), "dom_1".into()];
        let ext: Vec<String> = Gen::new(Alphabet::extended(2, 2, 1, 2)).closed_up_to(3).iter().filter(|f| f.uses_wild_or_dom()).map(|f| f.show(&nm2)).collect();
        rep.set("node_bounded_extended_formulae_through_the_tool", json!(ext.len()));
        ext_chunks = ext.chunks(7).map(|c| c.to_vec()).collect();
    }
    let prints = ["no-print", "summary", "with-progress", "exhaustive"];
    let mut cases: Vec<(Arc<Bound>, Case)> = vec![];
    // context sets that are not confined to the valid colours (constrained networks)
    for b in nets.iter().filter(|b| ["con2", "unf2"].contains(&b.name.as_str())) {
        let fams = label_families(b, 4);
        let labels: Vec<(String, Vec<Mask>)> = vec![("raw".into(), vec![]), ("rawa".into(), vec![]), ("p".into(), fams[0].1.wild[0].clone())];
        let v0 = b.spec.vars[0].clone();
        let l: Vec<String> = vec!["%raw%".into(), format!("%rawa% | {v0}"), "EF %rawa%".into(), "~ %rawa%".into(), "%p% & %rawa%".into(), "!{x} in %rawa%: AX {x}".into()];
        for (pi, print) in ["summary", "no-print"].iter().enumerate() {
            cases.push((b.clone(), Case { fmt: "aeon".into(), layout: pi, print: print.to_string(), with_out: true, formulas: l.clone(), ctx: Some(labels.clone()), ctx_k_delta: 0, same_path: false }));
        }
    }
    // networks with unusual variable names (like spare variables, like HCTL variables, prefixes, keywords)
    for b in name_nets(0)? {
        let (v0, v1) = (b.spec.vars[0].clone(), b.spec.vars[1].clone());
        let l: Vec<String> = vec![format!("EF {v0}"), "!{x}: AG EF {x}".into(), format!("{v0} & ~{v1}"), format!("!{{x}}: AX ({{x}} | {v1})"), format!("3{{x}}: @{{x}}: ({v1} & AX {{x}})")];
        for fmt in ["aeon", "bnet", "sbml"] {
            if model_file(&b.bn, fmt).is_none() {
                continue;
            }
            for (pi, print) in ["summary", "exhaustive"].iter().enumerate() {
                cases.push((b.clone(), Case { fmt: fmt.into(), layout: pi, print: print.to_string(), with_out: true, formulas: l.clone(), ctx: None, ctx_k_delta: 0, same_path: false }));
            }
        }
    }
    for b in nets.iter().filter(|b| which.contains(&b.name.as_str())) {
        let fams = label_families(b, 4);
        let ctx_labels: Vec<(String, Vec<Mask>)> = vec![("p".into(), fams[0].1.wild[0].clone()), ("d".into(), fams[0].1.dom[0].clone()), ("dom_1".into(), fams[0].1.dom[1].clone()), ("unused".into(), fams[0].1.wild[1].clone()), ("zz/p".into(), fams[0].1.wild[1].clone()), ("0/d".into(), fams[0].1.wild[1].clone())];
        for fmt in ["aeon", "bnet", "sbml"] {
            if model_file(&b.bn, fmt).is_none() {
                continue;
            }
            for layout in 0..LAYOUTS {
                for print in prints {
                    for with_out in [false, true] {
                        for (li, l) in plain_lists.iter().enumerate() {
                            cases.push((b.clone(), Case { fmt: fmt.into(), layout, print: print.into(), with_out, formulas: l.clone(), ctx: None, ctx_k_delta: 0, same_path: false }));
                        }
                        for (li, l) in ext_lists.iter().enumerate() {
                            cases.push((b.clone(), Case { fmt: fmt.into(), layout, print: print.into(), with_out, formulas: l.clone(), ctx: Some(ctx_labels.clone()), ctx_k_delta: 0, same_path: false }));
                            if with_out {
                                // the context archive is updated in place: -o names the same file as -e
                                cases.push((b.clone(), Case { fmt: fmt.into(), layout, print: print.into(), with_out, formulas: l.clone(), ctx: Some(ctx_labels.clone()), ctx_k_delta: 0, same_path: true }));
                            }
                        }
                    }
                }
            }
            if fmt == "aeon" {
                for (li, l) in ext_chunks.iter().enumerate() {
                    let print = if li % 2 == 0 { "summary" } else { "exhaustive" };
                    cases.push((b.clone(), Case { fmt: fmt.into(), layout: li % LAYOUTS, print: print.into(), with_out: li % 3 == 0, formulas: l.clone(), ctx: Some(ctx_labels.clone()), ctx_k_delta: 0, same_path: li % 6 == 0 }));
                }
                for (li, l) in operator_lists.iter().enumerate() {
                    let print = if li % 2 == 0 { "summary" } else { "exhaustive" };
                    cases.push((b.clone(), Case { fmt: fmt.into(), layout: li % LAYOUTS, print: print.into(), with_out: li % 3 == 0, formulas: l.clone(), ctx: None, ctx_k_delta: 0, same_path: false }));
                }
            }
            // context archives written for a different number of spare variable sets
            for delta in [-1, 1, 2] {
                cases.push((b.clone(), Case { fmt: fmt.into(), layout: 0, print: "summary".into(), with_out: false, formulas: ext_lists[0].clone(), ctx: Some(ctx_labels.clone()), ctx_k_delta: delta, same_path: false }));
            }
        }
    }
    let res: Vec<(bool, Option<Violation>)> = cases
        .par_iter()
        .map(|(b, c)| match check(b, c) {
            Ok(None) => (true, None),
            Ok(Some(w)) => (
                true,
                Some(Violation {
                    case: json!({"kind": "cli", "net": b.spec, "aeon": b.aeon, "case": c}),
                    what: format!("{} as {} / layout {} / -p {} / -o {} / context {}{}: {w}", b.name, c.fmt, c.layout, c.print, c.with_out, c.ctx.is_some(), if c.ctx_k_delta != 0 { format!(" (archive for k{:+})", c.ctx_k_delta) } else { String::new() }),
                    size: c.formulas.len() + c.layout,
                }),
            ),
            Err(e) => (false, if e == "format not applicable" { None } else { Some(Violation { case: json!({"kind": "none"}), what: format!("MACHINERY: {e}"), size: 0 }) }),
        })
        .collect();
    for (ran, v) in res {
        if ran {
            rep.evaluations += 1;
        }
        if let Some(v) = v {
            if v.what.starts_with("MACHINERY") {
                return Err(v.what);
            }
            rep.add_count("failing_runs", 1);
            if rep.violations.len() < 80 {
                rep.violations.push(v);
            }
        }
    }
    rep.distinct_nontrivial = rep.evaluations;
    // wide models: counts beyond 2^53 and 2^64
    for (model, print) in [("synthetic:chain60", "summary"), ("synthetic:chain70", "summary"), ("synthetic:chain70", "with-progress"), ("synthetic:chain58p", "summary")] {
        rep.evaluations += 1;
        if let Some(w) = check_wide(model, print)? {
            rep.violations.push(Violation { case: json!({"kind": "cli", "wide": model, "print": print, "net": by_name(&nets, "con2").spec}), what: w, size: 3 });
        }
    }
    // failure configurations
    let failures = [
        "missing model", "corrupt model", "model without any valid colour", "model with unknown extension", "missing formula file", "invalid formula", "free variable", "unknown proposition", "wild-card without -e",
        "missing context label", "missing context archive", "context archive is not a zip", "wrong print option", "empty formula file",
        "formula file with a non-UTF-8 byte in a comment", "formula file with a non-UTF-8 byte in a formula", "formula file with a non-UTF-8 byte in its first line", "formula path is a directory", "invalid formula after valid ones", "invalid formula between valid ones", "unknown proposition between valid ones",
    ];
    let b = by_name(&nets, "con2");
    for w in failures {
        for p in ["", "no-print", "summary", "with-progress", "exhaustive"] {
            let full = if p.is_empty() { w.to_string() } else { format!("{w} @ {p}") };
            rep.evaluations += 1;
            if let Some(what) = check_failure(&b, &full) {
                rep.violations.push(Violation { case: json!({"kind": "cli", "net": b.spec, "failure": full}), what: if p.is_empty() { what } else { format!("[-p {p}] {what}") }, size: 1 });
            }
        }
    }
    rep.set("failure_configurations", json!(failures));
    rep.sample(json!({"network": "con2", "format": "sbml", "layout": 6, "print": "exhaustive", "-o": true, "formulae": plain_lists[1]}));
    rep.sample(json!({"formula_file_layout_6": formula_file(&plain_lists[2], 6)}));
    rep.rule = format!("the hctl-model-checker binary built from the working tree is executed on {which:?} x model format (aeon, bnet, sbml where the format reproduces the network) x {LAYOUTS} formula-file layouts (comments, blank lines, surrounding blanks/tabs, CRLF, no final newline, mixed) x 4 print options x with/without -o (for odd layouts the output path already holds a much longer result archive of an earlier run on another model) x 4 plain + 2 extended formula lists, plus context archives whose sets are not confined to the valid colours (whole symbolic space, a raw state variable) on constrained networks, plus wide synthetic models (60 / 70 variables: counts beyond 2^53 and 2^64 must be printed as the library's numbers), plus four networks whose variable names are unusual as data (Ca_extra_cell / b_extra_1, x / xx, a / ab, EF1 / TRUE) with five formulae each, plus 24 single-operator formula files (each unary / binary / hybrid operator and pattern in a file of its own) and two formula files with 40 formulae of tied, unsorted heights (context archive with labels p, d, dom_1 written for the k the tool derives), plus context archives written for k-1, k+1, k+2 and 20 failure configurations, each under the default and under every print option (7 of them formula files that cannot be read or parsed completely: the tool must report a problem or evaluate every formula, never a silent prefix, and every result block it does print must carry the numbers of its own formula). Compared: order and text of Formula blocks, printed result/colour/state counts vs exact counts of the library's sets, exhaustive state listing, archive entry list, formulae.txt, every archived BDD vs model_check_multiple_(extended_)formulae_dirty; failures must produce a message and no crash. distinct_nontrivial = executed configurations");
    rep.assumptions.push("counts are compared with exact cardinalities computed from the point-wise read-back of the library's sets on valid colours".into());
    Ok(rep)
}
