//! C15 — sanitised results equal raw results and do not depend on the number of spare variable sets.

use super::common::*;
use crate::bridge::{Bound, Mask};
use crate::formulas::{duplicate_templates, templates, Alphabet, Gen, F};
use crate::oracle::Labels;
use crate::report::{guarded, Report, Violation};
use crate::sweep::{Got, NetCtx};
use biodivine_lib_param_bn::biodivine_std::traits::Set;
use biodivine_lib_param_bn::symbolic_async_graph::{GraphColoredVertices, SymbolicAsyncGraph, SymbolicContext};
use rayon::prelude::*;
use serde_json::{json, Value};
use std::panic::AssertUnwindSafe;
use std::sync::Arc;

pub struct Env {
    /// Some(kept colours) if the graphs' unit sets are restricted to a subset of the valid colours
    pub keep: Option<Vec<usize>>,
    /// canonical-context BDD of the (restricted) unit set, built independently of the sanitiser
    pub canon_unit: biodivine_lib_bdd::Bdd,
    /// contexts for k = 0..=6 (same network, same labels = none)
    pub ctxs: Vec<NetCtx>,
    pub plain_graph: SymbolicAsyncGraph,
    pub plain_ctx: SymbolicContext,
}

impl Env {
    pub fn new(b0: &Bound) -> Result<Env, String> {
        Self::new_restricted(b0, None)
    }

    /// `keep`: restrict the unit set of every graph to these valid colours (SymbolicAsyncGraph::restrict).
    pub fn new_restricted(b0: &Bound, keep: Option<Vec<usize>>) -> Result<Env, String> {
        let mut ctxs = vec![];
        for k in 0..=6u16 {
            let b = Bound::new_opt(&b0.name, &b0.spec, k, false).map_err(|e| format!("{e:?}"))?;
            let b = match &keep {
                Some(kp) => b.restrict_colours(kp),
                None => b,
            };
            ctxs.push(NetCtx::new(Arc::new(b), Labels::default(), "none"));
        }
        let plain_graph = SymbolicAsyncGraph::new(&b0.bn)?;
        let plain_ctx = SymbolicContext::new(&b0.bn)?;
        let full = Bound::new_opt(&b0.name, &b0.spec, 0, false).map_err(|e| format!("{e:?}"))?;
        let mut masks = vec![0; full.cols.len()];
        for c in 0..full.cols.len() {
            if keep.as_ref().map(|k| k.contains(&c)).unwrap_or(true) {
                masks[c] = crate::bridge::full_mask(full.n);
            }
        }
        let canon_unit = full.mk_set_in(&plain_graph, &masks).as_bdd().clone();
        Ok(Env { keep, canon_unit, ctxs, plain_graph, plain_ctx })
    }
}

/// A sanitised result must BE a set of the canonical context, not only carry the right BDD: its projections and sizes
/// (which go through the set's own lists of state / parameter variables) must be those of the same BDD wrapped with the
/// canonical context.
pub fn set_api_problem(clean: &GraphColoredVertices, canon: &biodivine_lib_param_bn::symbolic_async_graph::SymbolicContext) -> Option<String> {
    use biodivine_lib_param_bn::biodivine_std::traits::Set;
    let reference = GraphColoredVertices::new(clean.as_bdd().clone(), canon);
    let r = guarded(AssertUnwindSafe(|| {
        if clean.colors().as_bdd() != reference.colors().as_bdd() {
            return Some("colors() of the sanitised result is not the colour projection of its BDD in the canonical context".to_string());
        }
        if clean.vertices().as_bdd() != reference.vertices().as_bdd() {
            return Some("vertices() of the sanitised result is not the state projection of its BDD in the canonical context".to_string());
        }
        if clean.approx_cardinality() != reference.approx_cardinality() || clean.exact_cardinality() != reference.exact_cardinality() {
            return Some(format!("cardinality of the sanitised result is {} / {}, of its BDD in the canonical context {} / {}", clean.approx_cardinality(), clean.exact_cardinality(), reference.approx_cardinality(), reference.exact_cardinality()));
        }
        if clean.is_singleton() != reference.is_singleton() || clean.is_empty() != reference.is_empty() {
            return Some("is_singleton() / is_empty() of the sanitised result differ from those of its BDD in the canonical context".to_string());
        }
        if clean.pick_singleton().as_bdd() != reference.pick_singleton().as_bdd() {
            return Some("pick_singleton() of the sanitised result differs from that of its BDD in the canonical context".to_string());
        }
        None
    }));
    match r {
        Ok(v) => v,
        Err(p) => Some(format!("using the sanitised result through the set API panics: {p}")),
    }
}

pub fn check(env: &Env, f: &F) -> Vec<String> {
    let d = f.qdepth();
    let text = f.show(&env.ctxs[0].user);
    let mut bad = vec![];
    let mut first: Option<GraphColoredVertices> = None;
    let expected: Vec<Mask> = env.ctxs[0].expected(f);
    for k in [d, d + 1, d + 3] {
        let ctx = &env.ctxs[k];
        let (dirty, clean) = (ctx.formula_dirty(&text), ctx.formula(&text));
        let (dirty, clean) = match (dirty, clean) {
            (Got::Set(a), Got::Set(b)) => (a, b),
            (a, b) => {
                bad.push(format!("k={k}: evaluation fails: dirty {a:?} / sanitised {b:?}"));
                continue;
            }
        };
        // inside the graph's (possibly restricted) unit set
        if ctx.b.outside_unit(&dirty) {
            bad.push(format!("k={k}: raw result is not a subset of the graph's unit set"));
        }
        if ctx.is_canonical_shape(&clean) && !clean.as_bdd().and_not(&env.canon_unit).is_false() {
            bad.push(format!("k={k}: sanitised result contains (state, colour) pairs outside the graph's unit set{}", if env.keep.is_some() { " (the graph is restricted to a subset of the colours)" } else { "" }));
        }
        // sanitised == raw, point-wise on every state x valid colour
        let dm = ctx.b.masks_of(&dirty);
        if !ctx.is_canonical_shape(&clean) {
            bad.push(format!("k={k}: sanitised result has {} BDD variables, the canonical encoding has {}", clean.as_bdd().num_vars(), ctx.canon.bdd_variable_set().num_vars()));
            continue;
        }
        if let Some(w) = set_api_problem(&clean, &ctx.canon) {
            bad.push(format!("k={k}: {w}"));
        }
        let cm = ctx.masks_of_canonical(&clean);
        if dm != cm {
            bad.push(format!("k={k}: sanitised result differs from the raw result: raw {dm:?} sanitised {cm:?}"));
        }
        if cm != expected {
            bad.push(format!("k={k}: result differs from the explicit-state oracle: {cm:?} vs {expected:?}"));
        }
        // canonical encoding: same variable count and names as SymbolicContext::new(bn)
        let vs = env.plain_ctx.bdd_variable_set();
        let cs = ctx.canon.bdd_variable_set();
        if vs.num_vars() != clean.as_bdd().num_vars() || vs.variables().iter().any(|v| vs.name_of(*v) != cs.name_of(*v)) {
            bad.push(format!("k={k}: sanitised result is not expressed over the variables of SymbolicContext::new(network)"));
            continue;
        }
        // compatible with a graph built directly from the network: subset of its unit set, usable in pre/post
        let as_plain = GraphColoredVertices::new(clean.as_bdd().clone(), env.plain_graph.symbolic_context());
        if !as_plain.is_subset(env.plain_graph.unit_colored_vertices()) {
            bad.push(format!("k={k}: sanitised result is not a subset of the unit set of SymbolicAsyncGraph::new(network)"));
        }
        match guarded(AssertUnwindSafe(|| env.plain_graph.pre(&as_plain).union(&env.plain_graph.post(&as_plain)).approx_cardinality())) {
            Ok(_) => {}
            Err(p) => bad.push(format!("k={k}: using the sanitised result with SymbolicAsyncGraph::new(network) panics: {p}")),
        }
        // independent of k: identical BDDs
        match &first {
            None => first = Some(clean),
            Some(fst) => {
                if fst != &clean {
                    bad.push(format!("sanitised result for k={k} differs from the one for k={d}"));
                }
            }
        }
    }
    bad
}

pub fn replay(case: &Value) -> Option<String> {
    if case["kind"] == "c15big" {
        let v = job(case);
        if let Some(e) = v.get("error") {
            return Some(format!("job error: {e}"));
        }
        return v["problems"].as_array().and_then(|a| a.first()).map(|p| p.as_str().unwrap_or("").to_string());
    }
    if case["kind"] == "sanitize_history" {
        let first: crate::nets::NetSpec = serde_json::from_value(case["first"].clone()).ok()?;
        let a = Bound::new("first", &first, 1).ok()?;
        for w in case["warm"].as_array()? {
            let _ = guarded(AssertUnwindSafe(|| biodivine_hctl_model_checker::model_checking::model_check_formula(w.as_str().unwrap_or("a"), &a.graph)));
        }
    }
    let spec = serde_json::from_value(case["net"].clone()).ok()?;
    let b = Bound::new("replay", &spec, 0).ok()?;
    let keep: Option<Vec<usize>> = case.get("keep").and_then(|k| serde_json::from_value(k.clone()).ok());
    let env = Env::new_restricted(&b, keep).ok()?;
    let f: F = serde_json::from_value(case["formula"].clone()).ok()?;
    let bad = check(&env, &f);
    if bad.is_empty() {
        None
    } else {
        Some(bad.join(" | "))
    }
}

fn short(g: &Got) -> String {
    match g {
        Got::Set(_) => "a set".into(),
        Got::Err(e) => format!("Err({e})"),
        Got::Panic(p) => format!("panic({p})"),
    }
}

pub fn run(tier: &str) -> Result<Report, String> {
    let mut rep = Report::new("C15", tier, "model_checking");
    std_assumptions(&mut rep);
    let nets = core_nets(0)?;
    let (m, pool, which): (usize, usize, Vec<String>) = if tier == "quick" { (3, 2, ["con2", "asy2", "inp2", "imp3"].iter().map(|s| s.to_string()).collect()) } else { (4, 5, nets.iter().map(|b| b.name.clone()).collect()) };
    // plus a network whose variable names look like the auxiliary variables' names
    let mut nets = nets;
    let named: Vec<_> = name_nets(0)?.into_iter().chain(decl_nets(0)?).collect();
    let which: Vec<String> = which.into_iter().chain(named.iter().map(|b| b.name.clone())).collect();
    nets.extend(named);
    for b in nets.iter().filter(|b| which.contains(&b.name)) {
        crate::sem::note_network(&mut rep, b);
        let env = Env::new(b)?;
        let mut g = Gen::new(Alphabet::all_ops(env.ctxs[0].nprops(), 3));
        let mut fs = g.closed_up_to(m);
        fs.extend(templates(&env.ctxs[0].user, false, pool));
        fs.extend(crate::formulas::op_nest_family(env.ctxs[0].nprops()));
        fs.extend(duplicate_templates(env.ctxs[0].nprops(), if tier == "quick" { 4 } else { 5 }, true, false));
        if b.n == 2 && b.spec.vars[0] == "a" && (tier != "quick" || b.name == "con2") {
            fs.extend(crate::formulas::pair_family(&crate::formulas::plain_pool(&env.ctxs[0].user), if tier == "quick" { 4 } else { 10 }, false));
        }
        let bad: Vec<Violation> = fs
            .par_iter()
            .filter_map(|f| {
                let bad = check(&env, f);
                if bad.is_empty() {
                    None
                } else {
                    Some(Violation { case: json!({"kind": "sanitize", "net": b.spec, "aeon": b.aeon, "formula": f, "text": f.show(&env.ctxs[0].user)}), what: format!("formula {} on {}: {}", f.show(&env.ctxs[0].user), b.name, bad.join(" | ")), size: f.size() })
                }
            })
            .collect();
        rep.evaluations += fs.len() as u64 * 6;
        rep.traces_validated += fs.len() as u64 * 3 * b.cols.len() as u64;
        rep.distinct_nontrivial += fs.len() as u64;
        rep.add_count("formulae_x_networks", fs.len() as u64);
        rep.add_count("failing_formulae", bad.len() as u64);
        rep.violations.extend(bad.into_iter().take(40));
        // the same on graphs whose unit set is restricted to every second valid colour
        if b.cols.len() >= 2 {
            let keep: Vec<usize> = (0..b.cols.len()).step_by(2).collect();
            let env = Env::new_restricted(b, Some(keep.clone()))?;
            let fs2: Vec<F> = fs.iter().filter(|f| f.size() <= 3 || f.qdepth() >= 2).take(if tier == "quick" { 3000 } else { 30000 }).cloned().collect();
            let bad: Vec<Violation> = fs2
                .par_iter()
                .filter_map(|f| {
                    let bad = check(&env, f);
                    if bad.is_empty() {
                        None
                    } else {
                        Some(Violation { case: json!({"kind": "sanitize", "net": b.spec, "aeon": b.aeon, "keep": keep, "formula": f, "text": f.show(&env.ctxs[0].user)}), what: format!("formula {} on {} restricted to colours {:?}: {}", f.show(&env.ctxs[0].user), b.name, keep, bad.join(" | ")), size: f.size() })
                    }
                })
                .collect();
            rep.evaluations += fs2.len() as u64 * 6;
            rep.distinct_nontrivial += fs2.len() as u64;
            rep.add_count("formulae_x_colour_restricted_networks", fs2.len() as u64);
            rep.violations.extend(bad.into_iter().take(20));
        }
    }
    // MANY spare variable sets (k = 11, 12, 21: two-digit indices `_extra_10`, `_extra_11`, ...): the sanitised result must be the
    // one obtained with k = nesting depth, the raw one independent of every spare variable
    {
        let mut n_many = 0u64;
        for b in nets.iter().filter(|b| ["con2", "asy2", "cyc3"].contains(&b.name.as_str())) {
            let base = Env::new(b)?;
            let mut fs: Vec<F> = templates(&base.ctxs[0].user, false, if tier == "quick" { 4 } else { 8 });
            fs.extend(Gen::new(Alphabet::plain(base.ctxs[0].nprops(), 2)).closed_up_to(3).into_iter().filter(|f| f.qdepth() >= 1));
            for k in if tier == "quick" { vec![12u16] } else { vec![11u16, 12, 21] } {
                let many = Arc::new(crate::bridge::Bound::new_opt(&b.name, &b.spec, k, false).map_err(|e| format!("{e:?}"))?);
                let cm = NetCtx::new(many.clone(), crate::oracle::Labels::default(), "none");
                let bad: Vec<Violation> = fs
                    .par_iter()
                    .filter_map(|f| {
                        let text = f.show(&cm.user);
                        let d = f.qdepth();
                        let what = match (cm.formula(&text), cm.formula_dirty(&text), base.ctxs[d].formula(&text)) {
                            (Got::Set(a), Got::Set(raw), Got::Set(c)) => {
                                if a.as_bdd() != c.as_bdd() {
                                    Some(format!("the sanitised result with k={k} differs from the one with k={d}"))
                                } else if many.depends_on_extras(&raw) {
                                    Some(format!("the raw result with k={k} depends on spare variables"))
                                } else {
                                    None
                                }
                            }
                            (a, raw, c) => Some(format!("evaluation fails: k={k} sanitised {} / raw {} / k={d} {}", short(&a), short(&raw), short(&c))),
                        };
                        what.map(|w| Violation { case: json!({"kind": "none"}), what: format!("formula {text} on {}: {w}", b.name), size: f.size() })
                    })
                    .collect();
                n_many += fs.len() as u64;
                rep.violations.extend(bad.into_iter().take(10));
            }
        }
        rep.evaluations += n_many * 3;
        rep.add_count("formulae_x_graphs_with_many_spare_sets", n_many);
    }
    // "all graphs with k >= nesting depth spare variable sets": the number of spare variables may differ from network
    // variable to network variable (SymbolicContext::with_extra_state_variables takes a per-variable map); raw and sanitised
    // results must equal those on the uniform graph with the minimal count
    {
        let mut n_non = 0u64;
        for b in nets.iter().filter(|b| b.n >= 2 && which.contains(&b.name)) {
            let nm = crate::formulas::Names::user(&[b.spec.vars[0].clone(), b.spec.vars[b.n - 1].clone()]);
            let mut fs = Gen::new(Alphabet::plain(2, 2)).closed_up_to(3);
            fs.extend(templates(&nm, false, if tier == "quick" { 2 } else { 5 }));
            let texts: Vec<String> = fs.iter().map(|f| f.show(&nm)).collect();
            let depth = |t: &str| crate::refparser::parse_str(t, false).map(|x| x.qdepth()).unwrap_or(99);
            n_non += texts.len() as u64;
            for w in nonuniform_check(b, &texts, &depth) {
                if w.starts_with("harness:") {
                    return Err(w);
                }
                rep.violations.push(Violation { case: json!({"kind": "none"}), what: format!("on {}: {w}", b.name), size: 30 });
            }
        }
        rep.evaluations += n_non * 4 * 7;
        rep.add_count("formulae_x_networks_on_graphs_with_per_variable_spare_counts", n_non);
    }
    // the multi-formula entry points: every ordered pair and triple of a pool of formulae of
    // different heights: sanitised[i] must equal raw[i] (and the oracle) position by position
    {
        use biodivine_hctl_model_checker::model_checking as mc;
        let b = by_name(&nets, "con2");
        let env = Env::new(&b)?;
        let ctx = &env.ctxs[2];
        let pool: Vec<F> = ["a", "~ b", "EX (a & b)", "AG (EF (~ a))", "!{x}: AX {x}", "!{x}: 3{y}: (@{x}: EF {y})", "EF (AG (a | EX b))", "3{x}: @{x}: (a & AX {x})"].iter().map(|t| crate::formulas::f(t, &ctx.user)).collect();
        let texts: Vec<String> = pool.iter().map(|f| f.show(&ctx.user)).collect();
        let expected: Vec<Vec<Mask>> = pool.iter().map(|f| ctx.expected(f)).collect();
        let n = pool.len();
        let mut lists: Vec<Vec<usize>> = vec![];
        for l in 2..=3usize {
            for mut code in 0..n.pow(l as u32) {
                let mut v = vec![];
                for _ in 0..l {
                    v.push(code % n);
                    code /= n;
                }
                lists.push(v);
            }
        }
        // lists of four and five with every repetition pattern over three / four distinct formulae ([A, B, A, C], [A, A, B, C, B], ...)
        for pat in [[0usize, 1, 0, 2, 9], [0, 1, 1, 2, 9], [0, 1, 2, 0, 9], [0, 1, 2, 1, 9], [0, 0, 1, 2, 9], [0, 1, 0, 2, 1], [0, 1, 0, 1, 2], [0, 0, 1, 1, 2], [0, 1, 2, 0, 3], [0, 1, 0, 2, 3]] {
            for base in 0..n {
                let v: Vec<usize> = pat.iter().filter(|x| **x != 9).map(|x| (base + x * 3) % n).collect();
                lists.push(v);
            }
        }
        let bad: Vec<Violation> = lists
            .par_iter()
            .filter_map(|l| {
                let ts: Vec<&str> = l.iter().map(|i| texts[*i].as_str()).collect();
                let r = guarded(AssertUnwindSafe(|| (mc::model_check_multiple_formulae(ts.clone(), &ctx.b.graph), mc::model_check_multiple_formulae_dirty(ts.clone(), &ctx.b.graph), mc::_model_check_multiple_formulae(ts.clone(), &ctx.b.graph, &mut |_, _| {}))));
                let what = match r {
                    Ok((Ok(clean), Ok(dirty), Ok(clean2))) => {
                        let mut w = None;
                        if clean.len() != l.len() || dirty.len() != l.len() || clean2.len() != l.len() {
                            w = Some("wrong number of results".to_string());
                        } else {
                            for (pos, idx) in l.iter().enumerate() {
                                let cm = ctx.masks_of_canonical(&clean[pos]);
                                let dm = ctx.b.masks_of(&dirty[pos]);
                                if cm != dm || cm != expected[*idx] || clean2[pos] != clean[pos] {
                                    w = Some(format!("position {pos} ({}): sanitised {:?}, raw {:?}, oracle {:?}", texts[*idx], cm, dm, expected[*idx]));
                                    break;
                                }
                                if let Some(p) = set_api_problem(&clean[pos], &ctx.canon).or_else(|| set_api_problem(&clean2[pos], &ctx.canon)) {
                                    w = Some(format!("position {pos} ({}): {p}", texts[*idx]));
                                    break;
                                }
                            }
                        }
                        w
                    }
                    Ok(other) => Some(format!("an entry point returned Err: {:?}", (other.0.map(|_| "ok"), other.1.map(|_| "ok"), other.2.map(|_| "ok")))),
                    Err(p) => Some(format!("panic: {p}")),
                };
                what.map(|w| Violation { case: json!({"kind": "none"}), what: format!("model_check_multiple_formulae vs _dirty on {ts:?} (con2, k=2): {w}"), size: 1000 + l.len() })
            })
            .collect();
        rep.evaluations += lists.len() as u64 * 3;
        rep.distinct_nontrivial += lists.len() as u64;
        rep.set("multi_formula_lists", json!(lists.len()));
        rep.violations.extend(bad.into_iter().take(20));
    }
    // histories: networks with the same variable names and the same explicit parameter (one unary symbol f)
    // but f attached to another variable / other functions; every ordered pair on one fresh OS thread:
    // sanitising calls on the first network, then the full C15 obligations on the second
    {
        let texts = [
            "c -?? a; a -?? b; b -?? c; $a: f(c); $b: a; $c: b",
            "c -?? a; a -?? b; b -?? c; $a: c; $b: f(a); $c: b",
            "c -?? a; a -?? b; b -?? c; $a: c; $b: a; $c: f(b)",
            "c -?? a; a -?? b; b -?? c; $a: !c; $b: f(a); $c: b",
            "c -?? a; a -?? b; b -?? c; $a: c; $b: !a; $c: f(b)",
        ];
        let mut hn: Vec<Arc<Bound>> = vec![];
        for (i, t) in texts.iter().enumerate() {
            hn.push(Arc::new(bind(&format!("sig{i}"), &crate::nets::spec(t), 0)?));
        }
        let ftexts = ["a", "c", "a & ~c", "!{x}: AX {x}", "!{x}: EX ~{x}", "3{x}: @{x}: (c & EX ~c)", "!{x}: 3{y}: (@{y}: a & EF {x})"];
        let warm = ["a", "!{x}: AX {x}", "EF c", "3{x}: @{x}: AX {x}"];
        let mut pairs = vec![];
        for i in 0..hn.len() {
            for j in 0..hn.len() {
                if i != j && (tier != "quick" || (i + j) % 2 == 1) {
                    pairs.push((hn[i].clone(), hn[j].clone()));
                }
            }
        }
        let n_pairs = pairs.len();
        let bad: Vec<Violation> = pairs
            .into_par_iter()
            .filter_map(|(a, b)| {
                std::thread::spawn(move || {
                    let ga = a.graph_with_k(1);
                    for w in warm {
                        let _ = guarded(AssertUnwindSafe(|| biodivine_hctl_model_checker::model_checking::model_check_formula(w, &ga)));
                    }
                    let env = match Env::new(&b) {
                        Ok(e) => e,
                        Err(e) => return Some(Violation { case: json!({"kind": "machinery"}), what: format!("MACHINERY: cannot build the graphs of the second network: {e}"), size: 0 }),
                    };
                    for t in ftexts {
                        let f = crate::formulas::f(t, &env.ctxs[0].user);
                        let bad = check(&env, &f);
                        if !bad.is_empty() {
                            return Some(Violation {
                                case: json!({"kind": "sanitize_history", "first": a.spec, "net": b.spec, "aeon": b.aeon, "formula": f, "warm": warm}),
                                what: format!("after sanitising calls on [{}] on the same thread, formula {t} on [{}]: {}", a.aeon.replace('\n', "; "), b.aeon.replace('\n', "; "), bad.join(" | ")),
                                size: f.size(),
                            });
                        }
                    }
                    None
                })
                .join()
                .unwrap_or_else(|_| Some(Violation { case: json!({"kind": "machinery"}), what: "MACHINERY: history thread panicked".into(), size: 0 }))
            })
            .collect();
        if bad.iter().any(|v| v.what.starts_with("MACHINERY")) {
            return Err("a two-network history thread of the harness panicked".into());
        }
        rep.evaluations += (n_pairs * ftexts.len() * 6) as u64;
        rep.add_count("two_network_histories", n_pairs as u64);
        rep.violations.extend(bad.into_iter().take(20));
    }
    // the extended entry points: context sets inside the valid colours AND raw ones (whole symbolic space, a raw
    // state variable): the sanitised result is the raw result moved to the canonical context (lib-param-bn's
    // transfer_from as the independent reference), single and batch entry points, k = 1, 2, 4
    {
        use biodivine_hctl_model_checker::model_checking as mc;
        use std::collections::HashMap;
        for b in nets.iter().filter(|b| ["con2", "unf2", "inp2", "imp1"].contains(&b.name.as_str())) {
            let fams = crate::sweep::label_families(b, 1);
            let v0 = b.spec.vars[0].clone();
            let texts: Vec<String> = vec!["%raw%".into(), format!("%rawa% | {v0}"), "EF %rawa%".into(), "~ %rawa%".into(), "%p% & %rawa%".into(), "%p%".into(), "AX %p%".into(), "!{x} in %rawa%: AX ({x} | %p%)".into(), "3{x} in %p%: @{x}: %raw%".into()];
            for k in [1u16, 2, 4] {
                let g = b.graph_with_k(k);
                let sc = g.symbolic_context();
                let sets: HashMap<String, GraphColoredVertices> = HashMap::from([
                    ("raw".to_string(), GraphColoredVertices::new(sc.mk_constant(true), sc)),
                    ("rawa".to_string(), GraphColoredVertices::new(sc.mk_state_variable_is_true(g.variables().next().unwrap()), sc)),
                    ("p".to_string(), b.mk_set_in(&g, &fams[0].1.wild[0])),
                ]);
                let canon = sc.as_canonical_context();
                let ts: Vec<&str> = texts.iter().map(|s| s.as_str()).collect();
                let r = guarded(AssertUnwindSafe(|| (mc::model_check_multiple_extended_formulae(ts.clone(), &g, &sets), mc::model_check_multiple_extended_formulae_dirty(ts.clone(), &g, &sets))));
                rep.evaluations += texts.len() as u64 * 4;
                let mut what: Option<String> = None;
                match r {
                    Ok((Ok(clean), Ok(dirty))) if clean.len() == texts.len() && dirty.len() == texts.len() => {
                        for i in 0..texts.len() {
                            let single = guarded(AssertUnwindSafe(|| mc::model_check_extended_formula(&texts[i], &g, &sets)));
                            let moved = canon.transfer_from(dirty[i].as_bdd(), sc);
                            match (moved, single) {
                                (Some(m), Ok(Ok(sg))) => {
                                    if &m != clean[i].as_bdd() {
                                        what = Some(format!("`{}` (k={k}, batch position {i}): sanitised result has {} elements, the raw result {}", texts[i], clean[i].exact_cardinality(), dirty[i].exact_cardinality()));
                                    } else if &m != sg.as_bdd() {
                                        what = Some(format!("`{}` (k={k}): model_check_extended_formula has {} elements, the raw result {}", texts[i], sg.exact_cardinality(), dirty[i].exact_cardinality()));
                                    } else if let Some(w) = set_api_problem(&clean[i], &canon).or_else(|| set_api_problem(&sg, &canon)) {
                                        what = Some(format!("`{}` (k={k}): {w}", texts[i]));
                                    }
                                }
                                (None, _) => what = Some(format!("`{}` (k={k}): the raw result cannot be expressed over the canonical variables", texts[i])),
                                (_, other) => what = Some(format!("`{}` (k={k}): model_check_extended_formula fails: {:?}", texts[i], other.map(|x| x.map(|_| "ok")))),
                            }
                            if what.is_some() {
                                break;
                            }
                        }
                    }
                    other => what = Some(format!("k={k}: extended batch evaluation fails: {:?}", other.map(|x| (x.0.map(|v| v.len()), x.1.map(|v| v.len()))))),
                }
                if let Some(w) = what {
                    rep.violations.push(Violation { case: json!({"kind": "none"}), what: format!("extended entry points on {} with context sets raw / rawa / p: {w}", b.name), size: 20 });
                }
            }
        }
    }
    // wide models (more than 2^53 state x colour pairs), in child processes
    {
        let mut jobs = vec![];
        for m in ["synthetic:chain60", "synthetic:gated44", "synthetic:chain58p"] {
            for k in [1u64, 3] {
                jobs.push(json!({"kind": "c15big", "model": m, "k": k}));
            }
        }
        let limit = if tier == "quick" { 45.0 } else { 600.0 };
        let results: Vec<(Value, crate::jobs::JobResult)> = jobs.par_iter().map(|j| (j.clone(), crate::jobs::run(j, limit))).collect();
        let mut wide = vec![];
        for (j, r) in results {
            match r {
                crate::jobs::JobResult::Done(v) => {
                    if let Some(e) = v.get("error") {
                        return Err(format!("wide model job {j}: {e}"));
                    }
                    rep.evaluations += v["cases"].as_u64().unwrap_or(0) * 2;
                    for p in v["problems"].as_array().cloned().unwrap_or_default() {
                        rep.violations.push(Violation { case: json!({"kind": "c15big", "model": j["model"], "k": j["k"]}), what: format!("on {}: {}", j["model"].as_str().unwrap_or(""), p.as_str().unwrap_or("")), size: 60 });
                    }
                    wide.push(json!({"model": j["model"], "k": j["k"], "cases": v["cases"], "pairs_log2": v["pairs_log2"], "wall_s": v["wall_s"]}));
                }
                crate::jobs::JobResult::Timeout => rep.cap(format!("job {j} exceeded {limit}s and was stopped (no verdict)")),
                crate::jobs::JobResult::Crashed(e) => return Err(format!("wide model job {j} crashed: {e}")),
            }
        }
        rep.set("wide_models", json!(wide));
    }
    rep.sample(json!({"network": "con2", "formula": "(!{x}: (3{y}: ((@{x}: (AX {y})) & (EF {x}))))", "k": [2, 3, 5], "check": "model_check_formula == model_check_formula_dirty point-wise; BDD over the variables of SymbolicContext::new; identical for all k; usable with SymbolicAsyncGraph::new"}));
    rep.rule = format!("every closed plain formula with <= {m} nodes and every plain template formula and the two-operator nest family (every binary operator over every unary operator in either operand position, also with a state variable or a closed fixed-point sub-formula inside) on {which:?} (including networks with unusual names and three networks built programmatically with variables declared in non-lexicographic order), on graphs with k = d, d+1, d+3 spare variable sets (d = quantifier nesting depth): sanitised result == raw result on every state x valid colour == explicit-state oracle; expressed over exactly the variables of SymbolicContext::new(network) and a proper set of that context (colors(), vertices(), cardinalities, pick_singleton() equal those of its BDD wrapped with the canonical context); subset of and usable with SymbolicAsyncGraph::new(network); BDD-identical for all k; every multi-colour network additionally with the unit set of the graph restricted (SymbolicAsyncGraph::restrict) to every second valid colour, where raw and sanitised results must also stay inside the restricted unit set; and every ordered pair and triple over a pool of 8 formulae of different heights through model_check_multiple_formulae vs model_check_multiple_formulae_dirty, position by position; plus two-network histories (ordered pairs of 5 networks with identical variable names and parameter signature, sanitising calls on the first, then all obligations for 7 formulae on the second, on one fresh OS thread); plus the extended entry points with context sets inside and outside the valid colours (9 formulae, k = 1, 2, 4, single and batch) against lib-param-bn's transfer of the raw result; plus wide synthetic models (> 2^53 pairs; results that are everything but one state, single states, ...): sanitised == raw result transferred to the canonical context by lib-param-bn, single and batch entry points, k = 1, 3. distinct_nontrivial = number of (formula, network) pairs");
    Ok(rep)
}

/// Child job: wide model (more than 2^53 pairs): sanitised result == raw result moved to the canonical
/// context with lib-param-bn's `transfer_from` (no sanitising code of the library involved).
pub fn job(job: &Value) -> Value {
    use biodivine_hctl_model_checker::model_checking as mc;
    let t0 = std::time::Instant::now();
    let name = job["model"].as_str().unwrap_or("");
    let k = job["k"].as_u64().unwrap_or(1) as u16;
    let big = match crate::bigmodels::load(name, k) {
        Ok(b) => b,
        Err(e) => return json!({"error": e}),
    };
    let g = &big.graph;
    let names = big.var_names();
    let cube = names.join(" & ");
    let zero = names.iter().map(|n| format!("~{n}")).collect::<Vec<_>>().join(" & ");
    let texts = vec![
        "True".to_string(),
        "False".to_string(),
        format!("~({cube})"),
        format!("({cube})"),
        format!("~({zero})"),
        format!("({cube}) | ({zero})"),
        format!("!{{x}}: (AX {{x}} & ~({cube}))"),
        format!("3{{x}}: @{{x}}: ~({cube})"),
        format!("!{{x}}: ({{x}} | ~({zero}))"),
        names[0].clone(),
    ];
    let canon = g.symbolic_context().as_canonical_context();
    let mut problems = vec![];
    let mut cases = 0u64;
    let mut check_pair = |what: String, clean: &GraphColoredVertices, dirty: &GraphColoredVertices, problems: &mut Vec<String>| {
        cases += 1;
        match canon.transfer_from(dirty.as_bdd(), g.symbolic_context()) {
            Some(b) => {
                if &b != clean.as_bdd() {
                    problems.push(format!("{what}: sanitised result has {} elements, the raw result {} (BDD sizes {} / {})", clean.exact_cardinality(), dirty.exact_cardinality(), clean.as_bdd().size(), b.size()));
                }
            }
            None => problems.push(format!("{what}: the raw result cannot be expressed over the canonical variables")),
        }
    };
    for t in &texts {
        let r = guarded(AssertUnwindSafe(|| (mc::model_check_formula(t, g), mc::model_check_formula_dirty(t, g))));
        match r {
            Ok((Ok(c), Ok(d))) => check_pair(format!("model_check_formula on `{}` (k={k})", crate::report::truncate(t, 60)), &c, &d, &mut problems),
            other => problems.push(format!("`{}`: evaluation fails: {:?}", crate::report::truncate(t, 60), other.map(|x| (x.0.map(|_| "ok"), x.1.map(|_| "ok"))))),
        }
    }
    // the batch entry points, all formulae at once
    let ts: Vec<&str> = texts.iter().map(|s| s.as_str()).collect();
    match guarded(AssertUnwindSafe(|| (mc::model_check_multiple_formulae(ts.clone(), g), mc::model_check_multiple_formulae_dirty(ts.clone(), g)))) {
        Ok((Ok(c), Ok(d))) if c.len() == texts.len() && d.len() == texts.len() => {
            for i in 0..texts.len() {
                check_pair(format!("model_check_multiple_formulae position {i} `{}` (k={k})", crate::report::truncate(&texts[i], 60)), &c[i], &d[i], &mut problems);
            }
        }
        other => problems.push(format!("batch evaluation fails: {:?}", other.map(|x| (x.0.map(|v| v.len()), x.1.map(|v| v.len()))))),
    }
    problems.truncate(6);
    json!({"cases": cases, "problems": problems, "variables": g.num_vars(), "pairs_log2": g.mk_unit_colored_vertices().approx_cardinality().log2(), "wall_s": t0.elapsed().as_secs_f64()})
}
