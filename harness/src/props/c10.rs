//! C10 — pre-computed results can be substituted for closed sub-formulae.

use super::common::*;
use crate::bigmodels;
use crate::formulas::{collision_alphabet, pair_family, templates, Alphabet, Gen, Hy, Names, F};
use crate::oracle::Labels;
use crate::report::{guarded, Budget, Report, Violation};
use crate::sweep::NetCtx;
use biodivine_hctl_model_checker::model_checking as mc;
use biodivine_lib_param_bn::symbolic_async_graph::{GraphColoredVertices, SymbolicAsyncGraph};
use rayon::prelude::*;
use serde_json::{json, Value};
use std::collections::HashMap;
use std::panic::AssertUnwindSafe;
use std::sync::Arc;

/// Is `f` (sitting under `depth` binders) closed, i.e. does it mention no variable bound outside?
fn closed_at(f: &F, depth: u8) -> bool {
    !f.any(|x| match x {
        F::Var(i) => *i < depth,
        F::Hy(Hy::Jump, v, _, _) => *v < depth,
        _ => false,
    })
}

/// Shift all binder levels of a closed sub-formula down by `by` (to make it a top-level formula).
fn shift(f: &F, by: u8) -> F {
    match f {
        F::Var(i) => F::Var(i - by),
        F::Un(o, c) => F::un(*o, shift(c, by)),
        F::Bin(o, l, r) => F::bin(*o, shift(l, by), shift(r, by)),
        F::Hy(o, v, d, c) => F::hy(*o, v - by, *d, shift(c, by)),
        other => other.clone(),
    }
}

/// Paths (child indices) of all closed proper sub-formula occurrences, with their depth.
fn closed_occurrences(f: &F, path: &mut Vec<u8>, depth: u8, out: &mut Vec<(Vec<u8>, u8)>) {
    if !path.is_empty() && closed_at(f, depth) {
        out.push((path.clone(), depth));
    }
    match f {
        F::Un(_, c) => {
            path.push(0);
            closed_occurrences(c, path, depth, out);
            path.pop();
        }
        F::Bin(_, l, r) => {
            path.push(0);
            closed_occurrences(l, path, depth, out);
            path.pop();
            path.push(1);
            closed_occurrences(r, path, depth, out);
            path.pop();
        }
        F::Hy(o, _, _, c) => {
            path.push(0);
            closed_occurrences(c, path, if *o == Hy::Jump { depth } else { depth + 1 }, out);
            path.pop();
        }
        _ => {}
    }
}

fn get<'a>(f: &'a F, path: &[u8]) -> &'a F {
    if path.is_empty() {
        return f;
    }
    match f {
        F::Un(_, c) | F::Hy(_, _, _, c) => get(c, &path[1..]),
        F::Bin(_, l, r) => get(if path[0] == 0 { l } else { r }, &path[1..]),
        _ => unreachable!(),
    }
}

fn replace(f: &F, path: &[u8], with: &F) -> F {
    if path.is_empty() {
        return with.clone();
    }
    match f {
        F::Un(o, c) => F::un(*o, replace(c, &path[1..], with)),
        F::Hy(o, v, d, c) => F::hy(*o, *v, *d, replace(c, &path[1..], with)),
        F::Bin(o, l, r) => {
            if path[0] == 0 {
                F::bin(*o, replace(l, &path[1..], with), (**r).clone())
            } else {
                F::bin(*o, (**l).clone(), replace(r, &path[1..], with))
            }
        }
        _ => unreachable!(),
    }
}

fn nested(a: &[u8], b: &[u8]) -> bool {
    let n = a.len().min(b.len());
    a[..n] == b[..n]
}

/// All substitution cases of `f`: (rewritten formula, [(wild index, replaced closed sub-formula)]).
pub const WILD_OFFSET: u8 = 3; // fresh wild-card labels w0, w1, w2 (p, q, r may occur in the surrounding formula)

pub fn cases(f: &F, max_simultaneous: usize, skip_atoms: bool) -> Vec<(F, Vec<(u8, F)>)> {
    let mut occ = vec![];
    closed_occurrences(f, &mut vec![], 0, &mut occ);
    if skip_atoms {
        occ.retain(|(p, _)| get(f, p).size() > 1);
    }
    let n = occ.len();
    let mut out = vec![];
    let mut pick = |idx: &[usize]| {
        for i in 0..idx.len() {
            for j in i + 1..idx.len() {
                if nested(&occ[idx[i]].0, &occ[idx[j]].0) {
                    return;
                }
            }
        }
        // variant A: a fresh wild-card per replaced occurrence; variant B: occurrences of the same
        // sub-formula share one wild-card label (the label is then requested several times)
        for share in [false, true] {
            let mut g = f.clone();
            let mut subs: Vec<(u8, F)> = vec![];
            let mut shared_any = false;
            for &i in idx.iter() {
                let (p, d) = &occ[i];
                let sub = shift(get(f, p), *d);
                let w = match subs.iter().find(|(_, s)| share && *s == sub) {
                    Some((w, _)) => {
                        shared_any = true;
                        *w
                    }
                    None => {
                        let w = WILD_OFFSET + subs.len() as u8;
                        subs.push((w, sub));
                        w
                    }
                };
                g = replace(&g, p, &F::Wild(w));
            }
            if !share || shared_any {
                out.push((g, subs));
            }
        }
    };
    for a in 0..n {
        pick(&[a]);
        if max_simultaneous >= 2 {
            for b in a + 1..n {
                pick(&[a, b]);
                if max_simultaneous >= 3 {
                    for c in b + 1..n {
                        pick(&[a, b, c]);
                    }
                }
            }
        }
    }
    out
}

fn run_dirty(text: &str, g: &SymbolicAsyncGraph) -> Result<GraphColoredVertices, String> {
    match guarded(AssertUnwindSafe(|| mc::model_check_formula_dirty(text, g))) {
        Ok(Ok(s)) => Ok(s),
        Ok(Err(e)) => Err(format!("Err({e})")),
        Err(p) => Err(format!("panic({p})")),
    }
}
fn run_ext(text: &str, g: &SymbolicAsyncGraph, ctx: &HashMap<String, GraphColoredVertices>) -> Result<GraphColoredVertices, String> {
    match guarded(AssertUnwindSafe(|| mc::model_check_extended_formula_dirty(text, g, ctx))) {
        Ok(Ok(s)) => Ok(s),
        Ok(Err(e)) => Err(format!("Err({e})")),
        Err(p) => Err(format!("panic({p})")),
    }
}

/// Check all substitution cases of one formula on one graph. Returns (#cases, problems).
pub fn check(f: &F, names: &Names, g: &SymbolicAsyncGraph, max_sim: usize, skip_atoms: bool) -> (u64, Vec<String>) {
    check_in(f, names, g, &HashMap::new(), max_sim, skip_atoms)
}

/// Like `check`, for a surrounding formula that may itself use wild-cards / domains bound by `outer`.
pub fn check_in(f: &F, names: &Names, g: &SymbolicAsyncGraph, outer: &HashMap<String, GraphColoredVertices>, max_sim: usize, skip_atoms: bool) -> (u64, Vec<String>) {
    let text = f.show(names);
    let extended = f.uses_wild_or_dom();
    let eval = |t: &str, uses: bool| if uses { run_ext(t, g, outer) } else { run_dirty(t, g) };
    let base = match eval(&text, extended) {
        Ok(s) => s,
        Err(e) => return (1, vec![format!("plain evaluation of {text} fails: {e}")]),
    };
    let mut bad = vec![];
    let mut n = 0;
    // identity: plain formula through the extended entry points with an empty context
    let empty = HashMap::new();
    if !extended {
    for (name, r) in [
        ("model_check_extended_formula_dirty", run_ext(&text, g, &empty)),
        (
            "model_check_multiple_extended_formulae_dirty",
            match guarded(AssertUnwindSafe(|| mc::model_check_multiple_extended_formulae_dirty(vec![text.as_str()], g, &empty))) {
                Ok(Ok(v)) => Ok(v[0].clone()),
                Ok(Err(e)) => Err(format!("Err({e})")),
                Err(p) => Err(format!("panic({p})")),
            },
        ),
    ] {
        n += 1;
        match r {
            Ok(s) if s == base => {}
            Ok(_) => bad.push(format!("{name} with an empty context differs from model_check_formula_dirty on {text}")),
            Err(e) => bad.push(format!("{name} with an empty context fails on {text}: {e}")),
        }
    }
    match guarded(AssertUnwindSafe(|| (mc::model_check_extended_formula(&text, g, &empty), mc::model_check_formula(&text, g)))) {
        Ok((Ok(a), Ok(b))) if a == b => {}
        Ok(_) => bad.push(format!("model_check_extended_formula with an empty context differs from model_check_formula on {text}")),
        Err(p) => bad.push(format!("sanitising entry points panic on {text}: {p}")),
    }
    }
    let mut memo: HashMap<F, Result<GraphColoredVertices, String>> = HashMap::new();
    let mut first_case = true;
    for (g2, subs) in cases(f, max_sim, skip_atoms) {
        n += 1;
        let mut ctx = outer.clone();
        let mut ok = true;
        for (w, sub) in &subs {
            let r = memo.entry(sub.clone()).or_insert_with(|| eval(&sub.show(names), sub.uses_wild_or_dom())).clone();
            match r {
                Ok(s) => {
                    ctx.insert(names.wilds[*w as usize].clone(), s);
                }
                Err(e) => {
                    bad.push(format!("closed sub-formula {} of {text} does not evaluate: {e}", sub.show(names)));
                    ok = false;
                }
            }
        }
        if !ok {
            continue;
        }
        let t2 = g2.show(names);
        match run_ext(&t2, g, &ctx) {
            Ok(s) if s == base => {}
            Ok(_) => bad.push(format!(
                "{t2} with {} gives a different set than {text}",
                subs.iter().map(|(w, s)| format!("%{}% := result of {}", names.wilds[*w as usize], s.show(names))).collect::<Vec<_>>().join(", ")
            )),
            Err(e) => bad.push(format!("{t2} fails: {e}")),
        }
        // the same substitution through the multi-formula entry point, as a list [rewritten, original, True] (three
        // trees of different heights): every position must carry the answer of ITS formula
        if first_case && (f.size() <= 2 || (f.qdepth() >= 2 && f.size() >= 9 && text.len() % 5 == 0)) {
            // (small formulae and the larger templates) ... and with the pre-computed results travelling through a result archive (written with build_result_archive, read
            // back with load_bdd_bundle - the tool's `-o` then `-e` workflow) before they are substituted
            n += 1;
            if let Some(w) = through_bundle(&t2, g, &ctx, &base) {
                bad.push(w);
            }
        }
        if first_case {
            first_case = false;
            n += 1;
            let list = vec![t2.as_str(), text.as_str(), "True"];
            match guarded(AssertUnwindSafe(|| mc::model_check_multiple_extended_formulae_dirty(list.clone(), g, &ctx))) {
                Ok(Ok(v)) if v.len() == 3 => {
                    if v[0] != base || v[1] != base || v[2] != g.mk_unit_colored_vertices() {
                        bad.push(format!("model_check_multiple_extended_formulae_dirty({list:?}): position {} does not carry the result of its formula", if v[0] != base { 0 } else if v[1] != base { 1 } else { 2 }));
                    }
                }
                Ok(Ok(v)) => bad.push(format!("model_check_multiple_extended_formulae_dirty({list:?}) returns {} results", v.len())),
                Ok(Err(e)) => bad.push(format!("model_check_multiple_extended_formulae_dirty({list:?}) fails: {e}")),
                Err(p) => bad.push(format!("model_check_multiple_extended_formulae_dirty({list:?}) panics: {p}")),
            }
        }
        if bad.len() > 3 {
            break;
        }
    }
    (n, bad)
}

/// Evaluate `text` with the context sets written to an archive and loaded back; Some(problem) if the result is not `base`.
fn through_bundle(text: &str, g: &SymbolicAsyncGraph, ctx: &HashMap<String, GraphColoredVertices>, base: &GraphColoredVertices) -> Option<String> {
    use biodivine_hctl_model_checker::generate_output::build_result_archive;
    use biodivine_hctl_model_checker::load_inputs::load_bdd_bundle;
    let dir = tempfile::tempdir().ok()?;
    let path = dir.path().join("precomputed.zip");
    let path_s = path.to_str()?.to_string();
    let model = g.as_network().map(|n| n.to_string()).unwrap_or_default();
    let r = guarded(AssertUnwindSafe(|| -> Result<HashMap<String, GraphColoredVertices>, String> {
        build_result_archive(ctx.clone(), &path_s, &model, vec![]).map_err(|e| format!("writing the archive fails: {e}"))?;
        load_bdd_bundle(&path_s, g.symbolic_context()).map_err(|e| format!("loading the archive fails: {e}"))
    }));
    match r {
        Ok(Ok(loaded)) => match run_ext(text, g, &loaded) {
            Ok(s) if &s == base => None,
            Ok(_) => Some(format!("{text} with the pre-computed results read back from a result archive gives a different set (largest archived set: {} BDD nodes)", ctx.values().map(|s| s.as_bdd().size()).max().unwrap_or(0))),
            Err(e) => Some(format!("{text} with the pre-computed results read back from a result archive fails: {e}")),
        },
        Ok(Err(e)) => Some(format!("pre-computed results through a result archive: {e}")),
        Err(p) => Some(format!("pre-computed results through a result archive: panic: {p}")),
    }
}

/// A pre-computed result that is large as data (OR_i (a_i & b_i) over 13 pairs of a 26-variable frozen network: about 2^13 BDD
/// nodes, more than 100 kB of text) substituted directly and through a result archive.
pub fn check_large_substitution() -> Result<Vec<String>, String> {
    let big = bigmodels::load("synthetic:pairs13", 1)?;
    let g = &big.graph;
    let names = big.var_names();
    let psi = (0..13).map(|i| format!("({} & {})", names[i], names[13 + i])).collect::<Vec<_>>().join(" | ");
    let s = run_dirty(&psi, g)?;
    if s.as_bdd().size() < 8000 {
        return Err(format!("the large sub-formula result only has {} BDD nodes", s.as_bdd().size()));
    }
    let mut bad = vec![];
    for (full, hole) in [
        (format!("EF ({psi}) & ~ {}", names[0]), format!("EF (%w0%) & ~ {}", names[0])),
        (format!("!{{x}}: AX ({{x}} & ~ ({psi}))"), "!{x}: AX ({x} & ~ %w0%)".to_string()),
        (format!("3{{x}}: @{{x}}: (({psi}) & AG ({psi}))"), "3{x}: @{x}: (%w0% & AG %w0%)".to_string()),
    ] {
        let base = run_dirty(&full, g)?;
        let ctx: HashMap<String, GraphColoredVertices> = HashMap::from([("w0".to_string(), s.clone())]);
        match run_ext(&hole, g, &ctx) {
            Ok(r) if r == base => {}
            Ok(_) => bad.push(format!("{hole} with %w0% := a result with {} BDD nodes differs from the full formula", s.as_bdd().size())),
            Err(e) => bad.push(format!("{hole} fails: {e}")),
        }
        if let Some(w) = through_bundle(&hole, g, &ctx, &base) {
            bad.push(w);
        }
    }
    Ok(bad)
}

pub fn big_formulae_count(tier: &str) -> usize {
    if tier == "quick" {
        5
    } else {
        9
    }
}

pub fn big_formula_texts(names: &Names) -> Vec<String> {
    let v0 = &names.props[0];
    let v1 = &names.props[names.props.len() / 2];
    vec![
        "!{x}: AG EF {x}".to_string(),
        "!{x}: AX {x}".to_string(),
        format!("(!{{x}}: AX {{x}}) & EF ({v0} & ~{v1})"),
        format!("3{{x}}: @{{x}}: ((!{{y}}: AX {{y}}) & {v0}) & EF (AG {v1})"),
        "!{x}: 3{y}: ((@{x}: ~{y} & AX {x}) & (@{y}: AX {y}))".to_string(),
        format!("EF (!{{x}}: AX {{x}}) | AG (EF {v0} => EX {v1})"),
        "3{x}: 3{y}: (@{x}: ~{y} & (!{z}: AX {z})) & (@{y}: (!{z}: AX {z}))".to_string(),
        "AF (!{x}: (AX (~{x} & AF {x})))".to_string(),
        format!("AG ((!{{x}}: AX (~{{x}} & AF {{x}})) | ~{v0}) & ({v1} EU (!{{y}}: AG EF {{y}}))"),
        "EF (!{x}: AX {x})".to_string(),
        format!("(~ {v0}) EU ((!{{x}}: AX {{x}}) | {v1})"),
    ]
}

/// Child-process job: one bundled model x one formula.
pub fn job(job: &Value) -> Value {
    let t0 = std::time::Instant::now();
    let name = job["model"].as_str().unwrap_or("");
    let big = match bigmodels::load(name, 3) {
        Ok(b) => b,
        Err(e) => return json!({"error": e}),
    };
    let names = Names::user(&big.var_names());
    let texts = big_formula_texts(&names);
    let text = &texts[job["formula_index"].as_u64().unwrap_or(0) as usize];
    let f = crate::formulas::f(text, &names);
    let (n, bad) = check(&f, &names, &big.graph, 2, true);
    json!({"cases": n, "problems": bad, "formula": f, "text": f.show(&names), "variables": big.graph.num_vars(), "colours": big.colours(), "wall_s": t0.elapsed().as_secs_f64()})
}

pub fn replay(case: &Value) -> Option<String> {
    let f: F = serde_json::from_value(case["formula"].clone()).ok()?;
    if let Some(m) = case.get("model").and_then(|m| m.as_str()) {
        let big = bigmodels::load(m, 3).ok()?;
        let names = Names::user(&big.var_names());
        let (_, bad) = check(&f, &names, &big.graph, 2, true);
        return if bad.is_empty() { None } else { Some(bad.join(" | ")) };
    }
    let spec = serde_json::from_value(case["net"].clone()).ok()?;
    let b = Arc::new(crate::bridge::Bound::new("replay", &spec, 3).ok()?);
    let labels = match case.get("labels") {
        Some(l) => Labels { wild: serde_json::from_value(l["wild"].clone()).ok()?, dom: serde_json::from_value(l["dom"].clone()).ok()?, props: vec![] },
        None => Labels::default(),
    };
    let ctx = NetCtx::new(b, labels, "replay");
    let (_, mut bad) = check_in(&f, &ctx.user, &ctx.b.graph, &ctx.sets, 3, false);
    if case.get("labels").is_none() && f.size() <= 3 {
        let mut odd_names = ctx.user.clone();
        for (i, w) in ["1", "true", "0"].iter().enumerate() {
            odd_names.wilds[WILD_OFFSET as usize + i] = w.to_string();
        }
        bad.extend(check(&f, &odd_names, &ctx.b.graph, 2, false).1);
    }
    if bad.is_empty() {
        None
    } else {
        Some(bad.join(" | "))
    }
}

pub fn run(tier: &str) -> Result<Report, String> {
    let mut rep = Report::new("C10", tier, "model_checking");
    std_assumptions(&mut rep);
    let nets = core_nets(3)?;
    let (m, which, pool): (usize, Vec<&str>, usize) = if tier == "quick" { (3, vec!["con2", "asy2", "unc2", "cyc3"], 2) } else { (4, nets.iter().map(|b| b.name.as_str()).collect(), 5) };
    let mut total = 0u64;
    for b in nets.iter().filter(|b| which.contains(&b.name.as_str())) {
        crate::sem::note_network(&mut rep, b);
        let ctx = NetCtx::new(b.clone(), Labels::default(), "none");
        let mut g = Gen::new(Alphabet::all_ops(ctx.nprops(), 3));
        let mut fs = g.closed_up_to(if tier == "quick" && ["con2", "asy2"].contains(&b.name.as_str()) { 4 } else { m });
        fs.extend(templates(&ctx.user, false, pool));
        // sub-formulae repeated up to renaming at equal / different quantifier depths: substituting one of
        // the occurrences (or an atom inside it) changes which sub-formulae are duplicates of each other
        if b.n <= 2 || tier != "quick" {
            fs.extend(crate::formulas::duplicate_templates(ctx.nprops(), if tier == "quick" { 4 } else { 5 }, tier == "quick", false));
        }
        let mut odd_names = ctx.user.clone();
        for (i, w) in ["1", "true", "0"].iter().enumerate() {
            odd_names.wilds[WILD_OFFSET as usize + i] = w.to_string();
        }
        let res: Vec<(u64, Option<Violation>)> = fs
            .par_iter()
            .map(|f| {
                let (mut n, mut bad) = check(f, &ctx.user, &ctx.b.graph, 3, false);
                if f.size() <= 3 {
                    // the same substitutions under labels named like constants (%1%, %true%, %0%)
                    let (n2, bad2) = check(f, &odd_names, &ctx.b.graph, 2, false);
                    n += n2;
                    bad.extend(bad2);
                }
                let v = if bad.is_empty() {
                    None
                } else {
                    Some(Violation { case: json!({"kind": "subst", "net": ctx.b.spec, "aeon": ctx.b.aeon, "formula": f, "text": f.show(&ctx.user)}), what: format!("on {}: {}", ctx.b.name, bad.join(" | ")), size: f.size() })
                };
                (n, v)
            })
            .collect();
        for (n, v) in res {
            total += n;
            if let Some(v) = v {
                rep.add_count("failing_formulae", 1);
                if rep.violations.len() < 100 {
                    rep.violations.push(v);
                }
            }
        }
        rep.add_count("formulae_x_networks", fs.len() as u64);
        // anchor: the plain results themselves are validated against the oracle by C01; count tables here
        rep.traces_validated += fs.len() as u64;
    }
    // graphs whose unit set was narrowed after construction (SymbolicAsyncGraph::restrict to every second / the last colour), with
    // more spare variable sets than the formulae need (k = 3): substitution must work inside the narrowed universe as well
    {
        let mut n_restricted = 0u64;
        for b in nets.iter().filter(|b| b.cols.len() >= 2 && which.contains(&b.name.as_str())) {
            for keep in [(0..b.cols.len()).step_by(2).collect::<Vec<_>>(), vec![b.cols.len() - 1]] {
                let rb = b.restrict_colours(&keep);
                let ctx = NetCtx::new(std::sync::Arc::new(rb), Labels::default(), "none");
                let mut fs = Gen::new(Alphabet::all_ops(ctx.nprops(), 2)).closed_up_to(3);
                fs.extend(templates(&ctx.user, false, 2));
                let res: Vec<(u64, Option<Violation>)> = fs
                    .par_iter()
                    .map(|f| {
                        let (n, bad) = check(f, &ctx.user, &ctx.b.graph, 2, false);
                        let v = if bad.is_empty() { None } else { Some(Violation { case: json!({"kind": "none"}), what: format!("on {} (unit set restricted to colours {keep:?}): {}", b.name, bad.join(" | ")), size: f.size() }) };
                        (n, v)
                    })
                    .collect();
                for (n, v) in res {
                    total += n;
                    n_restricted += n;
                    if let Some(v) = v {
                        if rep.violations.len() < 100 {
                            rep.violations.push(v);
                        }
                    }
                }
            }
        }
        rep.add_count("substitution_cases_on_graphs_with_a_restricted_unit_set", n_restricted);
    }
    // a pre-computed result that is large as data, substituted directly and through a result archive
    {
        for w in check_large_substitution()? {
            rep.violations.push(Violation { case: json!({"kind": "none"}), what: format!("on synthetic:pairs13: {w}"), size: 40 });
        }
        total += 6;
    }
    // one public evaluation context, the SAME surrounding formula evaluated again after its label was bound to the
    // pre-computed result of another closed sub-formula (EvalContext and eval_node are public; a user who substitutes many
    // results into one surrounding formula extends one context again and again): each round must equal the full formula
    {
        use biodivine_hctl_model_checker::evaluation::algorithm::{compute_steady_states, eval_node};
        use biodivine_hctl_model_checker::evaluation::eval_context::EvalContext;
        use biodivine_hctl_model_checker::preprocessing::parser::parse_and_minimize_extended_formula;
        let surround = [
            ("EF (%w0% & a)", false), ("!{x}: AX (EF ({x} & %w0%))", false), ("3{x}: @{x}: (%w0% | AX {x})", false), ("AG %w0%", false), ("!{x}: AX (EF ({x} & %w0%) | AG %w0%)", false),
            ("!{x} in %w0%: AX {x}", true), ("V{x} in %w0%: EF {x}", true), ("3{x} in %w0%: @{x}: AG a", true),
        ];
        let subs = ["a & ~b", "EX a", "!{y}: AX {y}", "3{y}: ((@{y}: b) & EF {y})", "AG EF a", "True", "False", "b"];
        let mut n_rounds = 0u64;
        for b in nets.iter().filter(|b| ["con2", "asy2", "tog2"].contains(&b.name.as_str())) {
            let g = &b.graph;
            let steady = compute_steady_states(g);
            let sub_sets: Vec<GraphColoredVertices> = subs.iter().map(|s| run_dirty(s, g)).collect::<Result<Vec<_>, _>>().map_err(|e| format!("harness: sub-formula does not evaluate: {e}"))?;
            for (s, as_domain) in surround {
                let tree = parse_and_minimize_extended_formula(g.symbolic_context(), s).map_err(|e| format!("harness: {s}: {e}"))?;
                for i in 0..subs.len() {
                    for j in 0..subs.len() {
                        if i == j {
                            continue;
                        }
                        n_rounds += 1;
                        let mk = |k: usize| -> HashMap<String, GraphColoredVertices> { HashMap::from([("w0".to_string(), sub_sets[k].clone())]) };
                        let none: HashMap<String, GraphColoredVertices> = HashMap::new();
                        let r = guarded(AssertUnwindSafe(|| {
                            let mut c = EvalContext::from_single_tree(&tree);
                            if as_domain { c.extend_context_with_wild_cards(&none, &mk(i)) } else { c.extend_context_with_wild_cards(&mk(i), &none) };
                            let r1 = eval_node(tree.clone(), g, &mut c, &steady, &mut |_, _| {});
                            if as_domain { c.extend_context_with_wild_cards(&none, &mk(j)) } else { c.extend_context_with_wild_cards(&mk(j), &none) };
                            let r2 = eval_node(tree.clone(), g, &mut c, &steady, &mut |_, _| {});
                            (r1, r2)
                        }));
                        // the full formulae: a sub-formula in proposition position is substituted textually; in domain position the
                        // documented equivalence of the README is used (`Q{x} in A: phi` with A's result as the domain)
                        let full = |k: usize| -> Result<GraphColoredVertices, String> {
                            if as_domain {
                                run_ext(s, g, &mk(k))
                            } else {
                                run_dirty(&s.replace("%w0%", &format!("({})", subs[k])), g)
                            }
                        };
                        let what = match (r, full(i), full(j)) {
                            (Ok((r1, r2)), Ok(e1), Ok(e2)) => {
                                if r1 != e1 {
                                    Some(format!("first round (%w0% := result of {}) differs from the full formula", subs[i]))
                                } else if r2 != e2 {
                                    Some(format!("second round on the same context (%w0% := result of {}, before: result of {}) differs from the full formula", subs[j], subs[i]))
                                } else {
                                    None
                                }
                            }
                            (Err(p), _, _) => Some(format!("panic: {p}")),
                            (_, e1, e2) => Some(format!("reference evaluation fails: {:?} / {:?}", e1.err(), e2.err())),
                        };
                        if let Some(w) = what {
                            if rep.violations.len() < 100 {
                                rep.violations.push(Violation { case: json!({"kind": "none"}), what: format!("one evaluation context, surrounding formula `{s}` on {}: {w}", b.name), size: 20 });
                            }
                        }
                    }
                }
            }
        }
        rep.evaluations += n_rounds * 4;
        rep.add_count("rounds_on_one_reused_evaluation_context", n_rounds);
    }
    // surrounding formulae with wild-cards and restricted domains (label families mixed / disjoint)
    let mut ext_total = 0u64;
    for b in nets.iter().filter(|b| ["con2", "asy2"].contains(&b.name.as_str()) || (tier != "quick" && ["imp1", "unc2"].contains(&b.name.as_str()))) {
        let fams = crate::sweep::label_families(b, 4);
        for (desc, labels) in [fams[0].clone(), fams[3].clone()] {
            let ctx = NetCtx::new(b.clone(), labels, &desc);
            let mut fs: Vec<F> = templates(&ctx.user, true, if tier == "quick" { 2 } else { 5 }).into_iter().filter(|f| f.uses_wild_or_dom()).collect();
            let mut g = Gen::new(Alphabet::extended(ctx.nprops(), 2, 1, 2));
            fs.extend(g.closed_up_to(if tier == "quick" { 3 } else { 4 }).into_iter().filter(|f| f.uses_wild_or_dom()));
            if tier != "quick" || desc == fams[0].0 {
                fs.extend(crate::formulas::restricted_scope_duplicates(&ctx.user));
            }
            // a closed sub-formula WITH a quantifier of its own next to a state variable, once outside and once inside a restricted
            // scope under another variable name: substituting it turns a two-variable sub-formula (never shared) into a
            // one-variable one (shared and renamed on the cache hit)
            for psi in ["(!{z}: AX {z})", "(3{z}: @{z}: a)", "(V{z}: (a | EF {z}))"] {
                for q in ["3", "V", "!"] {
                    for glue in ["&", "|"] {
                        fs.push(crate::formulas::f(&format!("(3{{x}}: @{{x}}: ({{x}} & {psi})) {glue} ({q}{{x}} in %d%: 3{{y}}: @{{y}}: (({{y}} & {psi}) & a))"), &ctx.user));
                        fs.push(crate::formulas::f(&format!("({q}{{x}} in %d%: 3{{y}}: @{{y}}: (({{y}} & {psi}) | a)) {glue} (!{{x}}: ({{x}} & {psi}))"), &ctx.user));
                    }
                }
            }
            if ctx.b.n >= 2 {
                let pool: Vec<F> = collision_alphabet(&ctx.user).into_iter().take(if tier == "quick" { 8 } else { 16 }).collect();
                fs.extend(pair_family(&pool, 4, true).into_iter().filter(|f| f.uses_wild_or_dom()));
            }
            let res: Vec<(u64, Option<Violation>)> = fs
                .par_iter()
                .map(|f| {
                    let (n, bad) = check_in(f, &ctx.user, &ctx.b.graph, &ctx.sets, 2, false);
                    let v = if bad.is_empty() {
                        None
                    } else {
                        Some(Violation { case: json!({"kind": "subst", "net": ctx.b.spec, "aeon": ctx.b.aeon, "labels": {"wild": ctx.labels.wild, "dom": ctx.labels.dom}, "formula": f, "text": f.show(&ctx.user)}), what: format!("on {} labels={}: {}", ctx.b.name, desc, bad.join(" | ")), size: f.size() })
                    };
                    (n, v)
                })
                .collect();
            for (n, v) in res {
                ext_total += n;
                if let Some(v) = v {
                    rep.add_count("failing_formulae", 1);
                    if rep.violations.len() < 150 {
                        rep.violations.push(v);
                    }
                }
            }
            rep.add_count("extended_surrounding_formulae_x_networks_x_labels", fs.len() as u64);
        }
    }
    total += ext_total;
    rep.set("substitution_cases_in_extended_surroundings", json!(ext_total));
    // bundled models: benchmark formulae, substitutions of non-atomic closed sub-formulae; every
    // (model, formula) pair runs in a child process with a wall-clock limit
    let limit = if tier == "quick" { 15.0 } else { 240.0 };
    let mut big_cases = 0u64;
    let mut models_done = vec![];
    let mut jobs = vec![];
    for name in bigmodels::family(tier) {
        for fi in 0..big_formulae_count(tier) {
            jobs.push(json!({"kind": "c10big", "model": name, "formula_index": fi}));
        }
    }
    let results: Vec<(Value, crate::jobs::JobResult)> = jobs.par_iter().map(|j| (j.clone(), crate::jobs::run(j, limit))).collect();
    for (j, r) in results {
        match r {
            crate::jobs::JobResult::Done(v) => {
                big_cases += v["cases"].as_u64().unwrap_or(0);
                models_done.push(json!({"model": j["model"], "formula": v["text"], "cases": v["cases"], "variables": v["variables"], "colours": v["colours"], "wall_s": v["wall_s"]}));
                if let Some(bad) = v["problems"].as_array() {
                    if !bad.is_empty() {
                        let f: F = serde_json::from_value(v["formula"].clone()).map_err(|e| e.to_string())?;
                        rep.violations.push(Violation {
                            case: json!({"kind": "subst", "model": j["model"], "formula": f, "text": v["text"]}),
                            what: format!("on bundled model {}: {}", j["model"], bad.iter().map(|b| b.as_str().unwrap_or("").to_string()).collect::<Vec<_>>().join(" | ")),
                            size: 100,
                        });
                    }
                }
            }
            crate::jobs::JobResult::Timeout => rep.cap(format!("bundled model job {j} exceeded {limit}s and was stopped (no verdict)")),
            crate::jobs::JobResult::Crashed(e) => return Err(format!("bundled model job {j} crashed: {e}")),
        }
    }
    rep.set("bundled_models", json!(models_done));
    rep.set("bundled_model_substitution_cases", json!(big_cases));
    total += big_cases;
    rep.evaluations = total;
    rep.distinct_nontrivial = total.saturating_sub(3 * rep.extra.get("formulae_x_networks").and_then(|v| v.as_u64()).unwrap_or(0));
    rep.sample(json!({"formula": "((!{x}: (AX {x})) & (EF a))", "case": "(%p% & (EF %q%)) with p := result of (!{x}: (AX {x})), q := result of a", "oracle": "raw result must equal (BDD equality) model_check_formula_dirty of the original"}));
    rep.rule = format!("for every closed plain formula with <= {m} nodes (quick: 4 on con2 and asy2) and every plain template formula (benchmark formulae, quantifier nests, sub-formulae duplicated up to renaming at equal / different depths) on the core networks {which:?}: every non-empty antichain of at most 3 closed proper sub-formula occurrences (atoms included) is replaced by wild-cards bound to model_check_formula_dirty of the sub-formula (once with a fresh wild-card per occurrence, once with one shared wild-card for equal sub-formulae), and the extended evaluation must equal the plain result as a set (formulae with <= 3 nodes also with the fresh labels named 1, true, 0); plus, for the first substitution case of every formula, the list [rewritten, original, True] through model_check_multiple_extended_formulae_dirty (every position must carry the result of its formula); plus the identity cases (plain formula through the extended entry points with an empty context); the same for surrounding formulae that themselves contain wild-cards and restricted domains (extended templates, the restricted-scope-duplicate family - a closed sub-formula inside a domain-restricted scope next to a jump to the restricted variable and again outside the scope -, and all extended formulae with <= 3, thorough 4, nodes; label families mixed and colour-disjoint; antichains of <= 2). On the bundled models {:?}: benchmark-style formulae with all antichains of <= 2 non-atomic closed sub-formulae. distinct_nontrivial = number of substitution cases, i.e. evaluations minus the three identity calls per formula (each case a distinct (formula, replaced occurrences, label sharing) triple)", bigmodels::family(tier));
    Ok(rep)
}
