//! C06 — printing and parsing are inverse; stored text and height are consistent at every node.

use crate::formulas::{Alphabet, Bi, Gen, Hy, Names, Un, ALL_BI, ALL_UN};
use crate::refparser::{self as rp, T};
use crate::report::{guarded, Report, Violation};
use crate::trees::{TreeAlphabet, TreeGen};
use biodivine_hctl_model_checker::preprocessing::hctl_tree::{HctlTreeNode, NodeType};
use biodivine_hctl_model_checker::preprocessing::parser::{parse_and_minimize_extended_formula, parse_extended_formula, parse_hctl_formula};
use biodivine_lib_param_bn::symbolic_async_graph::SymbolicContext;
use biodivine_lib_param_bn::BooleanNetwork;
use rayon::prelude::*;
use serde_json::{json, Value};
use std::collections::HashSet;

/// Compare stored text / height of every node of `lib` with the independent renderer on `t`.
fn consistent(lib: &HctlTreeNode, t: &T) -> Result<(String, u32), String> {
    let (text, h) = match (&lib.node_type, t) {
        (NodeType::Terminal(_), T::Const(_) | T::Prop(_) | T::Var(_) | T::Wild(_)) => (t.render(), 0),
        (NodeType::Unary(_, c), T::Un(o, tc)) => {
            let (ct, ch) = consistent(c, tc)?;
            (if *o == crate::formulas::Un::Not { format!("(~{ct})") } else { format!("({} {ct})", o.s()) }, ch + 1)
        }
        (NodeType::Binary(_, l, r), T::Bin(o, tl, tr)) => {
            let (lt, lh) = consistent(l, tl)?;
            let (rt, rh) = consistent(r, tr)?;
            (format!("({lt} {} {rt})", o.s()), lh.max(rh) + 1)
        }
        (NodeType::Hybrid(_, _, _, c), T::Hy(o, v, d, tc)) => {
            let (ct, ch) = consistent(c, tc)?;
            let dom = match d {
                Some(d) => format!(" in %{d}%"),
                None => String::new(),
            };
            (format!("({}{{{v}}}{dom}: {ct})", o.s()), ch + 1)
        }
        _ => return Err("node kinds differ".into()),
    };
    if lib.formula_str != text {
        return Err(format!("stored text {:?} but canonical rendering is {:?}", lib.formula_str, text));
    }
    if lib.height != h {
        return Err(format!("stored height {} but structure has height {} at node {}", lib.height, h, text));
    }
    Ok((text, h))
}

/// All C06 obligations for one library tree.
pub fn check_lib_tree(lib: &HctlTreeNode) -> Option<String> {
    let t = T::from_lib(lib);
    if let Err(e) = consistent(lib, &t) {
        return Some(e);
    }
    let text = lib.to_string();
    if text != t.render() {
        return Some(format!("to_string gives {text:?}, canonical rendering {:?}", t.render()));
    }
    match parse_extended_formula(&text) {
        Ok(back) => {
            if &back != lib {
                return Some(format!("printing gives {text:?} which parses back to a different tree: {}", T::from_lib(&back).render()));
            }
        }
        Err(e) => return Some(format!("printing gives {text:?} which the extended parser rejects: {e}")),
    }
    if t.is_plain() {
        match parse_hctl_formula(&text) {
            Ok(back) => {
                if &back != lib {
                    return Some(format!("plain parser reads {text:?} back as {}", T::from_lib(&back).render()));
                }
            }
            Err(e) => return Some(format!("printing gives plain {text:?} which the plain parser rejects: {e}")),
        }
    }
    None
}

pub fn check_tree(t: &T) -> Option<String> {
    match guarded(|| check_lib_tree(&t.to_lib())) {
        Ok(v) => v,
        Err(p) => Some(format!("panic: {p}")),
    }
}

pub fn replay(case: &Value) -> Option<String> {
    if let Some(r) = case.get("random") {
        let props: Vec<String> = vec!["a".into(), "b".into(), "c".into()];
        let t = biodivine_hctl_model_checker::preprocessing::hctl_tree::HctlTreeNode::new_random_boolean(r["levels"].as_u64()? as u8, &props, r["seed"].as_u64()?);
        return check_lib_tree(&t);
    }
    if let Some(s) = case.get("parse_text").and_then(|s| s.as_str()) {
        let lib = parse_extended_formula(s).ok()?;
        return check_lib_tree(&lib);
    }
    let t: T = serde_json::from_value(case["tree"].clone()).ok()?;
    check_tree(&t)
}

#[derive(Default)]
struct Acc {
    n: u64,
    distinct: HashSet<String>,
    bad: Vec<Violation>,
    nbad: u64,
}
fn merge(mut a: Acc, b: Acc) -> Acc {
    a.n += b.n;
    a.nbad += b.nbad;
    a.distinct.extend(b.distinct);
    a.bad.extend(b.bad);
    a
}

pub fn alphabet() -> TreeAlphabet {
    let s = |v: &[&str]| v.iter().map(|x| x.to_string()).collect::<Vec<_>>();
    TreeAlphabet {
        consts: vec![true, false],
        props: s(&["a", "p_1", "EXa", "3x", "EF1", "AU_2", "TRUE", "fALSE"]),
        vars: s(&["x", "xx"]),
        wilds: s(&["p", "AG0"]),
        doms: s(&["d", "3x"]),
        un: ALL_UN.to_vec(),
        bi: ALL_BI.to_vec(),
        quant: vec![Hy::Bind, Hy::Exists, Hy::Forall],
        jump: true,
    }
}

pub fn run(tier: &str) -> Result<Report, String> {
    let mut rep = Report::new("C06", tier, "exploration");
    let s_max = 5; // both tiers (16 million trees); the tiers differ in the parser-returned trees, the preprocessing bound and the constructor grid
    let mut g = TreeGen::new(alphabet());
    let mut per_size = vec![];
    for size in 1..=s_max {
        let acc = g.par_visit_exact(
            size,
            Acc::default,
            |acc, t| {
                acc.n += 1;
                if t.height() >= 1 && acc.distinct.len() < 4096 {
                    acc.distinct.insert(t.render());
                }
                if let Some(what) = check_tree(t) {
                    acc.nbad += 1;
                    if acc.bad.len() < 40 {
                        acc.bad.push(Violation { case: json!({"kind": "tree", "tree": t}), what: format!("tree {}: {what}", t.render()), size: t.size() });
                    }
                }
            },
            merge,
        );
        per_size.push(json!({"nodes": size, "trees": acc.n}));
        rep.evaluations += acc.n;
        rep.distinct_nontrivial += acc.n.saturating_sub(if size == 1 { acc.n } else { 0 });
        rep.add_count("failing_trees", acc.nbad);
        rep.violations.extend(acc.bad);
    }
    rep.set("constructed_trees_per_size", json!(per_size));
    // (ii) every tree the parsers return for short token sequences
    let toks = ["a", "False", "{x}", "%p%", "~", "AG", "&", "=>", "AW", "!{x}:", "@{x}:", "V{x} in %d%:", "(", ")"];
    let tlen = if tier == "quick" { 5 } else { 6 };
    let mut parsed_total = 0u64;
    for len in 1..=tlen {
        let base = toks.len() as u64;
        let total = base.pow(len as u32);
        let acc = (0..total)
            .into_par_iter()
            .fold(Acc::default, |mut acc, mut idx| {
                let mut parts = vec![];
                for _ in 0..len {
                    parts.push(toks[(idx % base) as usize]);
                    idx /= base;
                }
                let s = parts.join(" ");
                if let Ok(Ok(lib)) = guarded(|| parse_extended_formula(&s)) {
                    acc.n += 1;
                    if let Some(what) = check_lib_tree(&lib) {
                        acc.nbad += 1;
                        if acc.bad.len() < 20 {
                            acc.bad.push(Violation { case: json!({"kind": "tree", "parse_text": s}), what: format!("tree parsed from {s:?}: {what}"), size: s.len() });
                        }
                    }
                }
                acc
            })
            .reduce(Acc::default, merge);
        parsed_total += acc.n;
        rep.evaluations += acc.n;
        rep.add_count("failing_trees", acc.nbad);
        rep.violations.extend(acc.bad);
    }
    rep.set("trees_returned_by_parser_checked", json!(parsed_total));
    // (iii) trees produced by preprocessing
    let bn = BooleanNetwork::try_from("a -> b\nb -| a\n").map_err(|e| e.to_string())?;
    let ctx = SymbolicContext::new(&bn).map_err(|e| e.to_string())?;
    let names = Names::user(&["a".to_string(), "b".to_string()]);
    let mut gen = Gen::new(Alphabet::extended(2, 3, 1, 1));
    let fs = gen.closed_up_to(if tier == "quick" { 4 } else { 5 });
    let bad: Vec<Violation> = fs
        .par_iter()
        .filter_map(|f| {
            let text = f.show(&names);
            match guarded(|| parse_and_minimize_extended_formula(&ctx, &text)) {
                Ok(Ok(lib)) => check_lib_tree(&lib).map(|what| Violation {
                    case: json!({"kind": "tree", "tree": T::from_lib(&lib)}),
                    what: format!("tree produced by preprocessing of {text}: {what}"),
                    size: f.size(),
                }),
                Ok(Err(e)) => Some(Violation { case: json!({"kind": "tree", "parse_text": text}), what: format!("preprocessing rejects closed formula {text}: {e}"), size: f.size() }),
                Err(p) => Some(Violation { case: json!({"kind": "tree", "parse_text": text}), what: format!("panic in preprocessing of {text}: {p}"), size: f.size() }),
            }
        })
        .collect();
    rep.evaluations += fs.len() as u64;
    rep.set("preprocessed_trees_checked", json!(fs.len()));
    rep.violations.extend(bad);
    // ... and deep quantifier nests: preprocessing names the k-th nested variable `x` repeated k times, so the trees it returns
    // for 66 / 130 / 260 nested quantifiers carry names far longer than any name a user writes
    {
        let nests: Vec<String> = [66usize, 130, 260]
            .iter()
            .map(|d| {
                let mut s = String::new();
                for i in 0..*d {
                    s.push_str(&format!("{}{{v{i}}}: ", ["!", "3", "V"][i % 3]));
                }
                format!("{s}(AX {{v0}} & {{v{}}})", d - 1)
            })
            .collect();
        let nest_bad: Vec<Violation> = std::thread::Builder::new()
            .stack_size(256 << 20)
            .spawn(move || {
                nests
                    .iter()
                    .filter_map(|text| match guarded(|| parse_and_minimize_extended_formula(&ctx, text)) {
                        Ok(Ok(lib)) => check_lib_tree(&lib).map(|what| Violation { case: json!({"kind": "none"}), what: format!("tree produced by preprocessing of a nest of {} quantifiers: {what}", text.matches(": ").count()), size: 300 }),
                        Ok(Err(e)) => Some(Violation { case: json!({"kind": "none"}), what: format!("preprocessing rejects a closed nest of {} quantifiers: {e}", text.matches(": ").count()), size: 300 }),
                        Err(p) => Some(Violation { case: json!({"kind": "none"}), what: format!("panic in preprocessing of a nest of quantifiers: {p}"), size: 300 }),
                    })
                    .collect()
            })
            .unwrap()
            .join()
            .unwrap_or_else(|_| vec![Violation { case: json!({"kind": "machinery"}), what: "MACHINERY: nest thread panicked".into(), size: 0 }]);
        if nest_bad.iter().any(|v| v.what.starts_with("MACHINERY")) {
            return Err("the quantifier-nest thread of the harness panicked".into());
        }
        rep.evaluations += 3;
        rep.violations.extend(nest_bad);
    }
    // (iii-b) the public random-tree constructor: every (levels, seed) of a declared grid (it is a deterministic function of
    //         its seed; the grid is enumerated completely, nothing is sampled by the harness)
    {
        let props: Vec<String> = vec!["a".into(), "b".into(), "c".into()];
        let mut n_rand = 0u64;
        for levels in 1..=(if tier == "quick" { 5u8 } else { 7 }) {
            for seed in 0..(if tier == "quick" { 200u64 } else { 1000 }) {
                n_rand += 1;
                let r = guarded(std::panic::AssertUnwindSafe(|| biodivine_hctl_model_checker::preprocessing::hctl_tree::HctlTreeNode::new_random_boolean(levels, &props, seed)));
                match r {
                    Ok(t) => {
                        if let Some(what) = check_lib_tree(&t) {
                            if rep.violations.len() < 60 {
                                rep.violations.push(Violation { case: json!({"kind": "tree", "random": {"levels": levels, "seed": seed}}), what: format!("new_random_boolean({levels}, [a, b, c], {seed}) = {t}: {what}"), size: 40 + levels as usize });
                            }
                        }
                    }
                    Err(p) => rep.violations.push(Violation { case: json!({"kind": "tree", "random": {"levels": levels, "seed": seed}}), what: format!("new_random_boolean({levels}, .., {seed}) panics: {p}"), size: 40 }),
                }
            }
        }
        rep.evaluations += n_rand;
        rep.set("random_constructor_trees_checked", json!(n_rand));
    }
    // (iii-c) identifier shapes in every kind of position (proposition, state variable, wild-card, domain), built
    //         with the constructors: leading / trailing / only underscores, digits first, operator and constant
    //         look-alikes, non-ASCII letters and digits. A name is used in a position iff the reference grammar
    //         reads the printed atom back as that very atom.
    {
        let names = [
            "_p1", "__", "_", "_1", "p_", "a1", "1a", "9", "x_y_z", "EXa", "AXEL", "EFG", "Va", "V1", "3a", "33", "A", "E", "EW1", "AWx", "inx", "in1", "true1", "False_", "T", "F", "t", "tt", "é", "_é",
            "細胞", "𝔸b", "a٣", "Ab_9_", "x", "xx", "var0",
            // words that other logics' concrete syntaxes use as operators (ordinary identifiers here)
            "not", "and", "or", "xor", "imp", "iff", "exists", "forall", "bind", "jump", "in", "until", "U", "W", "X", "G",
            // long names (no documented bound on the length of a name)
            "n234567890123456789012345678901234567890123456789012345678901234", "n2345678901234567890123456789012345678901234567890123456789012345",
            "xxxxxxxxxxxxxxxxxxxxxxxxxxxxxxxxxxxxxxxxxxxxxxxxxxxxxxxxxxxxxxxxxxxxxxxxxxxxxxxxxxxxxxxxxxxxxxxxxxxxxxxxxxxxxxxxxxxxxxxxxxxxxxxxx",
            "a_very_long_name_of_a_gene_or_protein_complex_as_they_occur_in_models_exported_from_databases_such_as_the_cell_collective_0123456789_0123456789_0123456789_0123456789_0123456789_0123456789_0123456789_0123456789_0123456789_0123456789_0123456789_0123456789_0123456789_0123456789_0123456789",
        ];
        let mut n_id = 0u64;
        let a = || T::Prop("a".into());
        for n in names {
            let mut shapes: Vec<T> = vec![];
            if rp::parse_str(&T::Prop(n.into()).render(), true).ok() == Some(T::Prop(n.into())) {
                let p = || T::Prop(n.into());
                shapes.extend([p(), T::un(Un::Not, p()), T::un(Un::EX, p()), T::bin(Bi::And, p(), a()), T::bin(Bi::EU, a(), p()), T::bin(Bi::Iff, p(), p()), T::hy(Hy::Bind, "x", None, T::bin(Bi::And, p(), T::Var("x".into())))]);
            }
            if rp::parse_str(&T::hy(Hy::Bind, n, None, T::Var(n.into())).render(), true).ok() == Some(T::hy(Hy::Bind, n, None, T::Var(n.into()))) {
                shapes.extend([
                    T::hy(Hy::Bind, n, None, T::un(Un::AX, T::Var(n.into()))),
                    T::hy(Hy::Exists, n, None, T::hy(Hy::Jump, n, None, T::bin(Bi::And, a(), T::Var(n.into())))),
                    T::hy(Hy::Forall, n, Some("d"), T::bin(Bi::Or, T::Var(n.into()), a())),
                ]);
            }
            if rp::parse_str(&T::Wild(n.into()).render(), true).ok() == Some(T::Wild(n.into())) {
                shapes.extend([T::Wild(n.into()), T::un(Un::AG, T::Wild(n.into())), T::bin(Bi::AW, T::Wild(n.into()), a()), T::hy(Hy::Exists, "x", Some(n), T::hy(Hy::Jump, "x", None, T::Wild(n.into())))]);
            }
            for t in shapes {
                n_id += 1;
                let r = guarded(std::panic::AssertUnwindSafe(|| check_lib_tree(&t.to_lib())));
                let what = match r {
                    Ok(w) => w,
                    Err(p) => Some(format!("panic: {p}")),
                };
                if let Some(w) = what {
                    rep.violations.push(Violation { case: json!({"kind": "tree", "tree": t}), what: format!("tree {} (identifier shape {n:?}): {w}", t.render()), size: 10 + t.size() });
                }
            }
        }
        rep.evaluations += n_id;
        rep.set("identifier_shape_trees", json!(n_id));
    }
    // (iv) deterministic deep chains
    let mut deep = vec![];
    for depth in [50usize, 200] {
        for u in ALL_UN {
            let mut t = T::Prop("a".into());
            for _ in 0..depth {
                t = T::un(u, t);
            }
            deep.push(t);
        }
        for b in ALL_BI {
            let mut l = T::Var("x".into());
            let mut r = T::Wild("p".into());
            for i in 0..depth {
                l = T::bin(b, l, T::Prop(format!("q{i}")));
                r = T::bin(b, T::Const(i % 2 == 0), r);
            }
            deep.push(l);
            deep.push(r);
        }
        let mut t = T::Var("x0".into());
        for i in 0..depth {
            let h = [Hy::Bind, Hy::Exists, Hy::Forall, Hy::Jump][i % 4];
            t = T::Hy(h, format!("x{i}"), if h != Hy::Jump && i % 3 == 0 { Some(format!("d{i}")) } else { None }, Box::new(t));
        }
        deep.push(t);
    }
    // run the deep ones on a thread with a big stack (recursion depth 200 in debug-free code is fine, be safe)
    let deep_bad: Vec<Violation> = std::thread::Builder::new()
        .stack_size(256 << 20)
        .spawn(move || {
            deep.iter()
                .filter_map(|t| check_tree(t).map(|what| Violation { case: json!({"kind": "tree", "tree": t}), what: format!("deep chain of height {}: {what}", t.height()), size: t.size() }))
                .collect()
        })
        .unwrap()
        .join()
        .map_err(|_| "deep-chain thread died".to_string())?;
    rep.set("deep_chains", json!(46));
    rep.evaluations += 46;
    rep.violations.extend(deep_bad);
    rep.sample(json!({"constructed": "(3{xx} in %3x%: (EXa AW (~{x})))", "round_trip": "parse_extended_formula(to_string(t)) == t, stored text/height checked at each of its 5 nodes"}));
    rep.sample(json!({"parsed": "V{x} in %d%: @{x}: a => %p%"}));
    rep.rule = format!("every tree with 1..{s_max} nodes assembled with the public mk_* constructors over {} (jump with a domain excluded), every tree parse_extended_formula returns for token sequences of length <= {tlen} over {toks:?}, every tree produced by preprocessing closed formulae, every tree of an identifier-shape family (53 names - words such as not / and / or / xor / in / exists, leading / only underscores, digits first, operator and constant look-alikes, non-ASCII - in proposition, variable, wild-card and domain position), every tree HctlTreeNode::new_random_boolean returns on a grid of (levels 1..5/7) x (seeds 0..199/999), and 46 chains of depth 50/200: stored text and height at every node vs an independent renderer, and print->parse round trip (extended parser; plain parser too on plain trees); distinct_nontrivial = number of distinct constructed trees with at least one operator", alphabet().describe());
    Ok(rep)
}
