//! C05 — the parser accepts exactly the documented grammar and never drops input.

use crate::refparser::{self as rp, Tok, T};
use crate::report::{guarded, Report, Violation};
use biodivine_hctl_model_checker::preprocessing::parser::{parse_extended_formula, parse_hctl_formula};
use biodivine_hctl_model_checker::preprocessing::tokenizer::{try_tokenize_extended_formula, try_tokenize_formula};
use rayon::prelude::*;
use serde_json::{json, Value};
use std::collections::HashSet;

/// Compare implementation and reference on one input string in one mode.
pub fn compare(s: &str, ext: bool) -> Option<String> {
    let r = guarded(|| {
        // token level
        let it = if ext { try_tokenize_extended_formula(s.to_string()) } else { try_tokenize_formula(s.to_string()) };
        let rt = rp::tokenize(s, ext);
        match (&it, &rt) {
            (Ok(i), Ok(r)) => {
                let mut flat: Vec<Tok> = vec![];
                rp::flatten_impl_tokens(i, &mut flat);
                if &flat != r {
                    return Some(format!("token lists differ: implementation {flat:?}, reference {r:?}"));
                }
            }
            (Err(_), Err(_)) => {}
            (Ok(i), Err(e)) => return Some(format!("tokenizer accepts (tokens {i:?}) but the reference rejects: {e}")),
            (Err(e), Ok(r)) => return Some(format!("tokenizer rejects ({e}) but the reference accepts with tokens {r:?}")),
        }
        // tree level
        let ip = if ext { parse_extended_formula(s) } else { parse_hctl_formula(s) };
        let rp_ = rp::parse_str(s, ext);
        match (&ip, &rp_) {
            (Ok(i), Ok(r)) => {
                let it = T::from_lib(i);
                if &it != r {
                    return Some(format!("trees differ: implementation {}, grammar dictates {}", it.render(), r.render()));
                }
            }
            (Err(_), Err(_)) => {}
            (Ok(i), Err(e)) => return Some(format!("parser accepts as {} but the grammar does not derive the input ({e})", i)),
            (Err(e), Ok(r)) => return Some(format!("parser rejects ({e}) but the grammar derives {}", r.render())),
        }
        // the parse-and-preprocess wrappers (the parsers behind the model-checking entry points) accept only what
        // their parser accepts, and everything it accepts that is well-scoped over the network's propositions
        {
            use biodivine_hctl_model_checker::preprocessing::parser::{parse_and_minimize_extended_formula, parse_and_minimize_hctl_formula};
            thread_local! { static WCTX: biodivine_lib_param_bn::symbolic_async_graph::SymbolicContext = biodivine_lib_param_bn::symbolic_async_graph::SymbolicContext::new(&biodivine_lib_param_bn::BooleanNetwork::try_from("a -| a\n_ -> a\n$_: true\n").unwrap()).unwrap(); }
            let w = WCTX.with(|c| if ext { parse_and_minimize_extended_formula(c, s) } else { parse_and_minimize_hctl_formula(c, s) });
            let name = if ext { "parse_and_minimize_extended_formula" } else { "parse_and_minimize_hctl_formula" };
            match (&w, &rp_) {
                (Ok(t), Err(e)) => return Some(format!("{name} accepts as {t} but the grammar of its parser does not derive the input ({e})")),
                (Err(e), Ok(r)) if r.scope_ok(&mut vec![], &["a".to_string(), "_".to_string()]) => return Some(format!("{name} rejects ({e}) a derivable, well-scoped formula over the network's propositions: {}", r.render())),
                _ => {}
            }
        }
        // the extended parser agrees with the plain one on plain formulae
        if !ext {
            if let Ok(p) = &ip {
                match parse_extended_formula(s) {
                    Ok(e) if &e == p => {}
                    Ok(e) => return Some(format!("extended parser gives {} but plain parser {}", e, p)),
                    Err(e) => return Some(format!("extended parser rejects a plain formula: {e}")),
                }
            }
        }
        None
    });
    match r {
        Ok(v) => v,
        Err(p) => Some(format!("panic: {p}")),
    }
}

pub fn replay(case: &Value) -> Option<String> {
    let s = case["text"].as_str()?;
    let ext = case["ext"].as_bool()?;
    compare(s, ext)
}

const TOKENS: [&str; 27] = [
    "a", "True", "{x}", "%p%", "~", "EX", "&", "|", "^", "=>", "<=>", "EU", "AU", "EW", "AW", "!{x}:", "@{x}:", "3{x} in %d%:", "(", ")",
    "V{x}:", "\\forall {x} in %d%:", "\\exists {x}:", "\\bind {x} in %d%:", "\\jump {x}:", "AF", "EG",
];
/// 30 symbols: 29 characters + the digraph "in"
const CHARS: [&str; 30] = [
    "a", "E", "X", "A", "U", "3", "V", "x", "_", "{", "}", "(", ")", "~", "&", "=", ">", "<", ":", "!", "@", "%", "\\", " ", "in", "F", "W", "1", "|", "G",
];

#[derive(Default)]
struct Acc {
    n: u64,
    accepted: HashSet<String>,
    bad: Vec<Violation>,
    nbad: u64,
}

fn run_space(rep: &mut Report, alphabet: &[&str], len: usize, sep: &str, kind: &str) {
    let base = alphabet.len() as u64;
    let total: u64 = base.pow(len as u32);
    let acc = (0..total)
        .into_par_iter()
        .fold(Acc::default, |mut acc, mut idx| {
            let mut parts = Vec::with_capacity(len);
            for _ in 0..len {
                parts.push(alphabet[(idx % base) as usize]);
                idx /= base;
            }
            let s = parts.join(sep);
            for ext in [false, true] {
                acc.n += 1;
                if let Some(what) = compare(&s, ext) {
                    acc.nbad += 1;
                    if acc.bad.len() < 50 {
                        acc.bad.push(Violation {
                            case: json!({"kind": "parse", "text": s, "ext": ext}),
                            what: format!("input {s:?} ({} parser): {what}", if ext { "extended" } else { "plain" }),
                            size: s.len(),
                        });
                    }
                }
            }
            if let Ok(t) = rp::parse_str(&s, true) {
                acc.accepted.insert(t.render());
            }
            acc
        })
        .reduce(Acc::default, |mut a, b| {
            a.n += b.n;
            a.nbad += b.nbad;
            a.accepted.extend(b.accepted);
            a.bad.extend(b.bad);
            a
        });
    rep.evaluations += acc.n;
    rep.add_count(&format!("{kind}_len{len}_inputs"), total);
    rep.add_count("failing_inputs", acc.nbad);
    rep.add_count(&format!("{kind}_distinct_accepted_trees"), acc.accepted.len() as u64);
    rep.distinct_nontrivial += acc.accepted.len() as u64;
    let mut bad = acc.bad;
    bad.sort_by_key(|v| v.size);
    bad.truncate(30);
    rep.violations.extend(bad);
}

/// Deterministic long / odd inputs (family c).
pub fn special_inputs() -> Vec<String> {
    let mut v: Vec<String> = vec![];
    let unary = ["~", "EX", "AX", "EF", "AF", "EG", "AG"];
    let binary = ["&", "|", "^", "=>", "<=>", "EU", "AU", "EW", "AW"];
    for u in unary {
        for depth in [1, 2, 40] {
            v.push(format!("{}a", format!("{u} ").repeat(depth)));
            v.push(format!("{}(a)", format!("{u} ").repeat(depth)));
            v.push(format!("{}({} a)", format!("{u} ").repeat(depth), u));
        }
        for u2 in unary {
            v.push(format!("{u} {u2} a & {u2} {u} b"));
            v.push(format!("({u} a) {u2} b"));
            v.push(format!("(a) {u} b"));
            v.push(format!("a {u} b"));
            v.push(format!("{u} (a) {u2} b"));
        }
    }
    for b in binary {
        for depth in [2, 3, 40] {
            let mut s = String::from("a");
            for i in 0..depth {
                s.push_str(&format!(" {b} p{i}"));
            }
            v.push(s);
        }
        for b2 in binary {
            // alternating chains of two operators, 6 operators deep
            let mut s = String::from("a");
            for i in 0..6 {
                s.push_str(&format!(" {} q{i}", if i % 2 == 0 { b } else { b2 }));
            }
            v.push(s.clone());
            v.push(format!("!{{x}}: {s}"));
            v.push(format!("({s}) {b} ~{{x}}"));
            v.push(format!("a {b} ~ b {b2} EX c"));
            v.push(format!("a {b} !{{x}}: b {b2} c"));
            v.push(format!("a {b} (!{{x}}: b {b2} c)"));
            v.push(format!("a {b} {b2} c"));
            v.push(format!("a {b}"));
            v.push(format!("{b} a"));
        }
    }
    // two groups with the same tokens but different inner grouping in one input
    v.extend(crate::formulas::reparenthesised_texts(["a", "b", "c"]));
    // identifier shapes
    for id in [
        "EXa", "EX_", "EX1", "EXX", "EF1", "AG0", "EG5", "EX_a", "AU_rich", "EW_2", "AX2b", "EU1", "AXE", "E", "A", "A_", "EY", "AUx", "EWW", "3x", "3_", "33", "V1", "Vx", "V", "3", "1", "0", "01", "10", "1a", "true", "True", "TRUE",
        "false", "False", "tt", "é", "éa", "aé", "٣", "a٣", "x²", "_", "__", "a_b", "in", "i", "n", "EXin", "αβ", "Ⅷ", "a.b", "a-b", "a'",
    ] {
        v.push(id.to_string());
        v.push(format!("~{id}"));
        v.push(format!("EX {id}"));
        v.push(format!("EX{id}"));
        v.push(format!("{id} & {id}"));
        v.push(format!("!{{{id}}}: {{{id}}}"));
        v.push(format!("3{{{id}}}: @{{{id}}}: %{id}%"));
        v.push(format!("V{{x}} in %{id}%: {id}"));
        v.push(format!("!{{x}}in%{id}%:{id}"));
        v.push(format!("3{id}"));
        v.push(format!("V{id}"));
    }
    // whitespace kinds at every boundary of fixed formulae
    let fixed: [&[&str]; 5] = [
        &["!", "{x}", ":", "AG", "EF", "{x}"],
        &["3", "{x}", "in", "%d%", ":", "@", "{x}", ":", "(", "a", "&", "~", "b", ")"],
        &["\\forall", "{y}", ":", "a", "EU", "(", "b", "=>", "c", ")"],
        &["\\bind", "{x}", "in", "%d%", ":", "True", "<=>", "%p%"],
        &["(", "a", ")", "AW", "(", "EX", "b", ")"],
    ];
    for parts in fixed {
        // (white space of several kinds, and characters that are NOT white space: C0 / C1 controls, DEL, a zero-width joiner, BOM)
        for ws in [" ", "  ", "\t", "\n", "\r\n", "\u{a0}", "\u{2003}", "\u{200b}", "", "\u{0}", "\u{1}", "\u{8}", "\u{b}", "\u{c}", "\u{1b}", "\u{1f}", "\u{7f}", "\u{85}", "\u{9f}", "\u{200d}", "\u{feff}", " \u{1} "] {
            // everywhere
            v.push(parts.join(ws));
            // at one boundary only
            for i in 1..parts.len() {
                let mut s = String::new();
                for (j, p) in parts.iter().enumerate() {
                    if j > 0 {
                        s.push_str(if j == i { ws } else { " " });
                    }
                    s.push_str(p);
                }
                v.push(s);
            }
            v.push(format!("{ws}{}{ws}", parts.join(" ")));
        }
    }
    // parentheses and groups
    for s in [
        "", " ", "()", "(())", "(a", "a)", "((a))", "(a)(b)", "(a) (b)", "a (b)", "(a) b", "(a) ~b", "a (b) ~c", "~(a) ~b", "(a) EX b", "((a)) ~ b", "(a & b) ~c",
        "(!{x}: a) ~b", "({x}) ~a", "(%p%) ~a", "(a) ~ (b)", "(a) & (b)", "(a) & ~(b)", "!{x}: (a) ~{x}", "(a) !{x}: b", "a !{x}: b", "~ !{x}: a", "EX !{x}: a",
        "!{x}: !{y}: a", "!{x}: ~ !{y}: a", "!{x}: (~ (!{y}: a))", "@{x}: !{x}: a", "!{x} in %d% in %e%: a", "@{x} in %d%: a", "\\jump {x} in %d%: a",
        "!{x}in %d%: a", "!{x} in%d%: a", "!{x} i %d%: a", "!{x} in d: a", "!{x} in %%: a", "!{} : a", "!{x}", "!{x}:", "!{x}: ", "! {x} : a", "!{ x}: a", "!{x }: a",
        "{x", "x}", "{}", "%p", "p%", "%%", "% p%", "%p %", "=", "=>", "<=", "<=>", "<>", "<", ">", "a = b", "a == b", "a => b", "a <= b", "a <=> b", "a < = > b",
        "\\bind{x}:a", "\\ bind {x}: a", "\\bindx {x}: a", "\\BIND {x}: a", "\\exists{x}in%d%:a", "\\3 {x}: a", "\\", "\\{x}: a",
    ] {
        v.push(s.to_string());
    }
    v
}

pub fn run(tier: &str) -> Result<Report, String> {
    let mut rep = Report::new("C05", tier, "exploration");
    let (t, k) = if tier == "quick" { (5, 4) } else { (6, 5) };
    for len in 1..=t {
        run_space(&mut rep, &TOKENS, len, " ", "token_sequences");
    }
    for len in 1..=k {
        run_space(&mut rep, &CHARS, len, "", "char_strings");
    }
    // hybrid-operator headers taken apart: every sequence of header pieces (operator + variable, `in`, look-alikes of
    // `in`, stray names, a domain label, the colon) followed by a body - what may stand between `{x}` and `:` is exactly
    // nothing or `in %label%`
    const HEADER: [&str; 16] = ["3{x}", "!{x}", "\\forall {x}", "@{x}", "in", "i", "inx", "junk", "n", "%d%", "d", ":", "a", "AX {x}", "1", "_"];
    for len in 1..=(if tier == "quick" { 5 } else { 6 }) {
        run_space(&mut rep, &HEADER, len, " ", "header_pieces");
        run_space(&mut rep, &HEADER, len.min(5), "", "header_pieces_glued");
    }
    let special = special_inputs();
    let mut n_special_acc = 0;
    for s in &special {
        for ext in [false, true] {
            rep.evaluations += 1;
            if let Some(what) = compare(s, ext) {
                rep.violations.push(Violation {
                    case: json!({"kind": "parse", "text": s, "ext": ext}),
                    what: format!("input {s:?} ({} parser): {what}", if ext { "extended" } else { "plain" }),
                    size: s.len(),
                });
            }
        }
        if rp::parse_str(s, true).is_ok() {
            n_special_acc += 1;
        }
    }
    rep.set("special_inputs", json!(special.len()));
    rep.set("special_inputs_accepted_by_grammar", json!(n_special_acc));
    rep.sample(json!({"token_sequence": "a EU ~ {x} & %p%", "reference_tree": rp::parse_str("a EU ~ {x} & %p%", true).map(|t| t.render()).unwrap_or_default()}));
    rep.sample(json!({"char_string": "3{x}in", "reference": format!("{:?}", rp::parse_str("3{x}in", true).map(|t| t.render()))}));
    rep.sample(json!({"special": special[special.len() / 2]}));
    rep.rule = format!(
        "(a) every sequence of 1..{t} tokens over the 27-token alphabet {TOKENS:?} joined by single spaces, (b) every string of 1..{k} symbols over {CHARS:?}, (b2) every sequence of up to 5 (6) space-separated and of up to 5 glued hybrid-header pieces (3{{x}}, !{{x}}, \\forall {{x}}, @{{x}}, in, i, inx, junk, n, %d%, d, :, a, AX {{x}}, 1, _), (c) {} deterministic long/odd inputs (operator chains of depth 40, all pairs of binary operators, identifier shapes, unicode whitespace at every boundary); each through the plain and the extended tokenizer+parser and through the independent reference tokenizer + recursive-descent parser: accept/reject, token lists and trees must agree, the parse-and-preprocess wrappers parse_and_minimize_(hctl|extended)_formula (context of a network with the propositions a and _) accept nothing their parser rejects and everything derivable that is well-scoped over these propositions, and the extended parser must equal the plain one on plain formulae; distinct_nontrivial = number of distinct trees the grammar derives in the explored spaces",
        special.len()
    );
    rep.assumptions.push("the reference grammar is the one written in the README / property C05 (H* prefix, <=> < => < | < ^ < & < binary temporal < unary, all binary operators right-associative); lexical conventions (maximal-munch identifiers, E?/A? operator names, '3'/'V' alone are quantifiers, Unicode alphanumerics/whitespace) are taken from the documentation of the tokenizer".into());
    Ok(rep)
}
