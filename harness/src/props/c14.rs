//! C14 — invalid input is rejected with an error, never a panic or a silent answer.

use super::common::*;
use crate::bridge::Bound;
use crate::formulas::{Alphabet, Gen, Names, F};
use crate::refparser::{self as rp};
use crate::report::{guarded, Report, Violation};
use crate::sweep::label_families;
use biodivine_hctl_model_checker::model_checking as mc;
use biodivine_lib_param_bn::symbolic_async_graph::{GraphColoredVertices, SymbolicAsyncGraph};
use rayon::prelude::*;
use serde_json::{json, Value};
use std::collections::HashMap;
use std::panic::AssertUnwindSafe;
use std::sync::Arc;

type Ctx = HashMap<String, GraphColoredVertices>;

#[derive(Clone, Copy, Debug, PartialEq)]
enum Out {
    Ok,
    Err,
    Panic,
}

fn classify<T>(f: impl FnOnce() -> Result<T, String>) -> (Out, String) {
    match guarded(AssertUnwindSafe(f)) {
        Ok(Ok(_)) => (Out::Ok, String::new()),
        Ok(Err(e)) => (Out::Err, e),
        Err(p) => (Out::Panic, p),
    }
}

fn cb(_: &GraphColoredVertices, _: &str) {}

/// a valid formula without quantifiers whose tree is taller than every enumerated input
const TALL: &str = "AX (AX (AX (AX (AX (AX (AX (AX (EF a))))))))";

/// Run every plain string entry point on `s`; returns (entry, outcome, detail).
fn plain_entries(s: &str, g: &SymbolicAsyncGraph, valid: &str) -> Vec<(&'static str, Out, String)> {
    let tall = TALL.replace("EF a", &format!("EF {valid}"));
    let tall = tall.as_str();
    let mut v = vec![];
    let mut push = |n: &'static str, r: (Out, String)| v.push((n, r.0, r.1));
    push("model_check_formula", classify(|| mc::model_check_formula(s, g)));
    push("model_check_formula_dirty", classify(|| mc::model_check_formula_dirty(s, g)));
    push("model_check_multiple_formulae", classify(|| mc::model_check_multiple_formulae(vec![s], g)));
    push("model_check_multiple_formulae_dirty", classify(|| mc::model_check_multiple_formulae_dirty(vec![s], g)));
    push("model_check_multiple_formulae[valid,s]", classify(|| mc::model_check_multiple_formulae(vec![valid, s], g)));
    push("model_check_multiple_formulae_dirty[s,valid]", classify(|| mc::model_check_multiple_formulae_dirty(vec![s, valid], g)));
    // lists in which the other (valid) formula is TALLER than `s` and needs no spare variable set
    push("model_check_multiple_formulae[tall,s]", classify(|| mc::model_check_multiple_formulae(vec![tall, s], g)));
    push("model_check_multiple_formulae_dirty[s,tall]", classify(|| mc::model_check_multiple_formulae_dirty(vec![s, tall], g)));
    push("model_check_formula_unsafe_ex", classify(|| mc::model_check_formula_unsafe_ex(s, g)));
    push("_model_check_formula", classify(|| mc::_model_check_formula(s, g, &mut cb)));
    push("_model_check_formula_dirty", classify(|| mc::_model_check_formula_dirty(s, g, &mut cb)));
    push("_model_check_multiple_formulae", classify(|| mc::_model_check_multiple_formulae(vec![s], g, &mut cb)));
    push("_model_check_multiple_formulae_dirty", classify(|| mc::_model_check_multiple_formulae_dirty(vec![s], g, &mut cb)));
    v
}

fn ext_entries(s: &str, g: &SymbolicAsyncGraph, ctx: &Ctx, valid: &str) -> Vec<(&'static str, Out, String)> {
    let tall = TALL.replace("EF a", &format!("EF {valid}"));
    let tall = tall.as_str();
    let mut v = vec![];
    let mut push = |n: &'static str, r: (Out, String)| v.push((n, r.0, r.1));
    push("model_check_extended_formula", classify(|| mc::model_check_extended_formula(s, g, ctx)));
    push("model_check_extended_formula_dirty", classify(|| mc::model_check_extended_formula_dirty(s, g, ctx)));
    push("model_check_multiple_extended_formulae", classify(|| mc::model_check_multiple_extended_formulae(vec![s], g, ctx)));
    push("model_check_multiple_extended_formulae_dirty", classify(|| mc::model_check_multiple_extended_formulae_dirty(vec![s], g, ctx)));
    push("model_check_multiple_extended_formulae[valid,s]", classify(|| mc::model_check_multiple_extended_formulae(vec![valid, s], g, ctx)));
    push("model_check_multiple_extended_formulae_dirty[s,valid]", classify(|| mc::model_check_multiple_extended_formulae_dirty(vec![s, valid], g, ctx)));
    push("model_check_multiple_extended_formulae[tall,s]", classify(|| mc::model_check_multiple_extended_formulae(vec![tall, s], g, ctx)));
    push("model_check_multiple_extended_formulae_dirty[s,tall]", classify(|| mc::model_check_multiple_extended_formulae_dirty(vec![s, tall], g, ctx)));
    push("_model_check_extended_formula", classify(|| mc::_model_check_extended_formula(s, g, ctx, &mut cb)));
    push("_model_check_extended_formula_dirty", classify(|| mc::_model_check_extended_formula_dirty(s, g, ctx, &mut cb)));
    push("_model_check_multiple_extended_formulae", classify(|| mc::_model_check_multiple_extended_formulae(vec![s], g, ctx, &mut cb)));
    push("_model_check_multiple_extended_formulae_dirty", classify(|| mc::_model_check_multiple_extended_formulae_dirty(vec![s], g, ctx, &mut cb)));
    v
}

pub struct Env {
    pub b: Arc<Bound>,
    pub graphs: Vec<SymbolicAsyncGraph>, // k = 0..=3
    pub props: Vec<String>,
}

impl Env {
    pub fn new(b: Arc<Bound>) -> Env {
        let graphs = (0..=3).map(|k| b.graph_with_k(k)).collect();
        let props = b.spec.vars.clone();
        Env { b, graphs, props }
    }
    /// context sets for graph `k` from label masks
    pub fn ctx_for(&self, k: usize, labels: &[(String, Vec<u64>)]) -> Ctx {
        labels.iter().map(|(n, m)| (n.clone(), self.b.mk_set_in(&self.graphs[k], m))).collect()
    }
}

/// What the property dictates for a string (None = reject), independent of the implementation:
/// Some((nesting depth, wild labels, domain labels)).
fn reference(s: &str, ext: bool, props: &[String]) -> Option<(usize, Vec<String>, Vec<String>)> {
    let t = rp::parse_str(s, ext).ok()?;
    if !t.scope_ok(&mut vec![], props) {
        return None;
    }
    let (mut w, mut d) = (vec![], vec![]);
    t.labels(&mut w, &mut d);
    Some((t.qdepth(), w, d))
}

/// Check one string on the graphs `ks`; `labels` is the context map given to extended entry points.
pub fn check_string(env: &Env, s: &str, ks: &[usize], labels: &[(String, Vec<u64>)]) -> Vec<String> {
    let mut bad = vec![];
    let plain_ref = reference(s, false, &env.props);
    let ext_ref = reference(s, true, &env.props);
    let present: Vec<&String> = labels.iter().map(|(n, _)| n).collect();
    for &k in ks {
        let g = &env.graphs[k];
        let want_plain = matches!(&plain_ref, Some((d, _, _)) if *d <= k);
        for (name, out, detail) in plain_entries(s, g, &env.props[0]) {
            let want = if name.contains("unsafe_ex") { want_plain } else { want_plain };
            match out {
                Out::Panic => bad.push(format!("{name} (k={k}) panics: {detail}")),
                Out::Ok if !want => bad.push(format!("{name} (k={k}) returns a result although the input must be rejected")),
                Out::Err if want => bad.push(format!("{name} (k={k}) returns Err({detail}) for a valid input")),
                _ => {}
            }
        }
        let ctx = env.ctx_for(k, labels);
        let want_ext = matches!(&ext_ref, Some((d, w, dm)) if *d <= k && w.iter().all(|x| present.contains(&x)) && dm.iter().all(|x| present.contains(&x)));
        for (name, out, detail) in ext_entries(s, g, &ctx, &env.props[0]) {
            match out {
                Out::Panic => bad.push(format!("{name} (k={k}) panics: {detail}")),
                Out::Ok if !want_ext => bad.push(format!("{name} (k={k}) returns a result although the input must be rejected (labels present: {present:?})")),
                Out::Err if want_ext => bad.push(format!("{name} (k={k}) returns Err({detail}) for a valid input with all labels present")),
                _ => {}
            }
        }
    }
    bad
}

pub fn replay(case: &Value) -> Option<String> {
    let spec = serde_json::from_value(case["net"].clone()).ok()?;
    let b = Arc::new(Bound::new("replay", &spec, 0).ok()?);
    let env = Env::new(b);
    let labels: Vec<(String, Vec<u64>)> = serde_json::from_value(case["labels"].clone()).ok()?;
    let ks: Vec<usize> = serde_json::from_value(case["ks"].clone()).ok()?;
    let bad = check_string(&env, case["text"].as_str()?, &ks, &labels);
    if bad.is_empty() {
        None
    } else {
        Some(bad.join(" | "))
    }
}

fn case(env: &Env, s: &str, ks: &[usize], labels: &[(String, Vec<u64>)]) -> Value {
    json!({"kind": "reject", "net": env.b.spec, "aeon": env.b.aeon, "text": s, "ks": ks, "labels": labels})
}

const TOKENS: [&str; 27] = [
    "a", "True", "{x}", "%p%", "~", "EX", "&", "|", "^", "=>", "<=>", "EU", "AU", "EW", "AW", "!{x}:", "@{x}:", "3{y} in %d%:", "(", ")",
    "\\forall {y} in %e%:", "\\bind {x} in %d%:", "V{y} in %e%:", "\\exists {y} in %q%:",
    "TRUE", "fALSE", "b",
];
const CHARS: [&str; 25] = [
    "a", "E", "X", "A", "U", "3", "V", "x", "_", "{", "}", "(", ")", "~", "&", "=", ">", "<", ":", "!", "@", "%", "\\", " ", "in",
];

#[derive(Default)]
struct Acc {
    n: u64,
    valid: u64,
    calls: u64,
    nbad: u64,
    bad: Vec<Violation>,
}
fn merge(mut a: Acc, b: Acc) -> Acc {
    a.n += b.n;
    a.valid += b.valid;
    a.calls += b.calls;
    a.nbad += b.nbad;
    a.bad.extend(b.bad);
    a
}

fn run_strings(rep: &mut Report, env: &Env, alphabet: &[&str], len: usize, sep: &str, labels: &[(String, Vec<u64>)], tag: &str) {
    let base = alphabet.len() as u64;
    let total = base.pow(len as u32);
    let acc = (0..total)
        .into_par_iter()
        .fold(Acc::default, |mut acc, mut idx| {
            let mut parts = Vec::with_capacity(len);
            for _ in 0..len {
                parts.push(alphabet[(idx % base) as usize]);
                idx /= base;
            }
            let s = parts.join(sep);
            let parses = rp::parse_str(&s, true).is_ok();
            let ks: Vec<usize> = if parses { vec![0, 1, 2, 3] } else { vec![0, 2] };
            acc.n += 1;
            acc.calls += ks.len() as u64 * 25;
            if parses {
                acc.valid += 1;
            }
            let bad = check_string(env, &s, &ks, labels);
            if !bad.is_empty() {
                acc.nbad += 1;
                if acc.bad.len() < 30 {
                    acc.bad.push(Violation { case: case(env, &s, &ks, labels), what: format!("input {s:?}: {}", bad.join(" | ")), size: s.len() });
                }
            }
            acc
        })
        .reduce(Acc::default, merge);
    rep.evaluations += acc.calls;
    rep.distinct_nontrivial += acc.valid;
    rep.add_count(&format!("{tag}_len{len}"), acc.n);
    rep.add_count("strings_the_grammar_derives", acc.valid);
    rep.add_count("failing_inputs", acc.nbad);
    rep.violations.extend(acc.bad);
}

pub fn run(tier: &str) -> Result<Report, String> {
    let mut rep = Report::new("C14", tier, "exploration");
    let nets = core_nets(0)?;
    let b = by_name(&nets, "con2");
    let env = Env::new(b.clone());
    let fams = label_families(&b, 4);
    // labels p and d present (mixed family), q / e absent
    let mixed: Vec<(String, Vec<u64>)> = vec![("p".into(), fams[0].1.wild[0].clone()), ("d".into(), fams[0].1.dom[0].clone())];
    let (t, k) = if tier == "quick" { (4, 3) } else { (5, 4) };
    for len in 1..=t {
        run_strings(&mut rep, &env, &TOKENS, len, " ", &mixed, "token_sequences");
    }
    for len in 1..=k {
        run_strings(&mut rep, &env, &CHARS, len, "", &mixed, "char_strings");
    }
    // (a2) a network whose variable names interact with token boundaries: `EF_x` (operator look-alike + underscore)
    //      and `_x` (the remainder of such a name): what is accepted depends on the names the network has
    {
        let b2 = Arc::new(bind("und2", &crate::nets::spec("EF_x -> _x; _x -| EF_x"), 0)?);
        let env2 = Env::new(b2);
        const T2: [&str; 14] = ["EF_x", "_x", "EF", "AG_x", "EX_x", "AG", "~", "&", "EU_x", "EU", "(", ")", "AX_", "x"];
        for len in 1..=(if tier == "quick" { 3 } else { 4 }) {
            run_strings(&mut rep, &env2, &T2, len, " ", &[], "underscore_names");
        }
    }
    // (b) valid extended formulae x every subset of the required labels x label families
    let names = Names::user(&[b.spec.vars[0].clone(), b.spec.vars[1].clone()]);
    let mut gen = Gen::new(Alphabet::extended(2, 2, 2, 2));
    let m = if tier == "quick" { 3 } else { 4 };
    let fs: Vec<F> = gen.closed_up_to(m).into_iter().filter(|f| f.uses_wild_or_dom()).collect();
    let mut subsets_total = 0u64;
    for (fi, (desc, lab)) in fams.iter().enumerate() {
        let all: Vec<(String, Vec<u64>)> = vec![
            ("p".into(), lab.wild[0].clone()),
            ("q".into(), lab.wild[1].clone()),
            ("d".into(), lab.dom[0].clone()),
            ("e".into(), lab.dom[1].clone()),
        ];
        let res: Vec<(u64, Option<Violation>)> = fs
            .par_iter()
            .map(|f| {
                let s = f.show(&names);
                let (mut w, mut d) = (vec![], vec![]);
                f.labels(&mut w, &mut d);
                let mut need: Vec<String> = w.iter().map(|i| names.wilds[*i as usize].clone()).collect();
                need.extend(d.iter().map(|i| names.doms[*i as usize].clone()));
                let mut n = 0;
                let mut first = None;
                for mask in 0..(1u32 << need.len()) {
                    // only the first family exercises the proper subsets; the others the full set
                    if fi > 0 && mask != (1 << need.len()) - 1 {
                        continue;
                    }
                    let labels: Vec<(String, Vec<u64>)> = all.iter().filter(|(n, _)| need.iter().enumerate().any(|(j, x)| x == n && mask >> j & 1 == 1)).cloned().collect();
                    n += 1;
                    let ks = [f.qdepth().saturating_sub(1), f.qdepth(), 3];
                    let bad = check_string(&env, &s, &ks, &labels);
                    if !bad.is_empty() && first.is_none() {
                        first = Some(Violation { case: case(&env, &s, &ks, &labels), what: format!("formula {s} with labels {:?} ({desc}): {}", labels.iter().map(|l| &l.0).collect::<Vec<_>>(), bad.join(" | ")), size: f.size() });
                    }
                }
                (n, first)
            })
            .collect();
        for (n, v) in res {
            subsets_total += n;
            rep.evaluations += n * 3 * 25;
            if let Some(v) = v {
                if rep.violations.len() < 200 {
                    rep.violations.push(v);
                }
                rep.add_count("failing_inputs", 1);
            }
        }
    }
    rep.set("valid_extended_formulae", json!(fs.len()));
    rep.set("formula_label_subset_cases", json!(subsets_total));
    // (b3) one context label in BOTH roles (wild-card proposition %s% and domain `in %s%`), inside one formula and across the
    //      formulae of a batch: valid input - every multi-formula extended entry point must return Ok, position by position
    //      the result of the formula evaluated on its own
    {
        let pool = [
            "EF %s%", "%t% & AX %s%", "3{x} in %s%: @{x}: AX {x}", "!{x} in %s%: AX {x}", "V{x} in %t%: (%s% | EF {x})", "!{x} in %t%: (%t% & EX {x})", "%t%",
            "3{x} in %t%: 3{y} in %s%: (@{x}: EF {y})", "!{x} in %s%: (%s% | AX {x})",
        ];
        let g = &env.graphs[2];
        let sets: Ctx = HashMap::from([("s".to_string(), b.mk_set_in(g, &fams[0].1.dom[0])), ("t".to_string(), b.mk_set_in(g, &fams[0].1.wild[0]))]);
        let single: Vec<Result<GraphColoredVertices, String>> = pool.iter().map(|f| guarded(AssertUnwindSafe(|| mc::model_check_extended_formula_dirty(f, g, &sets))).and_then(|r| r)).collect();
        let mut lists: Vec<Vec<usize>> = vec![];
        for i in 0..pool.len() {
            for j in 0..pool.len() {
                if i != j {
                    lists.push(vec![i, j]);
                    if tier != "quick" || (i + j) % 2 == 0 {
                        for l in 0..pool.len() {
                            if l != i && l != j {
                                lists.push(vec![i, j, l]);
                            }
                        }
                    }
                }
            }
        }
        let bad: Vec<Violation> = lists
            .par_iter()
            .filter_map(|l| {
                let texts: Vec<&str> = l.iter().map(|i| pool[*i]).collect();
                let runs: Vec<(&str, Result<Result<Vec<GraphColoredVertices>, String>, String>)> = vec![
                    ("model_check_multiple_extended_formulae_dirty", guarded(AssertUnwindSafe(|| mc::model_check_multiple_extended_formulae_dirty(texts.clone(), g, &sets)))),
                    ("_model_check_multiple_extended_formulae_dirty", guarded(AssertUnwindSafe(|| mc::_model_check_multiple_extended_formulae_dirty(texts.clone(), g, &sets, &mut cb)))),
                    ("model_check_multiple_extended_formulae", guarded(AssertUnwindSafe(|| mc::model_check_multiple_extended_formulae(texts.clone(), g, &sets)))),
                ];
                for (entry, r) in runs {
                    let what = match r {
                        Err(p) => Some(format!("{entry}({texts:?}) panics: {p}")),
                        Ok(Err(e)) => Some(format!("{entry}({texts:?}) returns Err for a valid batch with a complete context: {e}")),
                        Ok(Ok(v)) => {
                            if v.len() != l.len() {
                                Some(format!("{entry}({texts:?}) returns {} results", v.len()))
                            } else if entry.ends_with("_dirty") {
                                l.iter().enumerate().find_map(|(pos, i)| match &single[*i] {
                                    Ok(s) if s.as_bdd() == v[pos].as_bdd() => None,
                                    Ok(_) => Some(format!("{entry}({texts:?}): position {pos} differs from the formula evaluated on its own")),
                                    Err(e) => Some(format!("single evaluation of {} fails: {e}", pool[*i])),
                                })
                            } else {
                                None
                            }
                        }
                    };
                    if let Some(w) = what {
                        return Some(Violation { case: json!({"kind": "none"}), what: w, size: l.len() });
                    }
                }
                None
            })
            .collect();
        rep.evaluations += lists.len() as u64 * 3;
        rep.add_count("batches_with_one_label_in_both_roles", lists.len() as u64);
        rep.violations.extend(bad.into_iter().take(20));
    }
    // (b2) binding rules through the string entry points: every tree over a binder-focused alphabet
    //      (two variable names, all three quantifiers, jump, one unary and one binary operator), printed;
    //      the ill-scoped ones must be rejected, the well-scoped ones accepted, by every entry point
    {
        use crate::formulas::{Bi, Hy, Un};
        use crate::trees::{TreeAlphabet, TreeGen};
        let sv = |v: &[&str]| v.iter().map(|x| x.to_string()).collect::<Vec<_>>();
        let alpha = TreeAlphabet { consts: vec![], props: sv(&["a"]), vars: sv(&["x", "y"]), wilds: vec![], doms: sv(&["d"]), un: vec![Un::AX], bi: vec![Bi::And], quant: vec![Hy::Bind, Hy::Exists, Hy::Forall], jump: true };
        let smax = if tier == "quick" { 5 } else { 7 };
        let mut tg = TreeGen::new(alpha.clone());
        let mut total = 0u64;
        for size in 1..=smax {
            let acc = tg.par_visit_exact(
                size,
                Acc::default,
                |acc, t| {
                    let s = t.render();
                    let ok = t.scope_ok(&mut vec![], &env.props);
                    let ks: Vec<usize> = if ok { vec![0, 1, 2, 3] } else { vec![0, 2] };
                    acc.n += 1;
                    acc.calls += ks.len() as u64 * 25;
                    if ok {
                        acc.valid += 1;
                    }
                    let bad = check_string(&env, &s, &ks, &mixed);
                    if !bad.is_empty() {
                        acc.nbad += 1;
                        if acc.bad.len() < 10 {
                            acc.bad.push(Violation { case: case(&env, &s, &ks, &mixed), what: format!("input {s:?}: {}", bad.join(" | ")), size: s.len() });
                        }
                    }
                },
                merge,
            );
            total += acc.n;
            rep.evaluations += acc.calls;
            rep.distinct_nontrivial += acc.valid;
            rep.add_count("failing_inputs", acc.nbad);
            let mut bad = acc.bad;
            bad.sort_by_key(|v| v.size);
            rep.violations.extend(bad.into_iter().take(15));
        }
        rep.set("binder_alphabet_trees", json!({"alphabet": alpha.describe(), "max_nodes": smax, "trees": total}));
    }
    // (c) deterministic deep inputs
    let mut deep: Vec<String> = vec![];
    for d in [10usize, 40] {
        deep.push(format!("{}a{}", "(".repeat(d), ")".repeat(d)));
        deep.push(format!("{}a{}", "(".repeat(d), ")".repeat(d - 1)));
        deep.push(format!("{}a{}", "(".repeat(d - 1), ")".repeat(d)));
        deep.push(format!("{}a", "~ EX ".repeat(d)));
        deep.push(format!("{}a", "AG (EF ".repeat(d)) + &")".repeat(d));
        let mut q = String::new();
        for i in 0..d {
            q.push_str(&format!("{}{{v{i}}}: ", ["!", "3", "V"][i % 3]));
        }
        deep.push(format!("{q}a"));
        deep.push(format!("{q}{{v0}} & {{v{}}}", d - 1));
        deep.push(format!("{q}{{v{d}}}"));
        let mut sib = String::from("a");
        for i in 0..d {
            sib = format!("(!{{x}}: {{x}} & {sib}) | (3{{y{i}}}: @{{y{i}}}: b)");
        }
        deep.push(sib);
        deep.push("a & ".repeat(d) + "a");
        deep.push("a & ".repeat(d));
    }
    // long inputs with multi-byte names (error messages that cut text at a byte offset): every alignment of
    // 2-, 3- and 4-byte characters against offsets 0..47, as juxtaposed operands (invalid) and as a conjunction (valid shape, unknown names)
    for ch in ["é", "細", "𝔸"] {
        for i in 0..48usize {
            deep.push(format!("{}{} b", "a".repeat(i), ch.repeat(150)));
            deep.push(format!("{} {}", "a".repeat(i + 1), format!("{ch} ").repeat(120)));
            deep.push(format!("{}{} & {}", "a".repeat(i), ch.repeat(150), ch.repeat(90)));
            deep.push(format!("!{{{}{}}}: AX {{x}}", "x".repeat(i), ch.repeat(120)));
        }
    }
    // every kind of Unicode white space in every gap of a hybrid operator's header (valid formulae)
    for ws in ["\u{a0}", "\u{2003}", "\u{b}", "\u{85}", "\u{3000}", "\u{202f}", "\t\u{a0}\n"] {
        for (op, long) in [("!", "\\bind"), ("3", "\\exists"), ("V", "\\forall")] {
            deep.push(format!("{op}{ws}{{x}}{ws}:{ws}AX{ws}{{x}}"));
            deep.push(format!("{op}{ws}{{x}}{ws}in{ws}%d%{ws}:{ws}(%p%{ws}|{ws}AX {{x}})"));
            deep.push(format!("{long}{ws}{{x}}{ws}in{ws}%d%{ws}:{ws}EX {{x}}"));
            deep.push(format!("{op}{{x}}:{ws}@{ws}{{x}}{ws}:{ws}a"));
            deep.push(format!("{op}{{x}}:{ws}\\jump{ws}{{x}}{ws}:{ws}a"));
        }
    }
    deep.push("!{x}: !{xx}: !{xxx}: !{xxxx}: ({x} & {xxxx})".into());
    deep.push("!{x}: !{xx}: !{xxx}: ({x} & {xxx})".into());
    // names of OTHER symbolic variables of the graph used as propositions (which ones exist depends on the number of spare
    // variable sets of the graph): not network variables, so the input must be rejected
    for n in ["a_extra_0", "a_extra_1", "a_extra_2", "b_extra_0", "b_extra_2", "a_extra_3"] {
        for shape in ["{n}", "EF {n}", "~ {n} & a", "!{x}: AX ({x} | {n})", "3{x} in %d%: @{x}: ({n} & %p%)", "a EU {n}"] {
            deep.push(shape.replace("{n}", n));
        }
    }
    // the same sub-formula TEXT twice at the same quantifier depth, well-scoped the first time and ill-scoped the second (a free
    // variable, a free jump target, a variable quantified again inside its own scope) - and the mirrored, equally invalid orders
    for q in ["!", "3", "V"] {
        for body in ["AX {x}", "@{x}: EF a", "{x} & a", "EF (a | {x})"] {
            for op in ["&", "|", "EU"] {
                deep.push(format!("({q}{{x}}: {body}) {op} ({q}{{y}}: {body})"));
                deep.push(format!("({q}{{y}}: {body}) {op} ({q}{{x}}: {body})"));
                deep.push(format!("({q}{{y}}: ({q}{{x}}: {body})) {op} ({q}{{x}}: ({q}{{x}}: {body}))"));
                deep.push(format!("({q}{{x}}: {body}) {op} ({q}{{x}}: {body})"));
            }
        }
    }
    // wild-card propositions needed inside a restricted scope and again outside it (valid inputs: labels p and d are present)
    deep.extend(crate::formulas::wildcard_count_texts());
    for s in &deep {
        rep.evaluations += 4 * 25;
        let bad = check_string(&env, s, &[0, 1, 2, 3], &mixed);
        if !bad.is_empty() {
            rep.violations.push(Violation { case: case(&env, s, &[0, 1, 2, 3], &mixed), what: format!("input {:?}: {}", crate::report::truncate(s, 120), bad.join(" | ")), size: s.len() });
        }
    }
    rep.set("deep_inputs", json!(deep.len()));
    // SymbolicAsyncGraph::new (no spare variables at all) on a few inputs
    let g0 = SymbolicAsyncGraph::new(&b.bn).map_err(|e| e.to_string())?;
    for s in ["a", "!{x}: {x}", "AG EF a", "(", "%p%"] {
        let want = s == "a" || s == "AG EF a";
        for (name, out, detail) in plain_entries(s, &g0, "a") {
            rep.evaluations += 1;
            let ok = match out {
                Out::Panic => false,
                Out::Ok => want,
                Out::Err => !want,
            };
            if !ok {
                rep.violations.push(Violation { case: json!({"kind": "none"}), what: format!("{name} on SymbolicAsyncGraph::new with input {s:?}: {out:?} {detail}"), size: 1 });
            }
        }
    }
    // boundary: the empty list through the multi-formula entry points (no panic, no result for nothing)
    {
        let g = &env.graphs[1];
        let ctx = env.ctx_for(1, &mixed);
        let outs: Vec<(&str, Result<Result<usize, String>, String>)> = vec![
            ("model_check_multiple_formulae([])", guarded(AssertUnwindSafe(|| mc::model_check_multiple_formulae(vec![], g).map(|v| v.len())))),
            ("model_check_multiple_formulae_dirty([])", guarded(AssertUnwindSafe(|| mc::model_check_multiple_formulae_dirty(vec![], g).map(|v| v.len())))),
            ("model_check_multiple_extended_formulae([])", guarded(AssertUnwindSafe(|| mc::model_check_multiple_extended_formulae(vec![], g, &ctx).map(|v| v.len())))),
            ("model_check_multiple_extended_formulae_dirty([])", guarded(AssertUnwindSafe(|| mc::model_check_multiple_extended_formulae_dirty(vec![], g, &ctx).map(|v| v.len())))),
            ("model_check_multiple_trees([])", guarded(AssertUnwindSafe(|| mc::model_check_multiple_trees(vec![], g).map(|v| v.len())))),
        ];
        for (name, o) in outs {
            rep.evaluations += 1;
            let what = match o {
                Ok(Ok(0)) | Ok(Err(_)) => None,
                Ok(Ok(n)) => Some(format!("{name} returns {n} results")),
                Err(p) => Some(format!("{name} panics: {p}")),
            };
            if let Some(w) = what {
                rep.violations.push(Violation { case: json!({"kind": "none"}), what: w, size: 0 });
            }
        }
    }
    rep.sample(json!({"input": "!{x}: @{y}: a", "expected": "Err from every entry point (free jump target), for every k"}));
    rep.sample(json!({"input": "3{y} in %d%: ~ {y}", "labels_present": ["p"], "expected": "Err (domain d has no context set)"}));
    rep.sample(json!({"input": "3{y} in %d%: ~ {y}", "labels_present": ["p", "d"], "k": 0, "expected": "Err (needs 1 spare variable set)"}));
    rep.rule = format!("(a) every sequence of 1..{t} tokens over {TOKENS:?} and every string of 1..{k} symbols over {CHARS:?} through all 25 string entry points (plain, dirty, multiple, extended, unsafe_ex, callback variants, lists [valid,s] / [s,valid] with a short and with a tall valid formula) on graphs with k=0,2 (k=0..3 when the grammar derives the string) spare variable sets; (a2) every sequence of <= 3 (4) tokens over {{EF_x, _x, EF, AG_x, EX_x, AG, ~, &, EU_x, EU, (, ), AX_, x}} on a network with the variables EF_x and _x; (b) every closed extended formula with <= {m} nodes x every subset of its required labels (sets: mixed / empty / full / colour-disjoint families) x k in {{depth-1, depth, 3}}; (b3) every ordered pair and triple of 9 formulae that use one context label both as a wild-card proposition and as a domain, through three multi-formula extended entry points (Ok, position by position the single result); (b2) every tree with at most 5 (thorough 7) nodes over the binder-focused alphabet {{a, x, y, AX, &, @, and ! / 3 / V each without and with the domain %d%}} printed and given to all 25 entry points (ill-scoped: Err; well-scoped: Ok when k suffices); (c) {} deep / long inputs (nesting 10 and 40; names of the graph's spare symbolic variables as propositions; long names of 2-, 3- and 4-byte characters at every byte alignment; 7 kinds of Unicode white space in every gap of every hybrid operator header). Oracle: Ok iff reference parser accepts, scope rules hold, all labels present and k >= nesting depth; Err otherwise; a panic is always a violation. distinct_nontrivial = number of enumerated strings the grammar derives", deep.len());
    rep.assumptions.push("context sets satisfy the documented precondition (inside the unit set, independent of auxiliary variables)".into());
    Ok(rep)
}
