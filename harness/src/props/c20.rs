//! C20 — the answer for a colour equals the answer on the network instantiated by that colour.

use super::common::*;
use crate::bigmodels;
use crate::bridge::{Bound, Mask};
use crate::formulas::{templates, Alphabet, Gen, Names, F};
use crate::oracle::Labels;
use crate::report::{guarded, Report, Violation};
use crate::sweep::{Got, NetCtx};
use biodivine_hctl_model_checker::mc_utils::get_extended_symbolic_graph;
use biodivine_hctl_model_checker::model_checking as mc;
use biodivine_lib_bdd::BddValuation;
use biodivine_lib_param_bn::biodivine_std::bitvector::BitVector;
use biodivine_lib_param_bn::biodivine_std::traits::Set;
use biodivine_lib_param_bn::symbolic_async_graph::{GraphColoredVertices, GraphColors, SymbolicAsyncGraph};
use biodivine_lib_param_bn::BooleanNetwork;
use rayon::prelude::*;
use serde_json::{json, Value};
use std::panic::AssertUnwindSafe;
use std::sync::Arc;

/// State mask of a sanitised result computed on a parameter-free (witness) graph.
fn state_mask(set: &GraphColoredVertices, g: &SymbolicAsyncGraph, n: usize) -> Result<Mask, String> {
    let ctx = g.symbolic_context().as_canonical_context();
    if ctx.num_parameter_variables() != 0 {
        return Err("witness network still has parameters".into());
    }
    if set.as_bdd().num_vars() != ctx.bdd_variable_set().num_vars() {
        return Err("result on the witness network is not in its canonical context".into());
    }
    let mut m = 0;
    for s in 0..(1usize << n) {
        let mut v = BddValuation::all_false(ctx.bdd_variable_set().num_vars());
        for (i, sv) in ctx.state_variables().iter().enumerate() {
            v.set_value(*sv, s >> i & 1 == 1);
        }
        if set.as_bdd().eval_in(&v) {
            m |= 1 << s;
        }
    }
    Ok(m)
}

pub struct Witnesses {
    pub graphs: Vec<SymbolicAsyncGraph>,
}

impl Witnesses {
    pub fn new(b: &Bound) -> Result<Witnesses, String> {
        let mut graphs = vec![];
        for ci in 0..b.cols.len() {
            let w = b.witness(ci);
            graphs.push(get_extended_symbolic_graph(&w, b.k)?);
        }
        Ok(Witnesses { graphs })
    }
}

pub fn check(ctx: &NetCtx, w: &Witnesses, f: &F) -> Vec<String> {
    let text = f.show(&ctx.user);
    let mut bad = vec![];
    let param = match ctx.formula(&text) {
        Got::Set(s) => s,
        other => return vec![format!("parametrised evaluation of {text} fails: {other:?}")],
    };
    if !ctx.is_canonical_shape(&param) {
        return vec!["sanitised parametrised result is not in the canonical context".into()];
    }
    let slices = ctx.masks_of_canonical(&param);
    let expected = ctx.expected(f);
    for ci in 0..ctx.b.cols.len() {
        let g = &w.graphs[ci];
        match guarded(AssertUnwindSafe(|| mc::model_check_formula(&text, g))) {
            Ok(Ok(r)) => match state_mask(&r, g, ctx.b.n) {
                Ok(m) => {
                    if m != slices[ci] {
                        bad.push(format!(
                            "colour {} [{}]: parametrised result has states {:0w$b}, the instantiated network gives {:0w$b} (explicit-state oracle: {:0w$b})",
                            ci,
                            ctx.b.cols[ci].interp.describe(&ctx.b.spec),
                            slices[ci],
                            m,
                            expected[ci],
                            w = ctx.b.n_states()
                        ));
                    }
                }
                Err(e) => bad.push(e),
            },
            Ok(Err(e)) => bad.push(format!("instantiated network of colour {ci} rejects {text}: {e}")),
            Err(p) => bad.push(format!("instantiated network of colour {ci} panics on {text}: {p}")),
        }
        if bad.len() > 2 {
            break;
        }
    }
    bad
}

/// Set of the states in `mask` on a (parameter-free) witness graph.
fn set_of_mask(g: &SymbolicAsyncGraph, n: usize, mask: Mask) -> GraphColoredVertices {
    let vars: Vec<_> = g.variables().collect();
    let mut out = g.mk_empty_colored_vertices();
    for s in 0..(1usize << n) {
        if mask >> s & 1 == 1 {
            let mut v = g.mk_unit_colored_vertices();
            for (i, var) in vars.iter().enumerate() {
                v = v.fix_network_variable(*var, s >> i & 1 == 1);
            }
            out = out.union(&v);
        }
    }
    out
}

/// Extended formulae: the context sets of the instantiated network are the colour's slices of the
/// parametrised context sets.
pub fn check_ext(ctx: &NetCtx, w: &Witnesses, f: &F) -> Vec<String> {
    let text = f.show(&ctx.user);
    let mut bad = vec![];
    let param = match ctx.ext(&text) {
        Got::Set(s) => s,
        other => return vec![format!("parametrised evaluation of {text} fails: {other:?}")],
    };
    if !ctx.is_canonical_shape(&param) {
        return vec!["sanitised parametrised result is not in the canonical context".into()];
    }
    let slices = ctx.masks_of_canonical(&param);
    for ci in 0..ctx.b.cols.len() {
        let g = &w.graphs[ci];
        let mut sets: std::collections::HashMap<String, GraphColoredVertices> = std::collections::HashMap::new();
        for (i, m) in ctx.labels.wild.iter().enumerate() {
            sets.insert(ctx.user.wilds[i].clone(), set_of_mask(g, ctx.b.n, m[ci]));
        }
        for (i, m) in ctx.labels.dom.iter().enumerate() {
            sets.insert(ctx.user.doms[i].clone(), set_of_mask(g, ctx.b.n, m[ci]));
        }
        match guarded(AssertUnwindSafe(|| mc::model_check_extended_formula(&text, g, &sets))) {
            Ok(Ok(r)) => match state_mask(&r, g, ctx.b.n) {
                Ok(m) => {
                    if m != slices[ci] {
                        bad.push(format!(
                            "colour {} [{}]: parametrised result has states {:0w$b}, the instantiated network (with the colour's slices of the context sets) gives {:0w$b}",
                            ci,
                            ctx.b.cols[ci].interp.describe(&ctx.b.spec),
                            slices[ci],
                            m,
                            w = ctx.b.n_states()
                        ));
                    }
                }
                Err(e) => bad.push(e),
            },
            Ok(Err(e)) => bad.push(format!("instantiated network of colour {ci} rejects {text}: {e}")),
            Err(p) => bad.push(format!("instantiated network of colour {ci} panics on {text}: {p}")),
        }
        if bad.len() > 2 {
            break;
        }
    }
    bad
}

pub fn replay(case: &Value) -> Option<String> {
    if case["kind"] == "colour_ext" {
        let spec = serde_json::from_value(case["net"].clone()).ok()?;
        let b = Arc::new(Bound::new("replay", &spec, 3).ok()?);
        let labels = Labels { wild: serde_json::from_value(case["labels"]["wild"].clone()).ok()?, dom: serde_json::from_value(case["labels"]["dom"].clone()).ok()?, props: vec![] };
        let ctx = NetCtx::new(b.clone(), labels, "replay");
        let w = Witnesses::new(&b).ok()?;
        let f: F = serde_json::from_value(case["formula"].clone()).ok()?;
        let bad = check_ext(&ctx, &w, &f);
        return if bad.is_empty() { None } else { Some(bad.join(" | ")) };
    }
    if case.get("model").is_some() {
        let v = job(case);
        let p = v["problems"].as_array()?;
        return if p.is_empty() { None } else { Some(p.iter().map(|x| x.as_str().unwrap_or("").to_string()).collect::<Vec<_>>().join(" | ")) };
    }
    let spec = serde_json::from_value(case["net"].clone()).ok()?;
    let b = Arc::new(Bound::new("replay", &spec, 3).ok()?);
    let ctx = NetCtx::new(b.clone(), Labels::default(), "none");
    let w = Witnesses::new(&b).ok()?;
    let f: F = serde_json::from_value(case["formula"].clone()).ok()?;
    let bad = check(&ctx, &w, &f);
    if bad.is_empty() {
        None
    } else {
        Some(bad.join(" | "))
    }
}

/// Deterministic partial erasure of a fully specified bundled model: the update functions of the
/// first `erase` variables with 2..=3 regulators become implicit (unknown) functions.
pub fn parametrise(bn: &BooleanNetwork, erase: usize) -> BooleanNetwork {
    let mut out = bn.clone();
    let mut done = 0;
    for v in bn.variables() {
        let r = bn.regulators(v).len();
        if (2..=3).contains(&r) && done < erase {
            out.set_update_function(v, None).unwrap();
            done += 1;
        }
    }
    out
}

fn colour_list(g: &SymbolicAsyncGraph, stride: usize, cap: usize) -> Vec<GraphColors> {
    let mut out = vec![];
    let mut rest = g.mk_unit_colors();
    let mut i = 0usize;
    while !rest.is_empty() && out.len() < cap {
        let one = rest.pick_singleton();
        if i % stride == 0 {
            out.push(one.clone());
        }
        rest = rest.minus(&one);
        i += 1;
    }
    out
}

fn sorted_states(set: &GraphColoredVertices) -> Vec<Vec<bool>> {
    let mut v: Vec<Vec<bool>> = set.vertices().materialize().iter().map(|s| s.values()).collect();
    v.sort();
    v
}

/// Child job: bundled model (possibly partially erased) x one formula x colours.
pub fn job(job: &Value) -> Value {
    let t0 = std::time::Instant::now();
    let name = job["model"].as_str().unwrap_or("");
    let erase = job["erase"].as_u64().unwrap_or(0) as usize;
    let stride = job["stride"].as_u64().unwrap_or(1) as usize;
    let cap = job["cap"].as_u64().unwrap_or(4096) as usize;
    let big = match bigmodels::load(name, 3) {
        Ok(b) => b,
        Err(e) => return json!({"error": e}),
    };
    let bn = if erase > 0 { parametrise(&big.bn, erase) } else { big.bn.clone() };
    let names = Names::user(&big.var_names());
    let texts = if name.starts_with("synthetic:") {
        // one state (1111000..0) as a conjunction of literals over all variables
        let all_ones = name.contains("gated");
        let cube: Vec<String> = names.props.iter().enumerate().map(|(i, v)| if i < 4 || all_ones { v.clone() } else { format!("~{v}") }).collect();
        let cube = cube.join(" & ");
        vec![format!("EG ~({cube})"), format!("AF ({cube})"), format!("EF ({cube})"), format!("AG ~({cube})"), format!("(~({cube})) EW False")]
    } else {
        crate::props::c10::big_formula_texts(&names)
    };
    let text = &texts[job["formula_index"].as_u64().unwrap_or(0) as usize];
    // exactly as many spare variable sets as the formula needs (on both sides)
    let k = crate::refparser::parse_str(text, false).map(|t| t.qdepth()).unwrap_or(3) as u16;
    let g = match get_extended_symbolic_graph(&bn, k) {
        Ok(g) => g,
        Err(e) => return json!({"error": e}),
    };
    let mut problems: Vec<String> = vec![];
    let param = match mc::model_check_formula_dirty(text, &g) {
        Ok(s) => s,
        Err(e) => return json!({"error": e}),
    };
    let colours = if name.starts_with("synthetic:") || g.unit_colors().approx_cardinality() > 1e9 {
        // fixed valuation patterns of the parameter variables (all false, all true, alternating, every third):
        // the first colours of the library's enumeration are all near the all-false corner
        let ctx = g.symbolic_context();
        let pv = ctx.parameter_variables().clone();
        let mut out: Vec<GraphColors> = vec![];
        for pat in 0..cap {
            let mut val = biodivine_lib_bdd::BddPartialValuation::empty();
            for (i, v) in pv.iter().enumerate() {
                val.set_value(
                    *v,
                    match pat {
                        0 => false,
                        1 => true,
                        2 => i % 2 == 0,
                        3 => i % 3 == 0,
                        4 => (i * 7) % 11 < 5,
                        5 => (i * 5) % 13 < 6,
                        6 => (i / 3) % 2 == 0,
                        _ => (i * i + pat) % 7 < 3,
                    },
                );
            }
            let c = GraphColors::new(ctx.bdd_variable_set().mk_conjunctive_clause(&val), ctx).intersect(g.unit_colors());
            if !c.is_empty() && !out.contains(&c) {
                out.push(c);
            }
        }
        out
    } else {
        colour_list(&g, stride, cap)
    };
    let total_colours = g.unit_colors().approx_cardinality();
    for c in &colours {
        let w = g.pick_witness(c);
        let gw = match get_extended_symbolic_graph(&w, k) {
            Ok(g) => g,
            Err(e) => {
                problems.push(format!("witness graph: {e}"));
                continue;
            }
        };
        let rw = match mc::model_check_formula_dirty(text, &gw) {
            Ok(s) => s,
            Err(e) => {
                problems.push(format!("witness evaluation: {e}"));
                continue;
            }
        };
        let slice = param.intersect_colors(c);
        // symbolic comparison of the two vertex sets (variables matched by name), no materialisation
        let a = slice.vertices();
        let b = g.symbolic_context().transfer_from(rw.vertices().as_bdd(), gw.symbolic_context());
        let same = match &b {
            Some(b) => a.as_bdd() == b,
            None => false,
        };
        if std::env::var("VERIF_DEBUG").is_ok() {
            let vs = g.symbolic_context().bdd_variable_set();
            let sat = c.as_bdd().first_valuation().map(|v| g.symbolic_context().parameter_variables().iter().map(|p| if v.value(*p) { '1' } else { '0' }).collect::<String>());
            eprintln!("colour valuation {:?} (param vars: {:?})", sat, g.symbolic_context().parameter_variables().iter().map(|p| vs.name_of(*p)).collect::<Vec<_>>());
            eprintln!("colour card {} param-slice states {} witness states {} transfer {} same {}", c.approx_cardinality(), a.approx_cardinality(), rw.vertices().approx_cardinality(), b.is_some(), same);
        }
        if !same && problems.len() < 4 {
            problems.push(format!(
                "model {name} (erase {erase}), formula {}: for one colour the parametrised result has {} states, the instantiated network {} states",
                crate::report::truncate(text, 80),
                a.approx_cardinality(),
                rw.vertices().approx_cardinality()
            ));
        }
    }
    // colour sub-spaces (huge colour spaces only): fix the first k parameter variables by a pattern; the result on
    // the graph restricted to that sub-space must be the sub-space's part of the parametrised result ("the answer for
    // a colour never depends on which other colours the model admits", checked for whole blocks of colours)
    let mut subspaces = 0u64;
    if total_colours > 1e6 {
        let ctx = g.symbolic_context();
        let pv = ctx.parameter_variables().clone();
        for pat in 0..3usize {
            for k in [1usize, 3, 6, 10, 16, 24, 36, 48] {
                if k > pv.len() {
                    continue;
                }
                let mut val = biodivine_lib_bdd::BddPartialValuation::empty();
                for (i, v) in pv.iter().take(k).enumerate() {
                    val.set_value(*v, match pat { 0 => i % 2 == 0, 1 => (i * 7) % 11 < 5, _ => i % 3 != 0 });
                }
                let sub = GraphColors::new(ctx.bdd_variable_set().mk_conjunctive_clause(&val), ctx).intersect(g.unit_colors());
                if sub.is_empty() {
                    continue;
                }
                let gs = g.restrict(&g.unit_colored_vertices().intersect_colors(&sub));
                match mc::model_check_formula_dirty(text, &gs) {
                    Ok(rs) => {
                        subspaces += 1;
                        let want = param.intersect_colors(&sub);
                        if rs.as_bdd() != want.as_bdd() && problems.len() < 4 {
                            problems.push(format!(
                                "model {name}, formula {}: on the graph restricted to the {} colours that fix the first {k} parameter variables (pattern {pat}) the result has {} elements, that part of the parametrised result has {}",
                                crate::report::truncate(text, 80),
                                sub.approx_cardinality(),
                                rs.approx_cardinality(),
                                want.approx_cardinality()
                            ));
                        }
                    }
                    Err(e) => problems.push(format!("restricted graph: {e}")),
                }
            }
        }
    }
    json!({"cases": colours.len() as u64 + subspaces, "colour_subspaces": subspaces, "problems": problems, "text": text, "colours_total": total_colours, "colours_checked": colours.len(), "exhaustive": (colours.len() as f64) >= total_colours, "variables": g.num_vars(), "wall_s": t0.elapsed().as_secs_f64()})
}

pub fn run(tier: &str) -> Result<Report, String> {
    let mut rep = Report::new("C20", tier, "model_checking");
    std_assumptions(&mut rep);
    let nets = core_nets(3)?;
    let (m, pool): (usize, usize) = if tier == "quick" { (3, 2) } else { (4, 5) };
    // the multi-colour core networks, and the multi-colour networks that are unusual as data: variable names like the spare
    // variables', several explicit function symbols whose alphabetical order differs from the order of first use (g before f),
    // variables declared in a non-lexicographic order
    let extra: Vec<_> = name_nets(3)?.into_iter().chain(decl_nets(3)?).collect();
    for b in nets.iter().chain(extra.iter()).filter(|b| b.cols.len() > 1) {
        crate::sem::note_network(&mut rep, b);
        let ctx = NetCtx::new(b.clone(), Labels::default(), "none");
        let w = Witnesses::new(b)?;
        let mut g = Gen::new(Alphabet::all_ops(ctx.nprops(), 3));
        let mut fs = g.closed_up_to(if tier == "quick" && ["imp1", "con2"].contains(&b.name.as_str()) { 4 } else { m });
        fs.extend(templates(&ctx.user, false, pool));
        // (families written with the literal proposition names a / b only on networks that have them)
        let ab = b.spec.vars[0] == "a" && (b.n == 1 || b.spec.vars[b.n - 1] == "b" || b.spec.vars.contains(&"b".to_string()));
        if ab && (tier != "quick" || ["imp1", "con2"].contains(&b.name.as_str())) {
            fs.extend(crate::formulas::shared_operand_family(&ctx.user));
        }
        if ab && b.n >= 2 && tier != "quick" {
            fs.extend(crate::formulas::pair_family(&crate::formulas::plain_pool(&ctx.user), 8, false));
        }
        let bad: Vec<Violation> = fs
            .par_iter()
            .filter_map(|f| {
                let bad = check(&ctx, &w, f);
                if bad.is_empty() {
                    None
                } else {
                    Some(Violation { case: json!({"kind": "colour", "net": b.spec, "aeon": b.aeon, "formula": f, "text": f.show(&ctx.user)}), what: format!("formula {} on {}: {}", f.show(&ctx.user), b.name, bad.join(" | ")), size: f.size() })
                }
            })
            .collect();
        rep.evaluations += fs.len() as u64 * (1 + b.cols.len() as u64);
        rep.traces_validated += fs.len() as u64 * b.cols.len() as u64;
        rep.distinct_nontrivial += fs.len() as u64 * b.cols.len() as u64;
        rep.add_count("formula_colour_pairs_tiny", fs.len() as u64 * b.cols.len() as u64);
        rep.add_count("failing_formulae", bad.len() as u64);
        rep.violations.extend(bad.into_iter().take(40));
    }
    // until operators with compound operands over all variables of sparse 3- and 4-variable networks with several unknown
    // functions (variables that do not regulate each other; operands that ignore some variables)
    {
        let specs = [
            ("spa4", "b -?? a; c -?? b; b -?? c; c -?? c; c -?? d; $a: b; $d: !c"),
            ("spb4", "a -?? b; a -?? c; d -?? c; d -?? d; $a: true; $b: a; b -?? a"),
            ("spc3", "a -?? b; c -?? c; b -?? c; $a: !a; a -| a"),
        ];
        for (name, text) in specs {
            let b = Arc::new(bind(name, &crate::nets::spec(text), 3)?);
            if b.cols.len() < 2 {
                return Err(format!("sparse network {name} has a single colour"));
            }
            crate::sem::note_network(&mut rep, &b);
            let ctx = NetCtx::new(b.clone(), Labels::default(), "none").with_all_props();
            let w = Witnesses::new(&b)?;
            let fs = crate::formulas::until_compound_family(b.n as u8);
            let fs: Vec<F> = if tier == "quick" { fs.into_iter().step_by(3).collect() } else { fs };
            let bad: Vec<Violation> = fs
                .par_iter()
                .filter_map(|f| {
                    let bad = check(&ctx, &w, f);
                    if bad.is_empty() {
                        None
                    } else {
                        Some(Violation { case: json!({"kind": "none"}), what: format!("formula {} on {} [{}]: {}", f.show(&ctx.user), b.name, b.aeon.replace('\n', "; "), bad.join(" | ")), size: f.size() })
                    }
                })
                .collect();
            rep.evaluations += fs.len() as u64 * (1 + b.cols.len() as u64);
            rep.traces_validated += fs.len() as u64 * b.cols.len() as u64;
            rep.distinct_nontrivial += fs.len() as u64 * b.cols.len() as u64;
            rep.add_count("formula_colour_pairs_sparse_networks", fs.len() as u64 * b.cols.len() as u64);
            rep.violations.extend(bad.into_iter().take(20));
        }
    }
    // extended formulae with colour-dependent context sets (a domain that is empty in some colours only,
    // colour-disjoint sets, ...): the instantiated network gets the colour's slices of the sets
    for b in nets.iter().filter(|b| b.cols.len() > 1 && b.n <= 2 && (tier != "quick" || ["imp1", "con2"].contains(&b.name.as_str()))) {
        let w = Witnesses::new(b)?;
        for (desc, labels) in crate::sweep::label_families(b, if tier == "quick" { 4 } else { 8 }) {
            let ctx = NetCtx::new(b.clone(), labels, &desc);
            let mut g = Gen::new(Alphabet::extended(ctx.nprops(), 2, 1, 2));
            let mut fs: Vec<F> = g.closed_up_to(if tier == "quick" { 3 } else { 4 }).into_iter().filter(|f| f.uses_wild_or_dom()).collect();
            fs.extend(templates(&ctx.user, true, if tier == "quick" { 2 } else { 5 }).into_iter().filter(|f| f.uses_wild_or_dom()));
            let bad: Vec<Violation> = fs
                .par_iter()
                .filter_map(|f| {
                    let bad = check_ext(&ctx, &w, f);
                    if bad.is_empty() {
                        None
                    } else {
                        Some(Violation { case: json!({"kind": "colour_ext", "net": b.spec, "aeon": b.aeon, "labels": {"wild": ctx.labels.wild, "dom": ctx.labels.dom}, "formula": f, "text": f.show(&ctx.user)}), what: format!("formula {} on {} labels={desc}: {}", f.show(&ctx.user), b.name, bad.join(" | ")), size: f.size() })
                    }
                })
                .collect();
            rep.evaluations += fs.len() as u64 * (1 + b.cols.len() as u64);
            rep.traces_validated += fs.len() as u64 * b.cols.len() as u64;
            rep.add_count("extended_formula_colour_pairs", fs.len() as u64 * b.cols.len() as u64);
            rep.violations.extend(bad.into_iter().take(20));
        }
    }
    // multi-colour networks of the all-2-variable family (one per colour-count bucket; thorough: 6)
    let (all2, info) = all2_nets(3, Some(if tier == "quick" { 1 } else { 6 }))?;
    rep.set("all_2_variable_networks", info);
    let mut g2 = Gen::new(Alphabet::all_ops(2, 3));
    let fs2 = g2.closed_up_to(3);
    for b in all2.iter().filter(|b| b.cols.len() > 1 && b.cols.len() <= 64) {
        crate::sem::note_network_light(&mut rep, b);
        let ctx = NetCtx::new(b.clone(), Labels::default(), "none");
        let w = Witnesses::new(b)?;
        let bad: Vec<Violation> = fs2
            .par_iter()
            .filter_map(|f| {
                let bad = check(&ctx, &w, f);
                if bad.is_empty() {
                    None
                } else {
                    Some(Violation { case: json!({"kind": "colour", "net": b.spec, "aeon": b.aeon, "formula": f, "text": f.show(&ctx.user)}), what: format!("formula {} on {} [{}]: {}", f.show(&ctx.user), b.name, b.aeon.replace('\n', "; "), bad.join(" | ")), size: f.size() })
                }
            })
            .collect();
        rep.evaluations += fs2.len() as u64 * (1 + b.cols.len() as u64);
        rep.traces_validated += fs2.len() as u64 * b.cols.len() as u64;
        rep.distinct_nontrivial += fs2.len() as u64 * b.cols.len() as u64;
        rep.add_count("formula_colour_pairs_tiny", fs2.len() as u64 * b.cols.len() as u64);
        rep.violations.extend(bad.into_iter().take(5));
    }
    // bundled models
    let limit = if tier == "quick" { 20.0 } else { 400.0 };
    let mut jobs = vec![];
    let nform = if tier == "quick" { 3 } else { 7 };
    for fi in 0..nform {
        jobs.push(json!({"kind": "c20big", "model": "pystablemotifs-models/myeloid.aeon", "erase": 2, "formula_index": fi, "stride": 1, "cap": 4096}));
        if tier != "quick" {
            jobs.push(json!({"kind": "c20big", "model": "pystablemotifs-models/myeloid.aeon", "erase": 4, "formula_index": fi, "stride": 1, "cap": 4096}));
            jobs.push(json!({"kind": "c20big", "model": "cell_division", "erase": 0, "formula_index": fi, "stride": 64, "cap": 1024}));
            jobs.push(json!({"kind": "c20big", "model": "inference-benchmarks/110_9v/model_parametrized.aeon", "erase": 0, "formula_index": fi, "stride": 64, "cap": 1000}));
        }
    }
    // a model with more than 2^53 (state, colour) pairs but fewer states per colour: four colours of
    // the library's enumeration (every 16384th) x five formulae over a single-state argument
    for fi in 0..(if tier == "quick" { 2 } else { 5 }) {
        jobs.push(json!({"kind": "c20big", "model": "synthetic:gated44", "erase": 0, "formula_index": fi, "stride": 1, "cap": 4}));

    }
    // a bundled model with ~2.9e17 colours (BDDs of intermediate sets exceed 2^16 nodes): colours picked by 8 valuation patterns
    for fj in [1usize, 2, 5, 9, 10] {
        jobs.push(json!({"kind": "c20big", "model": "large-colored-models/set1-tacas/tacas2_extended.aeon", "erase": 0, "formula_index": fj, "stride": 1, "cap": 8}));
    }
    let results: Vec<(Value, crate::jobs::JobResult)> = jobs.par_iter().map(|j| (j.clone(), crate::jobs::run(j, limit))).collect();
    let mut bm = vec![];
    let mut big_total = 0;
    for (j, r) in results {
        match r {
            crate::jobs::JobResult::Done(v) => {
                if let Some(e) = v.get("error") {
                    return Err(format!("bundled model job {j}: {e}"));
                }
                big_total += v["cases"].as_u64().unwrap_or(0);
                if v["exhaustive"].as_bool() == Some(false) {
                    rep.exhaustive = false;
                }
                bm.push(json!({"model": j["model"], "erased_functions": j["erase"], "formula": v["text"], "colours_total": v["colours_total"], "colours_checked": v["colours_checked"], "all_colours": v["exhaustive"], "wall_s": v["wall_s"]}));
                for p in v["problems"].as_array().cloned().unwrap_or_default() {
                    rep.violations.push(Violation { case: j.clone(), what: p.as_str().unwrap_or("").to_string(), size: 100 });
                }
            }
            crate::jobs::JobResult::Timeout => rep.cap(format!("job {j} exceeded {limit}s and was stopped (no verdict)")),
            crate::jobs::JobResult::Crashed(e) => return Err(format!("bundled model job {j} crashed: {e}")),
        }
    }
    if tier != "quick" {
        rep.caps.push("cell_division (65 536 colours) and 110_9v (64 000 colours): only every 64th colour of the library's deterministic enumeration is checked".into());
    }
    rep.set("bundled_models", json!(bm));
    rep.set("formula_colour_pairs_bundled", json!(big_total));
    rep.evaluations += big_total;
    rep.distinct_nontrivial += big_total;
    rep.sample(json!({"network": "unc2", "formula": "(!{x}: (AG (EF {x})))", "check": "for each of the 4 valid colours: states of the parametrised result at that colour == model_check_formula on pick_witness(colour) == explicit-state oracle"}));
    rep.rule = format!("(extended formulae with <= 3 (4) nodes + extended templates x label families with colour-dependent context sets on the multi-colour networks with <= 2 variables: slice of the parametrised result vs evaluation on the instantiated network with the slices of the context sets) every core network with more than one valid colour (formulae: node-bounded, templates, the shared-operand family (A & B) | B ... over a pool of 11 closed formulae) (and a sample of the all-2-variable family: one network per colour-count bucket, thorough six, <= 64 colours, formulae <= 3 nodes) x every closed plain formula with <= {m} nodes (quick: 4 on imp1 and con2) and every plain template formula x EVERY valid colour: the state set of the sanitised parametrised result at that colour must equal model_check_formula on the graph of SymbolicAsyncGraph::pick_witness(colour) (and the oracle evaluates every colour in isolation by construction). Bundled models: myeloid with the update functions of its first 2 (thorough: also 4) small-arity variables erased, all colours; thorough adds cell_division and 110_9v on a declared sub-lattice of colours (every 64th); both tiers: a synthetic 44-variable network with 16 384 colours (2^58 state-colour pairs, beyond exact double arithmetic; a rising chain that only moves in the colour where all 14 parameters are true), four fixed colours x EG/AF/EF/AG/EW over a single-state argument. distinct_nontrivial = number of (formula, colour) pairs compared");
    Ok(rep)
}
