//! C18 — the self-loop-free evaluation variant agrees with standard evaluation where loops cannot matter.

use super::common::*;
use crate::formulas::{templates, Alphabet, Bi, Gen, Un, F};
use crate::oracle::Labels;
use crate::report::{guarded, Report, Violation};
use crate::sweep::{Got, NetCtx};
use biodivine_hctl_model_checker::model_checking as mc;
use rayon::prelude::*;
use serde_json::{json, Value};
use std::panic::AssertUnwindSafe;
use std::sync::Arc;

/// Does the formula avoid EX, AX, AF, EG, AU, EW (the operators whose meaning depends on self-loops)?
pub fn loop_insensitive(f: &F) -> bool {
    !f.any(|x| matches!(x, F::Un(Un::EX | Un::AX | Un::AF | Un::EG, _) | F::Bin(Bi::AU | Bi::EW, _, _)))
}

pub fn check(ctx: &NetCtx, f: &F) -> Option<String> {
    let text = f.show(&ctx.user);
    let std_ = match ctx.formula_dirty(&text) {
        Got::Set(s) => s,
        other => return Some(format!("standard evaluation fails: {other:?}")),
    };
    match guarded(AssertUnwindSafe(|| mc::model_check_formula_unsafe_ex(&text, &ctx.b.graph))) {
        Ok(Ok(u)) => {
            if u == std_ {
                None
            } else {
                Some(format!(
                    "model_check_formula_unsafe_ex differs from model_check_formula_dirty: per-colour states {:?} vs {:?}",
                    ctx.b.masks_of(&u),
                    ctx.b.masks_of(&std_)
                ))
            }
        }
        Ok(Err(e)) => Some(format!("model_check_formula_unsafe_ex returns Err: {e}")),
        Err(p) => Some(format!("model_check_formula_unsafe_ex panics: {p}")),
    }
}

pub fn replay(case: &Value) -> Option<String> {
    if case["kind"] == "unsafe_ex_history" {
        let first: crate::nets::NetSpec = serde_json::from_value(case["first"].clone()).ok()?;
        let a = crate::bridge::Bound::new("first", &first, 3).ok()?;
        for w in case["warm"].as_array()? {
            let _ = guarded(AssertUnwindSafe(|| mc::model_check_formula_dirty(w.as_str().unwrap_or("a"), &a.graph)));
        }
    }
    let spec = serde_json::from_value(case["net"].clone()).ok()?;
    let mut b = Arc::new(crate::bridge::Bound::new("replay", &spec, 3).ok()?);
    if let Some(rest) = case["graph_name"].as_str().and_then(|n| n.split("|colours[").nth(1)) {
        let keep: Vec<usize> = rest.trim_end_matches(']').split(',').filter_map(|s| s.trim().parse().ok()).collect();
        b = Arc::new(b.restrict_colours(&keep));
    }
    let ctx = NetCtx::new(b, Labels::default(), "none");
    let f: F = serde_json::from_value(case["formula"].clone()).ok()?;
    check(&ctx, &f)
}

pub fn run(tier: &str) -> Result<Report, String> {
    let mut rep = Report::new("C18", tier, "model_checking");
    std_assumptions(&mut rep);
    let nets = core_nets(3)?;
    let (m_frag, m_free, pool) = if tier == "quick" { (5, 5, 5) } else { (6, 5, 8) };
    let mut steady_free = vec![];
    // every core network, and the multi-colour ones also on graphs whose unit set was restricted after construction
    // (SymbolicAsyncGraph::restrict) to every second colour / to each single colour (a restriction to steady-state-free
    // colours makes a network "steady-state free" for this property)
    let mut with_units: Vec<Arc<crate::bridge::Bound>> = vec![];
    for b in &nets {
        with_units.push(b.clone());
        if b.cols.len() >= 2 {
            with_units.push(Arc::new(b.restrict_colours(&(0..b.cols.len()).step_by(2).collect::<Vec<_>>())));
            for c in 0..b.cols.len().min(if tier == "quick" { 2 } else { 4 }) {
                with_units.push(Arc::new(b.restrict_colours(&[b.cols.len() - 1 - c])));
            }
        }
    }
    rep.set("graphs_with_restricted_unit_set", json!(with_units.len() - nets.len()));
    for b in &with_units {
        let restricted = b.name.contains("|colours[");
        let (m_frag, m_free, pool) = if restricted { (4, 4, 2) } else { (m_frag, m_free, pool) };
        crate::sem::note_network(&mut rep, b);
        let ctx = NetCtx::new(b.clone(), Labels::default(), "none");
        let no_steady = b.cols.iter().all(|c| c.steady.iter().all(|s| !*s));
        let mut alpha = Alphabet::plain(ctx.nprops(), 3);
        alpha.bi = crate::formulas::ALL_BI.to_vec();
        let fs: Vec<F> = if no_steady {
            steady_free.push(b.name.clone());
            let mut g = Gen::new(alpha);
            let mut fs = g.closed_up_to(m_free);
            fs.extend(templates(&ctx.user, false, pool));
            fs.extend(crate::formulas::pattern_condition_family(&ctx.user));
            fs
        } else {
            alpha.consts = vec![true, false];
            alpha.un = vec![Un::Not, Un::EF, Un::AG];
            alpha.bi = vec![Bi::And, Bi::Or, Bi::Xor, Bi::Imp, Bi::Iff, Bi::EU, Bi::AW];
            let mut g = Gen::new(alpha);
            let mut fs = g.closed_up_to(m_frag);
            fs.extend(templates(&ctx.user, false, pool).into_iter().filter(loop_insensitive));
            fs.extend(crate::formulas::pattern_condition_family(&ctx.user).into_iter().filter(loop_insensitive));
            fs
        };
        // fragment operators over operands with TWO state variables (6..8 nodes)
        let mut fs = fs;
        if !restricted {
            for t in [
                "!{x}: 3{y}: AG ({x} | {y})", "!{x}: 3{y}: EF ({x} & EF {y})", "3{x}: V{y}: AG ({x} | EF {y})", "!{x}: V{y}: ({x} | AG (~{y} | {x}))", "3{x}: 3{y}: ({x} EU {y})", "!{x}: 3{y}: ({x} AW {y})",
                "!{x}: 3{y}: AG (({x} | {y}) & (a | ~a))", "V{x}: 3{y}: (@{x}: AG ({x} | {y}))", "!{x}: 3{y}: (AG ({x} | {y}) & EF {y})", "3{x}: !{y}: AG (EF {x} | {y})",
            ] {
                fs.push(crate::formulas::f(t, &ctx.user));
            }
        }
        debug_assert!(no_steady || fs.iter().all(loop_insensitive));
        let bad: Vec<Violation> = fs
            .par_iter()
            .filter_map(|f| check(&ctx, f).map(|w| Violation { case: json!({"kind": "unsafe_ex", "net": b.spec, "aeon": b.aeon, "graph_name": b.name, "formula": f, "text": f.show(&ctx.user)}), what: format!("formula {} on {}: {w}", f.show(&ctx.user), b.name), size: f.size() }))
            .collect();
        rep.evaluations += fs.len() as u64 * 2;
        rep.distinct_nontrivial += fs.len() as u64;
        rep.traces_validated += fs.len() as u64;
        rep.add_count(if no_steady { "all_formulae_on_steady_state_free_networks" } else { "fragment_formulae" }, fs.len() as u64);
        rep.add_count("failing_formulae", bad.len() as u64);
        rep.violations.extend(bad.into_iter().take(40));
    }
    // steady-state-free networks of the all-2-variable family: all formulae up to 3 (thorough 4) nodes
    let (all2, info) = all2_nets(3, if tier == "quick" { Some(3) } else { None })?;
    rep.set("all_2_variable_networks", info);
    let mut alpha2 = Alphabet::plain(2, 3);
    alpha2.bi = crate::formulas::ALL_BI.to_vec();
    let mut g2 = Gen::new(alpha2);
    let fs2 = g2.closed_up_to(if tier == "quick" { 3 } else { 4 });
    let mut n_free2 = 0u64;
    for b in all2.iter().filter(|b| b.cols.iter().all(|c| c.steady.iter().all(|s| !*s))) {
        crate::sem::note_network_light(&mut rep, b);
        let ctx = NetCtx::new(b.clone(), Labels::default(), "none");
        let bad: Vec<Violation> = fs2
            .par_iter()
            .filter_map(|f| check(&ctx, f).map(|w| Violation { case: json!({"kind": "unsafe_ex", "net": b.spec, "aeon": b.aeon, "formula": f, "text": f.show(&ctx.user)}), what: format!("formula {} on {} [{}]: {w}", f.show(&ctx.user), b.name, b.aeon.replace('\n', "; ")), size: f.size() }))
            .collect();
        n_free2 += 1;
        rep.evaluations += fs2.len() as u64 * 2;
        rep.distinct_nontrivial += fs2.len() as u64;
        rep.add_count("all_formulae_on_steady_state_free_networks", fs2.len() as u64);
        rep.violations.extend(bad.into_iter().take(5));
    }
    rep.set("steady_state_free_networks_of_the_2_variable_family", json!(n_free2));
    // graphs perturbed by the library after construction (SymbolicAsyncGraph::restrict_variable_in_graph fixes one variable in
    // every update function; the attached network object stays as it was): when NO (state, colour) pair of the perturbed graph
    // is without a successor (decided on the graph itself: unit minus the union of var_can_post) all formulae must agree,
    // otherwise the loop-insensitive fragment
    {
        use biodivine_lib_param_bn::biodivine_std::traits::Set;
        let mut alpha = Alphabet::plain(2, 2);
        alpha.bi = crate::formulas::ALL_BI.to_vec();
        let all_fs = Gen::new(alpha).closed_up_to(3);
        let mut n_pert = 0u64;
        let mut n_pert_free = 0u64;
        for b in nets.iter().filter(|b| b.n >= 2) {
            for (vi, v) in b.graph.variables().enumerate() {
                for val in [false, true] {
                    let g = b.graph.restrict_variable_in_graph(v, val);
                    let unit = g.mk_unit_colored_vertices();
                    let mut stuck = unit.clone();
                    for w in g.variables() {
                        stuck = stuck.minus(&g.var_can_post(w, &unit));
                    }
                    let free = stuck.is_empty();
                    let pb = Arc::new(b.with_graph(&format!("{}|{}:={}", b.name, b.spec.vars[vi], val), g));
                    let ctx = NetCtx::new(pb.clone(), Labels::default(), "none");
                    let fs: Vec<&F> = all_fs.iter().filter(|f| free || loop_insensitive(f)).collect();
                    let bad: Vec<Violation> = fs
                        .par_iter()
                        .filter_map(|f| check(&ctx, f).map(|w| Violation { case: json!({"kind": "none"}), what: format!("formula {} on {} [{}] with {} fixed to {} by restrict_variable_in_graph ({}): {w}", f.show(&ctx.user), b.name, b.aeon.replace('\n', "; "), b.spec.vars[vi], val, if free { "no pair without a successor" } else { "fragment" }), size: f.size() }))
                        .collect();
                    n_pert += 1;
                    if free {
                        n_pert_free += 1;
                    }
                    rep.evaluations += fs.len() as u64 * 2;
                    rep.violations.extend(bad.into_iter().take(5));
                }
            }
        }
        rep.set("perturbed_graphs", json!({"graphs": n_pert, "without_any_stuck_pair_all_formulae": n_pert_free, "max_nodes": 3}));
    }
    // histories: two networks with the SAME symbolic encoding (variables a, b; no parameters; unit = true)
    // but different update functions, checked one after the other on one fresh OS thread; the second
    // one is steady-state free, so both variants must agree on it for ALL formulae, whatever was
    // evaluated before on that thread (and both must agree with the oracle)
    {
        let funs = ["a", "!a", "b", "!b", "a & b", "a | !b", "!a & b", "true", "false"];
        let mut same_ctx: Vec<Arc<crate::bridge::Bound>> = vec![];
        for fa in funs {
            for fb in funs {
                let sp = crate::nets::spec(&format!("a -?? a; b -?? a; a -?? b; b -?? b; $a: {fa}; $b: {fb}"));
                if let Ok(b) = crate::bridge::Bound::new(&format!("h[{fa};{fb}]"), &sp, 3) {
                    same_ctx.push(Arc::new(b));
                }
            }
        }
        let firsts: Vec<Arc<crate::bridge::Bound>> = same_ctx.iter().filter(|b| b.cols.iter().any(|c| c.steady.iter().any(|s| *s))).cloned().collect();
        let seconds: Vec<Arc<crate::bridge::Bound>> = same_ctx.iter().filter(|b| b.cols.iter().all(|c| c.steady.iter().all(|s| !*s))).cloned().collect();
        let (nf, ns) = if tier == "quick" { (6, 6) } else { (firsts.len(), seconds.len()) };
        let step = |n: usize, k: usize| -> Vec<usize> { (0..n).step_by((n / k.max(1)).max(1)).take(k).collect() };
        let mut alpha_h = Alphabet::plain(2, 1);
        alpha_h.bi = crate::formulas::ALL_BI.to_vec();
        let fs_h = Gen::new(alpha_h).closed_up_to(2);
        let warm = ["AX a", "!{x}: AX {x}", "EG b", "a EW b"];
        let mut pairs = vec![];
        for i in step(firsts.len(), nf) {
            for j in step(seconds.len(), ns) {
                pairs.push((firsts[i].clone(), seconds[j].clone()));
            }
        }
        let n_pairs = pairs.len();
        let bad: Vec<Violation> = pairs
            .into_par_iter()
            .filter_map(|(a, b)| {
                let fs_h = fs_h.clone();
                std::thread::spawn(move || {
                    for w in warm {
                        let _ = guarded(AssertUnwindSafe(|| mc::model_check_formula_dirty(w, &a.graph)));
                    }
                    let ctx = NetCtx::new(b.clone(), Labels::default(), "none");
                    for f in &fs_h {
                        let mut what = check(&ctx, f);
                        if what.is_none() {
                            if let Got::Set(s) = ctx.formula_dirty(&f.show(&ctx.user)) {
                                what = ctx.diff_dirty(&s, &ctx.expected(f)).map(|d| format!("standard evaluation differs from the explicit-state semantics: {d}"));
                            }
                        }
                        if let Some(w) = what {
                            return Some(Violation {
                                case: json!({"kind": "unsafe_ex_history", "first": a.spec, "net": b.spec, "aeon": b.aeon, "formula": f, "warm": warm}),
                                what: format!("after evaluating {warm:?} on [{}] on the same thread, formula {} on [{}]: {w}", a.aeon.replace('\n', "; "), f.show(&ctx.user), b.aeon.replace('\n', "; ")),
                                size: f.size(),
                            });
                        }
                    }
                    None
                })
                .join()
                .unwrap_or_else(|_| Some(Violation { case: json!({"kind": "machinery"}), what: "MACHINERY: history thread panicked".into(), size: 0 }))
            })
            .collect();
        if bad.iter().any(|v| v.what.starts_with("MACHINERY")) {
            return Err("a two-network history thread of the harness panicked".into());
        }
        rep.evaluations += (n_pairs * fs_h.len() * 2) as u64;
        rep.add_count("two_network_histories", n_pairs as u64);
        rep.set("history_networks", json!({"same_encoding_networks": same_ctx.len(), "with_steady_states": firsts.len(), "steady_state_free": seconds.len(), "ordered_pairs_run": n_pairs, "formulae_on_second": fs_h.len()}));
        rep.violations.extend(bad.into_iter().take(20));
    }
    if steady_free.is_empty() {
        return Err("no steady-state-free network in the family".into());
    }
    rep.set("steady_state_free_networks", json!(steady_free));
    rep.sample(json!({"network": "asy2", "formula": "(!{x}: (AG (EF {x})))", "fragment": true}));
    rep.sample(json!({"network": "cyc3", "formula": "(!{x}: (AX (AF {x})))", "fragment": false, "why": "cyc3 has no steady state in any colour (decided by the independent transition systems)"}));
    rep.rule = format!("core networks and the steady-state-free networks of the de-duplicated all-2-variable family (all formulae with <= 3, thorough 4, nodes): on networks where the independent transition systems have no steady state in any colour ({steady_free:?}) ALL closed formulae with <= {m_free} nodes over all operators (+ templates); on the others all closed formulae with <= {m_frag} nodes over the loop-insensitive fragment {{~ & | ^ => <=> EF AG EU AW ! @ 3 V}} (+ fragment templates and the pattern-with-condition family: `!{{x}}: AG EF ({{x}} & PHI)` and its variants for 13 conditions PHI, some quantifying over transient states): model_check_formula_unsafe_ex must return the same raw set as model_check_formula_dirty (BDD equality). plus graphs perturbed by restrict_variable_in_graph (every variable x both values; all formulae with <= 3 nodes where the perturbed graph has no pair without a successor, the fragment otherwise); plus two-network histories: ordered pairs (first network with steady states, second steady-state free, identical symbolic encoding) evaluated one after the other on one fresh OS thread, all formulae with <= 2 nodes on the second: variants agree and match the oracle. distinct_nontrivial = number of (formula, network) pairs");
    rep.assumptions.push("the standard evaluation itself is validated against the oracle by C01/C13".into());
    Ok(rep)
}
