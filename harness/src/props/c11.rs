//! C11 — temporal operators obey their fixed-point laws, dualities and monotonicity on models of
//! any size; EF/AG/EU coincide with the graph library's reachability; steady states are self-loops.

use super::common::*;
use crate::bigmodels;
use crate::bridge::{full_mask, Mask};
use crate::formulas::Names;
use crate::oracle::Labels;
use crate::report::{guarded, Report, Violation};
use crate::sweep::NetCtx;
use biodivine_hctl_model_checker::model_checking as mc;
use biodivine_lib_param_bn::biodivine_std::traits::Set;
use biodivine_lib_param_bn::symbolic_async_graph::reachability::Reachability;
use biodivine_lib_param_bn::symbolic_async_graph::{GraphColoredVertices, SymbolicAsyncGraph};
use rayon::prelude::*;
use serde_json::{json, Value};
use std::collections::HashMap;
use std::panic::AssertUnwindSafe;
use std::sync::Arc;

#[derive(Clone, Copy, PartialEq)]
pub enum Rel {
    Eq,
    Sub,
}

pub struct Law {
    pub name: &'static str,
    pub lhs: &'static str,
    pub rhs: &'static str,
    pub rel: Rel,
    /// number of wild-card arguments used (1: p, 2: p q, 3: p q r)
    pub arity: u8,
}

pub fn laws() -> Vec<Law> {
    let l = |name, lhs, rhs, rel, arity| Law { name, lhs, rhs, rel, arity };
    vec![
        l("EF fixed point", "EF %p%", "%p% | EX (EF %p%)", Rel::Eq, 1),
        l("EG fixed point", "EG %p%", "%p% & EX (EG %p%)", Rel::Eq, 1),
        l("AF fixed point", "AF %p%", "%p% | AX (AF %p%)", Rel::Eq, 1),
        l("AG fixed point", "AG %p%", "%p% & AX (AG %p%)", Rel::Eq, 1),
        l("AX/EX duality", "AX %p%", "~ EX (~ %p%)", Rel::Eq, 1),
        l("AF/EG duality", "AF %p%", "~ EG (~ %p%)", Rel::Eq, 1),
        l("AG/EF duality", "AG %p%", "~ EF (~ %p%)", Rel::Eq, 1),
        l("EF = true EU", "EF %p%", "True EU %p%", Rel::Eq, 1),
        l("AF = true AU", "AF %p%", "True AU %p%", Rel::Eq, 1),
        l("EG = EW false", "EG %p%", "%p% EW False", Rel::Eq, 1),
        l("AG = AW false", "AG %p%", "%p% AW False", Rel::Eq, 1),
        l("steady states: EX", "(EX %p%) & (!{x}: AX ({x} & {x}))", "%p% & (!{x}: AX ({x} & {x}))", Rel::Eq, 1),
        l("steady states: AX", "(AX %p%) & (!{x}: AX ({x} & {x}))", "%p% & (!{x}: AX ({x} & {x}))", Rel::Eq, 1),
        l("p sub EF", "%p%", "EF %p%", Rel::Sub, 1),
        l("AG sub p", "AG %p%", "%p%", Rel::Sub, 1),
        l("EG sub p", "EG %p%", "%p%", Rel::Sub, 1),
        l("AG sub EG", "AG %p%", "EG %p%", Rel::Sub, 1),
        l("AF sub EF", "AF %p%", "EF %p%", Rel::Sub, 1),
        l("AX sub EX", "AX %p%", "EX %p%", Rel::Sub, 1),
        l("EU fixed point", "%p% EU %q%", "%q% | (%p% & EX (%p% EU %q%))", Rel::Eq, 2),
        l("AU fixed point", "%p% AU %q%", "%q% | (%p% & AX (%p% AU %q%))", Rel::Eq, 2),
        l("EW fixed point", "%p% EW %q%", "%q% | (%p% & EX (%p% EW %q%))", Rel::Eq, 2),
        l("AW fixed point", "%p% AW %q%", "%q% | (%p% & AX (%p% AW %q%))", Rel::Eq, 2),
        l("AU duality", "%p% AU %q%", "~ (((~ %q%) EU ((~ %p%) & (~ %q%))) | EG (~ %q%))", Rel::Eq, 2),
        l("EW = EU or EG", "%p% EW %q%", "(%p% EU %q%) | EG %p%", Rel::Eq, 2),
        l("AW duality", "%p% AW %q%", "~ ((~ %q%) EU ((~ %p%) & (~ %q%)))", Rel::Eq, 2),
        l("EW duality", "%p% EW %q%", "~ ((~ %q%) AU ((~ %p%) & (~ %q%)))", Rel::Eq, 2),
        l("AU sub EU", "%p% AU %q%", "%p% EU %q%", Rel::Sub, 2),
        l("EU sub EW", "%p% EU %q%", "%p% EW %q%", Rel::Sub, 2),
        l("AU sub AW", "%p% AU %q%", "%p% AW %q%", Rel::Sub, 2),
        l("monotone EX", "EX %p%", "EX (%p% | %q%)", Rel::Sub, 2),
        l("monotone AX", "AX %p%", "AX (%p% | %q%)", Rel::Sub, 2),
        l("monotone EF", "EF %p%", "EF (%p% | %q%)", Rel::Sub, 2),
        l("monotone AF", "AF %p%", "AF (%p% | %q%)", Rel::Sub, 2),
        l("monotone EG", "EG %p%", "EG (%p% | %q%)", Rel::Sub, 2),
        l("monotone AG", "AG %p%", "AG (%p% | %q%)", Rel::Sub, 2),
        l("monotone EU left", "%p% EU %r%", "(%p% | %q%) EU %r%", Rel::Sub, 3),
        l("monotone EU right", "%r% EU %p%", "%r% EU (%p% | %q%)", Rel::Sub, 3),
        l("monotone AU left", "%p% AU %r%", "(%p% | %q%) AU %r%", Rel::Sub, 3),
        l("monotone AU right", "%r% AU %p%", "%r% AU (%p% | %q%)", Rel::Sub, 3),
        l("monotone EW left", "%p% EW %r%", "(%p% | %q%) EW %r%", Rel::Sub, 3),
        l("monotone EW right", "%r% EW %p%", "%r% EW (%p% | %q%)", Rel::Sub, 3),
        l("monotone AW left", "%p% AW %r%", "(%p% | %q%) AW %r%", Rel::Sub, 3),
        l("monotone AW right", "%r% AW %p%", "%r% AW (%p% | %q%)", Rel::Sub, 3),
        // the dualities read from the other side: a NEGATION directly above each temporal operator
        l("not EX", "~ (EX %p%)", "AX (~ %p%)", Rel::Eq, 1),
        l("not AX", "~ (AX %p%)", "EX (~ %p%)", Rel::Eq, 1),
        l("not EF", "~ (EF %p%)", "AG (~ %p%)", Rel::Eq, 1),
        l("not AG", "~ (AG %p%)", "EF (~ %p%)", Rel::Eq, 1),
        l("not EG", "~ (EG %p%)", "AF (~ %p%)", Rel::Eq, 1),
        l("not AF", "~ (AF %p%)", "EG (~ %p%)", Rel::Eq, 1),
        l("not EU", "~ (%p% EU %q%)", "(~ %q%) AW ((~ %p%) & (~ %q%))", Rel::Eq, 2),
        l("not AU", "~ (%p% AU %q%)", "(~ %q%) EW ((~ %p%) & (~ %q%))", Rel::Eq, 2),
        l("not EW", "~ (%p% EW %q%)", "(~ %q%) AU ((~ %p%) & (~ %q%))", Rel::Eq, 2),
        l("not AW", "~ (%p% AW %q%)", "(~ %q%) EU ((~ %p%) & (~ %q%))", Rel::Eq, 2),
        l("excluded middle EW", "(~ (%p% EW %q%)) | (%p% EW %q%)", "True", Rel::Eq, 2),
        l("excluded middle AW", "(~ (%p% AW %q%)) | (%p% AW %q%)", "True", Rel::Eq, 2),
        l("excluded middle EU", "(~ (%p% EU %q%)) | (%p% EU %q%)", "True", Rel::Eq, 2),
        l("excluded middle AU", "(~ (%p% AU %q%)) | (%p% AU %q%)", "True", Rel::Eq, 2),
        l("non-contradiction EW", "(~ (%p% EW %q%)) & (%p% EW %q%)", "False", Rel::Eq, 2),
        l("non-contradiction AW", "(~ (%p% AW %q%)) & (%p% AW %q%)", "False", Rel::Eq, 2),
        // the one-argument fixed-point laws and dualities with a COMPOUND argument (an operator directly above a connective)
        l("EF fixed point over |", "EF (%p% | %q%)", "(%p% | %q%) | EX (EF (%p% | %q%))", Rel::Eq, 2),
        l("EG fixed point over |", "EG (%p% | %q%)", "(%p% | %q%) & EX (EG (%p% | %q%))", Rel::Eq, 2),
        l("AF fixed point over |", "AF (%p% | %q%)", "(%p% | %q%) | AX (AF (%p% | %q%))", Rel::Eq, 2),
        l("AG fixed point over |", "AG (%p% | %q%)", "(%p% | %q%) & AX (AG (%p% | %q%))", Rel::Eq, 2),
        l("EF fixed point over &", "EF (%p% & %q%)", "(%p% & %q%) | EX (EF (%p% & %q%))", Rel::Eq, 2),
        l("EG fixed point over &", "EG (%p% & %q%)", "(%p% & %q%) & EX (EG (%p% & %q%))", Rel::Eq, 2),
        l("AF fixed point over &", "AF (%p% & %q%)", "(%p% & %q%) | AX (AF (%p% & %q%))", Rel::Eq, 2),
        l("AG fixed point over &", "AG (%p% & %q%)", "(%p% & %q%) & AX (AG (%p% & %q%))", Rel::Eq, 2),
        l("EG over | contains both", "(EG %p%) | (EG %q%)", "EG (%p% | %q%)", Rel::Sub, 2),
        l("AF over & inside both", "AF (%p% & %q%)", "(AF %p%) & (AF %q%)", Rel::Sub, 2),
        l("EX over | distributes", "EX (%p% | %q%)", "(EX %p%) | (EX %q%)", Rel::Eq, 2),
        l("AX over & distributes", "AX (%p% & %q%)", "(AX %p%) & (AX %q%)", Rel::Eq, 2),
        l("EF over | distributes", "EF (%p% | %q%)", "(EF %p%) | (EF %q%)", Rel::Eq, 2),
        l("AG over & distributes", "AG (%p% & %q%)", "(AG %p%) & (AG %q%)", Rel::Eq, 2),
        l("EG of a negation", "EG (~ %p%)", "(~ %p%) & EX (EG (~ %p%))", Rel::Eq, 1),
        l("AF of a negation", "AF (~ %p%)", "(~ %p%) | AX (AF (~ %p%))", Rel::Eq, 1),
    ]
}

fn eval(text: &str, g: &SymbolicAsyncGraph, ctx: &HashMap<String, GraphColoredVertices>) -> Result<GraphColoredVertices, String> {
    match guarded(AssertUnwindSafe(|| mc::model_check_extended_formula_dirty(text, g, ctx))) {
        Ok(Ok(s)) => Ok(s),
        Ok(Err(e)) => Err(format!("Err({e})")),
        Err(p) => Err(format!("panic({p})")),
    }
}

fn ctx_of(p: &GraphColoredVertices, q: Option<&GraphColoredVertices>, r: Option<&GraphColoredVertices>) -> HashMap<String, GraphColoredVertices> {
    let mut m = HashMap::new();
    m.insert("p".to_string(), p.clone());
    if let Some(q) = q {
        m.insert("q".to_string(), q.clone());
    }
    if let Some(r) = r {
        m.insert("r".to_string(), r.clone());
    }
    m
}

/// Check one law on one argument tuple; returns a description if it fails.
pub fn check_law(law: &Law, g: &SymbolicAsyncGraph, p: &GraphColoredVertices, q: Option<&GraphColoredVertices>, r: Option<&GraphColoredVertices>) -> Option<String> {
    let ctx = ctx_of(p, q, r);
    let l = eval(law.lhs, g, &ctx);
    let rr = eval(law.rhs, g, &ctx);
    match (l, rr) {
        (Ok(a), Ok(b)) => {
            let ok = match law.rel {
                Rel::Eq => a == b,
                Rel::Sub => a.is_subset(&b),
            };
            if ok {
                None
            } else {
                Some(format!("law `{}`: {} {} {} does not hold", law.name, law.lhs, if law.rel == Rel::Eq { "=" } else { "subset of" }, law.rhs))
            }
        }
        (Err(e), _) | (_, Err(e)) => Some(format!("law `{}`: evaluation fails: {e}", law.name)),
    }
}

/// The same law with both sides submitted as ONE batch to the multi-formula entry point (the two sides
/// of most laws differ in which operators they contain, so per-batch decisions show here).
pub fn check_law_batch(law: &Law, g: &SymbolicAsyncGraph, p: &GraphColoredVertices, q: Option<&GraphColoredVertices>, r: Option<&GraphColoredVertices>) -> Option<String> {
    let ctx = ctx_of(p, q, r);
    for order in [[law.lhs, law.rhs], [law.rhs, law.lhs]] {
        let res = match guarded(AssertUnwindSafe(|| mc::model_check_multiple_extended_formulae_dirty(order.to_vec(), g, &ctx))) {
            Ok(Ok(v)) if v.len() == 2 => v,
            Ok(Ok(v)) => return Some(format!("law `{}`: batch of 2 returns {} results", law.name, v.len())),
            Ok(Err(e)) => return Some(format!("law `{}`: batch evaluation fails: Err({e})", law.name)),
            Err(pn) => return Some(format!("law `{}`: batch evaluation fails: panic({pn})", law.name)),
        };
        let (a, b) = if order[0] == law.lhs { (&res[0], &res[1]) } else { (&res[1], &res[0]) };
        let ok = match law.rel {
            Rel::Eq => a == b,
            Rel::Sub => a.is_subset(b),
        };
        if !ok {
            return Some(format!("law `{}`: {} {} {} does not hold when both sides are evaluated as the batch {order:?}", law.name, law.lhs, if law.rel == Rel::Eq { "=" } else { "subset of" }, law.rhs));
        }
    }
    None
}

/// Operator applications over the arguments p, q used by the compositionality check.
pub const APPLICATIONS: &[&str] = &[
    "EX %p%", "AX %p%", "EF %p%", "AF %p%", "EG %p%", "AG %p%", "EF %q%", "AF %q%", "EG %q%", "AG %q%", "%p% EU %q%", "%p% AU %q%", "%p% EW %q%", "%p% AW %q%", "%q% EU %p%", "%q% AW %p%",
    "(%p% | %q%) EU %q%", "EF (%p% | %q%)", "%p% EU (%p% | %q%)", "True AU %q%",
];

/// Compositionality: the evaluation of one operator application must not depend on which other application was
/// evaluated before it in the same call. For every ordered pair (A, B): the single formula `A & B` must be the
/// intersection of A and B evaluated on their own; the batch [A, B] must return both.
pub fn check_compositional(g: &SymbolicAsyncGraph, p: &GraphColoredVertices, q: &GraphColoredVertices) -> Option<String> {
    let ctx = ctx_of(p, Some(q), None);
    let mut single = vec![];
    for a in APPLICATIONS {
        match eval(a, g, &ctx) {
            Ok(s) => single.push(s),
            Err(e) => return Some(format!("evaluation of {a} fails: {e}")),
        }
    }
    for (i, a) in APPLICATIONS.iter().enumerate() {
        for (j, b) in APPLICATIONS.iter().enumerate() {
            if i == j {
                continue;
            }
            let text = format!("({a}) & ({b})");
            match eval(&text, g, &ctx) {
                Ok(s) => {
                    if s != single[i].intersect(&single[j]) {
                        return Some(format!("`{text}` is not the intersection of `{a}` and `{b}` evaluated on their own"));
                    }
                }
                Err(e) => return Some(format!("evaluation of {text} fails: {e}")),
            }
            if i < j && (i + j) % 3 == 0 {
                match guarded(AssertUnwindSafe(|| mc::model_check_multiple_extended_formulae_dirty(vec![a, b], g, &ctx))) {
                    Ok(Ok(v)) if v.len() == 2 && v[0] == single[i] && v[1] == single[j] => {}
                    Ok(Ok(_)) => return Some(format!("the batch [{a}, {b}] does not return the two results of the formulae evaluated on their own")),
                    Ok(Err(e)) => return Some(format!("the batch [{a}, {b}] fails: Err({e})")),
                    Err(pn) => return Some(format!("the batch [{a}, {b}] fails: panic({pn})")),
                }
            }
        }
    }
    None
}

/// The graph-library laws on one argument pair (p, q).
pub fn check_library(g: &SymbolicAsyncGraph, p: &GraphColoredVertices, q: &GraphColoredVertices) -> Option<String> {
    let ctx = ctx_of(p, Some(q), None);
    let r = guarded(AssertUnwindSafe(|| {
        let ef = match eval("EF %p%", g, &ctx) {
            Ok(x) => x,
            Err(e) => return Some(format!("EF %p%: evaluation fails: {e}")),
        };
        if ef != g.reach_backward(p) {
            return Some("EF %p% differs from SymbolicAsyncGraph::reach_backward(p)".to_string());
        }
        let ag = match eval("AG %p%", g, &ctx) {
            Ok(x) => x,
            Err(e) => return Some(format!("AG %p%: evaluation fails: {e}")),
        };
        if ag != g.trap_forward(p) {
            return Some("AG %p% differs from SymbolicAsyncGraph::trap_forward(p) (largest forward-closed subset)".to_string());
        }
        let eu = match eval("%p% EU %q%", g, &ctx) {
            Ok(x) => x,
            Err(e) => return Some(format!("%p% EU %q%: evaluation fails: {e}")),
        };
        let both = p.union(q);
        let constrained = if both.is_empty() { g.mk_empty_colored_vertices() } else { Reachability::reach_bwd(&g.restrict(&both), q) };
        if eu != constrained {
            return Some("%p% EU %q% differs from Reachability::reach_bwd(q) inside the graph restricted to p or q".to_string());
        }
        None
    }));
    match r {
        Ok(v) => v,
        Err(p) => Some(format!("panic: {p}")),
    }
}

pub fn replay(case: &Value) -> Option<String> {
    let law_name = case["law"].as_str()?;
    let all = laws();
    if let Some(m) = case.get("model").and_then(|m| m.as_str()) {
        let big = bigmodels::load(m, 1).ok()?;
        let erase = case["erase"].as_u64().unwrap_or(0) as usize;
        let big = if erase > 0 {
            let bn = crate::props::c20::parametrise(&big.bn, erase);
            let graph = biodivine_hctl_model_checker::mc_utils::get_extended_symbolic_graph(&bn, 1).ok()?;
            bigmodels::Big { name: big.name.clone(), bn, graph, k: 1 }
        } else {
            big
        };
        let fam: Vec<(String, GraphColoredVertices)> = argument_family_mode(&big.graph, m.starts_with("synthetic:")).into_iter().step_by(case["p_step"].as_u64().unwrap_or(1) as usize).collect();
        let (pi, qi, ri) = (case["p"].as_u64()? as usize, case["q"].as_u64()? as usize, case["r"].as_u64()? as usize);
        if law_name == "library" {
            return check_library(&big.graph, &fam[pi].1, &fam[qi].1);
        }
        let law = all.iter().find(|l| l.name == law_name)?;
        return check_law(law, &big.graph, &fam[pi].1, Some(&fam[qi].1), Some(&fam[ri].1));
    }
    let spec = serde_json::from_value(case["net"].clone()).ok()?;
    let b = Arc::new(crate::bridge::Bound::new("replay", &spec, 1).ok()?);
    let masks = |k: &str| -> Option<Vec<Mask>> { serde_json::from_value(case[k].clone()).ok() };
    let (p, q, r) = (b.mk_set(&masks("p")?), b.mk_set(&masks("q")?), b.mk_set(&masks("r")?));
    if law_name == "library" {
        return check_library(&b.graph, &p, &q);
    }
    if law_name == "compositional" {
        return check_compositional(&b.graph, &p, &q);
    }
    let law = all.iter().find(|l| l.name == law_name)?;
    if case["batch"].as_bool().unwrap_or(false) {
        return check_law_batch(law, &b.graph, &p, Some(&q), Some(&r));
    }
    check_law(law, &b.graph, &p, Some(&q), Some(&r))
}

/// All coloured sets of a tiny network as per-colour masks.
fn all_sets(ncols: usize, nstates: usize) -> Vec<Vec<Mask>> {
    let bits = ncols * nstates;
    assert!(bits <= 12);
    (0..(1u64 << bits)).map(|code| (0..ncols).map(|c| (code >> (c * nstates)) & ((1u64 << nstates) - 1)).collect()).collect()
}

/// Declared argument family on a bundled model (name, set).
pub fn argument_family(g: &SymbolicAsyncGraph) -> Vec<(String, GraphColoredVertices)> {
    argument_family_mode(g, false)
}

/// `points_only`: only the literals of the first variable, single states, small cubes and their
/// complements (used for the synthetic wide networks, where fixed points over literal combinations
/// take exponentially long).
/// Arguments that are large as DATA: on the networks with variables a00..a15, b00..b15 the set AND_i (a_i <=> b_i) has a BDD of
/// 196 607 nodes (the variables of a pair are 16 positions apart in the order); anything that switches algorithm on BDD size shows here.
fn data_large_family(g: &SymbolicAsyncGraph) -> Option<Vec<(String, GraphColoredVertices)>> {
    let find = |n: &str| g.variables().find(|v| g.get_variable_name(*v) == n);
    let mut p = g.mk_unit_colored_vertices();
    for i in 0..16 {
        let (a, b) = (find(&format!("a{i:02}"))?, find(&format!("b{i:02}"))?);
        let same = g.fix_network_variable(a, true).intersect(&g.fix_network_variable(b, true)).union(&g.fix_network_variable(a, false).intersect(&g.fix_network_variable(b, false)));
        p = p.intersect(&same);
    }
    let unit = g.mk_unit_colored_vertices();
    let a0 = g.fix_network_variable(find("a00")?, true);
    Some(vec![("AND_i (a_i <=> b_i)".to_string(), p.clone()), ("a00".to_string(), a0.clone()), ("its complement".to_string(), unit.minus(&p)), ("AND_i (a_i <=> b_i) & a00".to_string(), p.intersect(&a0))])
}

pub fn argument_family_mode(g: &SymbolicAsyncGraph, points_only: bool) -> Vec<(String, GraphColoredVertices)> {
    if let Some(f) = data_large_family(g) {
        return f;
    }
    let vars: Vec<_> = g.variables().take(if points_only { 1 } else { 4 }).collect();
    let unit = g.mk_unit_colored_vertices();
    let mut base: Vec<(String, GraphColoredVertices)> = vec![];
    let lits: Vec<(String, GraphColoredVertices)> = vars
        .iter()
        .flat_map(|v| {
            let n = g.get_variable_name(*v);
            vec![(n.clone(), g.fix_network_variable(*v, true)), (format!("~{n}"), g.fix_network_variable(*v, false))]
        })
        .collect();
    base.extend(lits.iter().cloned());
    for i in 0..lits.len() {
        for j in i + 1..lits.len() {
            if i / 2 == j / 2 {
                continue;
            }
            base.push((format!("{}&{}", lits[i].0, lits[j].0), lits[i].1.intersect(&lits[j].1)));
            base.push((format!("{}|{}", lits[i].0, lits[j].0), lits[i].1.union(&lits[j].1)));
        }
    }
    // halves of the colour space (first parameter variable), if any
    let mut fam: Vec<(String, GraphColoredVertices)> = vec![("empty".into(), g.mk_empty_colored_vertices()), ("unit".into(), unit.clone())];
    let halves: Vec<(String, GraphColoredVertices)> = match g.symbolic_context().parameter_variables().first() {
        Some(pv) => {
            let vs = g.symbolic_context().bdd_variable_set();
            vec![
                ("c1".to_string(), GraphColoredVertices::new(vs.mk_var(*pv), g.symbolic_context()).intersect(&unit)),
                ("c0".to_string(), GraphColoredVertices::new(vs.mk_not_var(*pv), g.symbolic_context()).intersect(&unit)),
            ]
        }
        None => vec![],
    };
    for (n, s) in &base {
        fam.push((n.clone(), s.clone()));
        for (hn, h) in &halves {
            fam.push((format!("{n}@{hn}"), s.intersect(h)));
        }
    }
    // single states (x all colours) and their complements: arguments on which one fixed-point
    // iteration changes only a tiny fraction of the set
    let nv = g.num_vars();
    for (sname, pat) in [("1111000..", 0u8), ("0100000..", 1), ("alternating", 2)] {
        let vals: Vec<(biodivine_lib_param_bn::VariableId, bool)> = g.variables().enumerate().map(|(i, v)| (v, match pat { 0 => i < 4, 1 => i == 1, _ => i % 2 == 0 })).collect();
        let single = g.mk_subspace(&vals);
        fam.push((format!("state {sname}"), single.clone()));
        fam.push((format!("all but state {sname}"), unit.minus(&single)));
        // a sub-cube fixing all but the last three variables, and its complement
        let cube = g.mk_subspace(&vals[..nv.saturating_sub(3)]);
        fam.push((format!("cube around {sname}"), cube.clone()));
        fam.push((format!("all but cube around {sname}"), unit.minus(&cube)));
    }
    // results of fixed formulae
    for t in if points_only { vec![] } else { vec!["!{x}: AX {x}", "!{x}: AG EF {x}"] } {
        if let Ok(Ok(s)) = guarded(AssertUnwindSafe(|| mc::model_check_formula_dirty(t, g))) {
            fam.push((format!("result of {t}"), s));
        }
    }
    fam
}

/// Child job: one bundled model x one law (or the library laws) over the declared argument family.
pub fn job(job: &Value) -> Value {
    let t0 = std::time::Instant::now();
    let name = job["model"].as_str().unwrap_or("");
    let big = match bigmodels::load(name, 1) {
        Ok(b) => b,
        Err(e) => return json!({"error": e}),
    };
    let erase = job["erase"].as_u64().unwrap_or(0) as usize;
    let big = if erase > 0 {
        let bn = crate::props::c20::parametrise(&big.bn, erase);
        let graph = match biodivine_hctl_model_checker::mc_utils::get_extended_symbolic_graph(&bn, 1) {
            Ok(g) => g,
            Err(e) => return json!({"error": e}),
        };
        bigmodels::Big { name: big.name.clone(), bn, graph, k: 1 }
    } else {
        big
    };
    let fam = argument_family_mode(&big.graph, name.starts_with("synthetic:"));
    let all = laws();
    let li = job["law_index"].as_u64().unwrap_or(0) as usize;
    let p_step = job["p_step"].as_u64().unwrap_or(1) as usize;
    let fam: Vec<(String, GraphColoredVertices)> = fam.into_iter().step_by(p_step).collect();
    let q_count = job["q_count"].as_u64().unwrap_or(10) as usize;
    let small: Vec<usize> = (0..fam.len()).step_by((fam.len() / q_count).max(1)).collect();
    let mut cases = 0u64;
    let mut problems = vec![];
    if li == all.len() {
        for pi in 0..fam.len() {
            for &qi in &small {
                cases += 1;
                if let Some(w) = check_library(&big.graph, &fam[pi].1, &fam[qi].1) {
                    if problems.len() < 5 {
                        problems.push(json!({"law": "library", "p": pi, "q": qi, "r": 0, "what": format!("p={} q={}: {w}", fam[pi].0, fam[qi].0)}));
                    }
                }
            }
        }
    } else {
        let law = &all[li];
        let qs: Vec<usize> = if law.arity >= 2 { small.clone() } else { vec![0] };
        let rs: Vec<usize> = if law.arity >= 3 { small.iter().copied().step_by(if q_count < 10 { 8 } else { 3 }).collect() } else { vec![0] };
        for pi in 0..fam.len() {
            for &qi in &qs {
                for &ri in &rs {
                    cases += 1;
                    if let Some(w) = check_law(law, &big.graph, &fam[pi].1, Some(&fam[qi].1), Some(&fam[ri].1)) {
                        if problems.len() < 5 {
                            problems.push(json!({"law": law.name, "p": pi, "q": qi, "r": ri, "what": format!("p={} q={} r={}: {w}", fam[pi].0, fam[qi].0, fam[ri].0)}));
                        }
                    }
                }
            }
        }
    }
    json!({"cases": cases, "problems": problems, "family": fam.len(), "variables": big.graph.num_vars(), "colours": big.colours(), "wall_s": t0.elapsed().as_secs_f64()})
}

pub fn run(tier: &str) -> Result<Report, String> {
    let mut rep = Report::new("C11", tier, "model_checking");
    std_assumptions(&mut rep);
    let nets = core_nets(1)?;
    let all = laws();
    // tiny networks: every coloured set as argument
    let which: Vec<&str> = if tier == "quick" { vec!["tog2", "imp1", "con2"] } else { vec!["tog2", "asy2", "imp1", "con2", "zer2", "unf2"] };
    for b in nets.iter().filter(|b| which.contains(&b.name.as_str())) {
        crate::sem::note_network(&mut rep, b);
        let sets_m = all_sets(b.cols.len(), b.n_states());
        let sets: Vec<GraphColoredVertices> = sets_m.iter().map(|m| b.mk_set(m)).collect();
        let n = sets.len();
        // argument tuples: p ranges over all sets; q over all sets when n <= 256 (thorough) else a spread; r over a small spread
        let q_idx: Vec<usize> = if n <= 16 || (tier != "quick" && n <= 256) { (0..n).collect() } else { (0..n).step_by((n / 16).max(1)).collect() };
        let r_idx: Vec<usize> = (0..n).step_by((n / 4).max(1)).collect();
        let ctxo = NetCtx::new(b.clone(), Labels::default(), "none");
        let per_law: Vec<(u64, Vec<Violation>)> = all
            .par_iter()
            .map(|law| {
                let mut cases = 0u64;
                let mut bad = vec![];
                let qs: Vec<usize> = if law.arity >= 2 { q_idx.clone() } else { vec![0] };
                let rs: Vec<usize> = if law.arity >= 3 { r_idx.clone() } else { vec![0] };
                for pi in 0..n {
                    for &qi in &qs {
                        for &ri in &rs {
                            cases += 1;
                            let mut w = check_law(law, &b.graph, &sets[pi], Some(&sets[qi]), Some(&sets[ri]));
                            let mut batch = false;
                            if w.is_none() && qi == qs[0] && ri == rs[0] {
                                cases += 1;
                                batch = true;
                                w = check_law_batch(law, &b.graph, &sets[pi], Some(&sets[qi]), Some(&sets[ri]));
                            }
                            if let Some(w) = w {
                                if bad.len() < 5 {
                                    bad.push(Violation {
                                        case: json!({"kind": "law", "law": law.name, "net": b.spec, "aeon": b.aeon, "p": sets_m[pi], "q": sets_m[qi], "r": sets_m[ri], "batch": batch}),
                                        what: format!("on {} with p={:?} q={:?} r={:?}: {w}", b.name, sets_m[pi], sets_m[qi], sets_m[ri]),
                                        size: 1,
                                    });
                                }
                            }
                        }
                    }
                }
                (cases, bad)
            })
            .collect();
        for (c, bad) in per_law {
            rep.evaluations += c * 2;
            rep.add_count("law_instances_tiny", c);
            rep.violations.extend(bad);
        }
        // library laws + oracle anchor for the left-hand sides
        let lib_bad: Vec<Violation> = (0..n)
            .into_par_iter()
            .flat_map(|pi| {
                let mut out = vec![];
                for &qi in &q_idx {
                    if let Some(w) = check_library(&b.graph, &sets[pi], &sets[qi]) {
                        if out.len() < 2 {
                            out.push(Violation { case: json!({"kind": "law", "law": "library", "net": b.spec, "p": sets_m[pi], "q": sets_m[qi], "r": sets_m[0]}), what: format!("on {} with p={:?} q={:?}: {w}", b.name, sets_m[pi], sets_m[qi]), size: 1 });
                        }
                    }
                }
                // oracle anchor: EX/EG/AU of the arguments computed explicitly
                let labels = Labels { wild: vec![sets_m[pi].clone(), sets_m[q_idx[pi % q_idx.len()]].clone()], dom: vec![], props: vec![] };
                let c2 = NetCtx::new(b.clone(), labels, "anchor");
                let nests: Vec<String> = ["EX", "AX", "EF", "AF", "EG", "AG"].iter().flat_map(|u1| ["EX", "AX", "EF", "AF", "EG", "AG"].iter().map(move |u2| format!("{u1} ({u2} %p%)"))).collect();
                for t in ["EX %p%", "EG %p%", "%p% AU %q%", "%p% EW %q%", "AF %p%"].iter().map(|s| s.to_string()).chain(nests.into_iter()) {
                    let t = t.as_str();
                    let f = crate::formulas::f(t, &c2.user);
                    let bad = crate::sem::check_formula(&c2, &f, crate::sem::Checks { semantic: true, unit: false, entries: crate::sem::Entries::Ext2 }, None);
                    if !bad.is_empty() && out.len() < 3 {
                        out.push(Violation { case: crate::sem::case_json(&c2, &f, crate::sem::Checks { semantic: true, unit: false, entries: crate::sem::Entries::Ext2 }), what: format!("oracle anchor {t} on {}: {:?}", b.name, bad), size: 1 });
                    }
                }
                out
            })
            .collect();
        let _ = &ctxo;
        // compositionality of operator applications (every ordered pair over the same arguments in one formula / batch)
        if n <= 16 || tier != "quick" {
            let qc: Vec<usize> = if n <= 16 { (0..n).collect() } else { (0..n).step_by((n / 8).max(1)).collect() };
            let pc: Vec<usize> = if n <= 16 || tier != "quick" { (0..n).collect() } else { (0..n).step_by((n / 16).max(1)).collect() };
            let comp_bad: Vec<Violation> = pc
                .par_iter()
                .flat_map(|&pi| {
                    let mut out = vec![];
                    for &qi in &qc {
                        if let Some(w) = check_compositional(&b.graph, &sets[pi], &sets[qi]) {
                            if out.len() < 2 {
                                out.push(Violation { case: json!({"kind": "law", "law": "compositional", "net": b.spec, "p": sets_m[pi], "q": sets_m[qi], "r": sets_m[0]}), what: format!("on {} with p={:?} q={:?}: {w}", b.name, sets_m[pi], sets_m[qi]), size: 1 });
                            }
                        }
                    }
                    out
                })
                .collect();
            let napp = APPLICATIONS.len() as u64;
            rep.evaluations += (pc.len() * qc.len()) as u64 * (napp + napp * (napp - 1));
            rep.add_count("compositionality_instances_tiny", (pc.len() * qc.len()) as u64 * napp * (napp - 1));
            rep.violations.extend(comp_bad.into_iter().take(20));
        }
        rep.evaluations += (n * q_idx.len()) as u64 * 3 + n as u64 * 41;
        rep.traces_validated += n as u64 * 41 * b.cols.len() as u64;
        rep.add_count("library_law_instances_tiny", (n * q_idx.len()) as u64);
        rep.violations.extend(lib_bad.into_iter().take(20));
        let mut t = rep.extra.get("tiny_networks").cloned().unwrap_or(json!([]));
        t.as_array_mut().unwrap().push(json!({"network": b.name, "all_coloured_sets": n, "q_choices": q_idx.len(), "r_choices": r_idx.len()}));
        rep.set("tiny_networks", t);
    }
    // 3-variable networks (one colour, 8 states): a menu of 8 update functions per variable, every one of the
    // 256 state sets as argument of every one-argument law and of the graph-library laws
    {
        let menu = |i: usize| -> Vec<String> {
            let n = ["a", "b", "c"];
            let (x, y) = match i {
                0 => (n[1], n[2]),
                1 => (n[0], n[2]),
                _ => (n[0], n[1]),
            };
            vec!["false".into(), x.into(), y.into(), format!("!{x}"), format!("{x} & !{y}"), format!("{y} & !{x}"), format!("{x} | {y}"), n[i].into()]
        };
        let regs = "a -?? a; b -?? a; c -?? a; a -?? b; b -?? b; c -?? b; a -?? c; b -?? c; c -?? c";
        let mut specs = vec![];
        for (ia, fa) in menu(0).iter().enumerate() {
            for (ib, fb) in menu(1).iter().enumerate() {
                for (ic, fc) in menu(2).iter().enumerate() {
                    if tier == "quick" && (ia + 3 * ib + 5 * ic) % 4 != 0 {
                        continue;
                    }
                    specs.push(format!("{regs}; $a: {fa}; $b: {fb}; $c: {fc}"));
                    // the same dynamics with the regulations DECLARED as they are (sign and observability of every essential
                    // input; no edge for an inessential one): regulatory graphs with and without negative / positive feedback
                    // loops of length 1..3 - what an implementation may conclude from the signs is an input too
                    if tier != "quick" || (ia + 3 * ib + 5 * ic) % 4 == 0 {
                        let n = ["a", "b", "c"];
                        let edges = |i: usize, k: usize| -> String {
                            let (x, y) = match i {
                                0 => (n[1], n[2]),
                                1 => (n[0], n[2]),
                                _ => (n[0], n[1]),
                            };
                            let v = n[i];
                            match k {
                                0 => String::new(),
                                1 => format!("{x} -> {v}; "),
                                2 => format!("{y} -> {v}; "),
                                3 => format!("{x} -| {v}; "),
                                4 => format!("{x} -> {v}; {y} -| {v}; "),
                                5 => format!("{y} -> {v}; {x} -| {v}; "),
                                6 => format!("{x} -> {v}; {y} -> {v}; "),
                                _ => format!("{v} -> {v}; "),
                            }
                        };
                        specs.push(format!("{}{}{}$a: {fa}; $b: {fb}; $c: {fc}", edges(0, ia), edges(1, ib), edges(2, ic)));
                    }
                }
            }
        }
        let one_arg: Vec<&Law> = all.iter().filter(|l| l.arity == 1).collect();
        let res: Vec<Result<(u64, Vec<Violation>), String>> = specs
            .par_iter()
            .map(|text| {
                let sp = crate::nets::spec(text);
                let b = crate::bridge::Bound::new("menu3", &sp, 1).map_err(|e| format!("menu network {text}: {e:?}"))?;
                let mut bad = vec![];
                let mut cases = 0u64;
                for m in 0..256u64 {
                    let p = b.mk_set(&[m]);
                    for law in &one_arg {
                        cases += 1;
                        if let Some(w) = check_law(law, &b.graph, &p, None, None) {
                            if bad.len() < 2 {
                                bad.push(Violation { case: json!({"kind": "law", "law": law.name, "net": b.spec, "aeon": b.aeon, "p": [m], "q": [0], "r": [0]}), what: format!("on [{}] with p={m:08b}: {w}", b.aeon.replace('\n', "; ")), size: 2 });
                            }
                        }
                    }
                    cases += 1;
                    if let Some(w) = check_library(&b.graph, &p, &b.mk_set(&[m.rotate_left(3) & 0xff | (m >> 5)])) {
                        if bad.len() < 2 {
                            bad.push(Violation { case: json!({"kind": "law", "law": "library", "net": b.spec, "p": [m], "q": [m.rotate_left(3) & 0xff | (m >> 5)], "r": [0]}), what: format!("on [{}] with p={m:08b}: {w}", b.aeon.replace('\n', "; ")), size: 2 });
                        }
                    }
                }
                Ok((cases, bad))
            })
            .collect();
        let mut total = 0u64;
        for r in res {
            let (c, bad) = r?;
            total += c;
            rep.violations.extend(bad.into_iter().take(2));
        }
        rep.evaluations += total * 2;
        rep.add_count("law_instances_three_variable_menu", total);
        rep.set("three_variable_menu_networks", json!(specs.len()));
    }
    let _ = full_mask(1);
    // bundled models: one child job per (model, law)
    let limit = if tier == "quick" { 20.0 } else { 300.0 };
    // (model, number of erased update functions, p_step, q_count)
    let models: Vec<(&str, u64, u64, u64)> = if tier == "quick" {
        vec![("pystablemotifs-models/myeloid.aeon", 0, 1, 4), ("cell_division", 0, 6, 4), ("synthetic:chain60", 0, 1, 4), ("synthetic:chain70", 0, 1, 4), ("synthetic:pairs16chains", 0, 1, 3)]
    } else {
        vec![
            ("pystablemotifs-models/myeloid.aeon", 0, 1, 10),
            ("pystablemotifs-models/myeloid.aeon", 2, 1, 10),
            ("cell_division", 0, 1, 10),
            ("inference-benchmarks/110_9v/model_parametrized.aeon", 0, 2, 10),
            ("large-colored-models/set1-tacas/tacas2.aeon", 0, 2, 10),
            ("pystablemotifs-models/EMT.aeon", 0, 2, 10),
            ("synthetic:chain60", 0, 1, 10),
            ("synthetic:chain58p", 0, 1, 10),
            ("synthetic:chain70", 0, 1, 10),
            ("synthetic:pairs16", 0, 1, 6),
            ("synthetic:pairs16chains", 0, 1, 6),
        ]
    };
    let mut jobs = vec![];
    for (m, erase, p_step, q_count) in &models {
        for li in 0..=all.len() {
            // quick tier: on the parametrised model only the laws whose fixed points are computed by
            // saturation (EX/AX/EF/AG/EU/AW); the AF/EG/AU/EW laws take minutes there (thorough tier)
            let slow = li < all.len() && ["AF", "EG", "AU", "EW"].iter().any(|o| all[li].lhs.contains(o) || all[li].rhs.contains(o));
            if tier == "quick" && *m == "cell_division" && slow {
                continue;
            }
            // quick tier: on the data-large network the one-argument laws only
            if tier == "quick" && m.starts_with("synthetic:pairs16") && li < all.len() && all[li].arity > 1 {
                continue;
            }
            jobs.push(json!({"kind": "c11big", "model": m, "erase": erase, "law_index": li, "p_step": p_step, "q_count": q_count}));
        }
    }
    let results: Vec<(Value, crate::jobs::JobResult)> = jobs.par_iter().map(|j| (j.clone(), crate::jobs::run(j, if j["model"].as_str().unwrap_or("").starts_with("synthetic:pairs16") { limit * 3.0 } else { limit }))).collect();
    let mut per_model: HashMap<String, (u64, u64, Value)> = HashMap::new();
    for (j, r) in results {
        let mname = format!("{}{}", j["model"].as_str().unwrap_or(""), if j["erase"].as_u64().unwrap_or(0) > 0 { format!(" with {} update functions erased", j["erase"]) } else { String::new() });
        match r {
            crate::jobs::JobResult::Done(v) => {
                if let Some(e) = v.get("error") {
                    return Err(format!("bundled model job {j}: {e}"));
                }
                let e = per_model.entry(mname.clone()).or_insert((0, 0, json!(null)));
                e.0 += v["cases"].as_u64().unwrap_or(0);
                e.1 += 1;
                e.2 = json!({"variables": v["variables"], "colours": v["colours"], "argument_family": v["family"]});
                for p in v["problems"].as_array().cloned().unwrap_or_default() {
                    rep.violations.push(Violation {
                        case: json!({"kind": "law", "model": j["model"], "erase": j["erase"], "law": p["law"], "p": p["p"], "q": p["q"], "r": p["r"], "p_step": j["p_step"]}),
                        what: format!("on bundled model {mname}: {}", p["what"].as_str().unwrap_or("")),
                        size: 50,
                    });
                }
            }
            crate::jobs::JobResult::Timeout => rep.cap(format!("job {j} exceeded {limit}s and was stopped (no verdict)")),
            crate::jobs::JobResult::Crashed(e) => return Err(format!("bundled model job {j} crashed: {e}")),
        }
    }
    let mut big_total = 0;
    let mut bm = vec![];
    for (m, (cases, jobs_done, info)) in per_model {
        big_total += cases;
        bm.push(json!({"model": m, "law_instances": cases, "jobs_completed": jobs_done, "jobs_total": all.len() + 1, "info": info}));
    }
    rep.set("bundled_models", json!(bm));
    rep.set("law_instances_bundled", json!(big_total));
    rep.evaluations += big_total * 2;
    rep.distinct_nontrivial = rep.extra.get("law_instances_tiny").and_then(|v| v.as_u64()).unwrap_or(0) + big_total;
    rep.set("laws", json!(all.iter().map(|l| format!("{}: {} {} {}", l.name, l.lhs, if l.rel == Rel::Eq { "=" } else { "⊆" }, l.rhs)).collect::<Vec<_>>()));
    rep.sample(json!({"law": "AU fixed point", "network": "con2", "p": [5, 9], "q": [2, 0], "meaning": "per-colour state masks of the wild-card sets; both sides evaluated by the tool and compared as sets"}));
    rep.rule = format!("{} laws (fixed-point equations, dualities in both directions - a negation directly above every temporal operator -, excluded middle for the until operators, inclusions, monotonicity in every argument, steady states as self-loops) + 3 graph-library laws (EF = reach_backward, AG = trap_forward, EU = reach_bwd in the restricted graph), each instantiated with wild-card arguments (also: every one-argument law and the library laws on every one of the 256 state sets of 512 (quick: 128) three-variable networks built from a menu of 8 update functions per variable (regulations unsigned, and the same dynamics with sign and observability of every essential input declared); on the tiny networks every law x first-argument set also with both sides submitted as one batch, in both orders, to model_check_multiple_extended_formulae_dirty; compositionality: for every ordered pair (A, B) of 20 operator applications over the same arguments the single formula `A & B` must be the intersection of A and B evaluated on their own, and the batch [A, B] must return both - all (p, q) on networks with <= 16 sets, a spread of q otherwise (thorough): on the tiny networks {which:?} with EVERY coloured set as p (all pairs (p,q) when the network has <= 16 sets, or <= 256 in the thorough tier; otherwise q from a spread of 16, r from a spread of 4), anchored by the explicit-state oracle (EX, EG, AU, EW, AF and all 36 nests of two unary temporal operators on every set); on the bundled models {models:?} with a declared family (on the pairs16 networks: the set AND_i (a_i <=> b_i) with a BDD of 196 607 nodes, its complement, its intersection / union with a literal; elsewhere: literals, conjunctions/disjunctions of two literals over the first 4 variables, each also cut by each half of the colour space, empty, unit, results of two formulae). distinct_nontrivial = number of law instances (distinct (law, argument tuple, network))", all.len());
    Ok(rep)
}
