//! C19 — the aeon-to-bnet converter preserves the family of update functions.

use crate::cli;
use crate::nets::{Expr, NetSpec, Reg, Sign};
use crate::report::{Report, Violation};
use biodivine_lib_param_bn::{BinaryOp, BooleanNetwork, FnUpdate};
use rayon::prelude::*;
use serde_json::{json, Value};
use std::collections::{BTreeMap, BTreeSet};

/// Names the converter may generate for fresh inputs: `<symbol>_<bits>` with |bits| = arity of the
/// symbol, and `<variable>_<bits>` with |bits| = number of regulators of a variable with an implicit
/// function. A network has a *name clash* if one of its variables / symbols carries such a name.
pub fn generated_names(spec: &NetSpec) -> BTreeSet<String> {
    let mut out = BTreeSet::new();
    let mut add = |prefix: &str, arity: usize| {
        for code in 0..(1usize << arity) {
            let bits: String = (0..arity).map(|i| if code >> i & 1 == 1 { '1' } else { '0' }).collect();
            out.insert(format!("{prefix}_{bits}"));
        }
    };
    for (name, ar) in spec.symbols() {
        add(&name, ar);
    }
    for (v, ar) in spec.implicit_vars() {
        if ar > 0 {
            add(&spec.vars[v], ar);
        }
    }
    out
}

pub fn has_name_clash(spec: &NetSpec) -> bool {
    let gen = generated_names(spec);
    spec.vars.iter().any(|v| gen.contains(v)) || spec.symbols().keys().any(|s| gen.contains(s))
}

pub fn recompute_name_clash(case: &Value) -> bool {
    match serde_json::from_value::<NetSpec>(case["net"].clone()) {
        Ok(spec) => has_name_clash(&spec),
        Err(_) => false,
    }
}

fn eval_fn(f: &FnUpdate, bn: &BooleanNetwork, val: &BTreeMap<String, bool>) -> Result<bool, String> {
    Ok(match f {
        FnUpdate::Const(b) => *b,
        FnUpdate::Var(v) => *val.get(bn.get_variable_name(*v)).ok_or(format!("no value for {}", bn.get_variable_name(*v)))?,
        FnUpdate::Param(p, args) => {
            if !args.is_empty() {
                return Err("output still contains a function application".into());
            }
            let n = bn.get_parameter(*p).get_name();
            *val.get(n).ok_or(format!("no value for {n}"))?
        }
        FnUpdate::Not(x) => !eval_fn(x, bn, val)?,
        FnUpdate::Binary(op, l, r) => {
            let (a, b) = (eval_fn(l, bn, val)?, eval_fn(r, bn, val)?);
            match op {
                BinaryOp::And => a && b,
                BinaryOp::Or => a || b,
                BinaryOp::Xor => a != b,
                BinaryOp::Iff => a == b,
                BinaryOp::Imp => !a || b,
            }
        }
    })
}

fn names_in(f: &FnUpdate, bn: &BooleanNetwork, out: &mut BTreeSet<String>) {
    match f {
        FnUpdate::Const(_) => {}
        FnUpdate::Var(v) => {
            out.insert(bn.get_variable_name(*v).clone());
        }
        FnUpdate::Param(p, args) => {
            out.insert(bn.get_parameter(*p).get_name().clone());
            for a in args {
                names_in(a, bn, out);
            }
        }
        FnUpdate::Not(x) => names_in(x, bn, out),
        FnUpdate::Binary(_, l, r) => {
            names_in(l, bn, out);
            names_in(r, bn, out);
        }
    }
}

/// Run the converter on the network and check all C19 obligations.
pub fn check(spec: &NetSpec) -> Option<String> {
    let aeon = spec.to_aeon();
    // the library must accept the input (otherwise it is not an "aeon network")
    if BooleanNetwork::try_from(aeon.as_str()).is_err() {
        return None;
    }
    let out = match cli::run(&cli::converter_bin(), &[], Some(&aeon), 30.0) {
        Ok(o) => o,
        Err(e) => return Some(format!("cannot run the converter: {e}")),
    };
    if out.timed_out {
        return Some("converter hangs".into());
    }
    if out.code != Some(0) {
        return Some(format!("converter fails (exit {:?}): {}", out.code, crate::report::truncate(&out.stderr, 200)));
    }
    let bn = match BooleanNetwork::try_from_bnet(&out.stdout) {
        Ok(b) => b,
        Err(e) => return Some(format!("output is not a bnet network: {e}; output: {}", crate::report::truncate(&out.stdout, 200))),
    };
    let n = spec.n();
    // targets of the output (left column)
    let targets: BTreeSet<String> = out.stdout.lines().skip(1).filter_map(|l| l.split_once(',').map(|(t, _)| t.trim().to_string())).filter(|t| !t.is_empty()).collect();
    let should: BTreeSet<String> = (0..n).filter(|i| !spec.regulators(*i).is_empty() || spec.funcs[*i].is_some()).map(|i| spec.vars[i].clone()).collect();
    if targets != should {
        return Some(format!("targets of the output are {targets:?}, but the variables with a regulator or an update function are {should:?}"));
    }
    let interps = spec.all_interps();
    for t in 0..n {
        if !should.contains(&spec.vars[t]) {
            continue;
        }
        let vid = match bn.as_graph().find_variable(&spec.vars[t]) {
            Some(v) => v,
            None => return Some(format!("variable {} missing in the output", spec.vars[t])),
        };
        let f = match bn.get_update_function(vid) {
            Some(f) => f.clone(),
            None => return Some(format!("target {} has no update function in the output", spec.vars[t])),
        };
        let mut names = BTreeSet::new();
        names_in(&f, &bn, &mut names);
        let fresh: Vec<String> = names.iter().filter(|x| !spec.vars.contains(x)).cloned().collect();
        if fresh.len() > 16 {
            return Some("too many fresh inputs".into());
        }
        // set of truth tables over the original variables as the fresh inputs range over all values
        let mut got: BTreeSet<Vec<bool>> = BTreeSet::new();
        for code in 0..(1u32 << fresh.len()) {
            let mut table = vec![];
            for s in 0..(1usize << n) {
                let mut val: BTreeMap<String, bool> = BTreeMap::new();
                for (i, v) in spec.vars.iter().enumerate() {
                    val.insert(v.clone(), s >> i & 1 == 1);
                }
                for (j, x) in fresh.iter().enumerate() {
                    val.insert(x.clone(), code >> j & 1 == 1);
                }
                match eval_fn(&f, &bn, &val) {
                    Ok(b) => table.push(b),
                    Err(e) => return Some(format!("update function of {} in the output: {e}", spec.vars[t])),
                }
            }
            got.insert(table);
        }
        // expected: every instantiation of the input's unknown functions, regulation constraints dropped
        let want: BTreeSet<Vec<bool>> = interps.iter().map(|i| (0..(1usize << n)).map(|s| spec.update(t, s, i)).collect()).collect();
        if got != want {
            return Some(format!(
                "variable {}: the output function ranges over {} truth tables, the input's update function over {} (missing {}, extra {}); output line: {}",
                spec.vars[t],
                got.len(),
                want.len(),
                want.difference(&got).count(),
                got.difference(&want).count(),
                out.stdout.lines().find(|l| l.starts_with(&format!("{},", spec.vars[t]))).unwrap_or("")
            ));
        }
        // fresh inputs must not be targets
        for x in &fresh {
            if targets.contains(x) {
                return Some(format!("fresh input {x} is also a target"));
            }
        }
    }
    // the family of whole NETWORKS: an unknown function has one interpretation per instantiation, shared by every update
    // function that mentions it - compare the set of tuples (truth table of every target) jointly
    let tvars: Vec<usize> = (0..n).filter(|t| should.contains(&spec.vars[*t])).collect();
    let mut fns = vec![];
    let mut all_fresh: BTreeSet<String> = BTreeSet::new();
    for &t in &tvars {
        let vid = bn.as_graph().find_variable(&spec.vars[t])?;
        let f = bn.get_update_function(vid).clone()?;
        let mut names = BTreeSet::new();
        names_in(&f, &bn, &mut names);
        all_fresh.extend(names.into_iter().filter(|x| !spec.vars.contains(x)));
        fns.push(f);
    }
    if tvars.len() >= 2 && all_fresh.len() <= 10 {
        let fresh: Vec<String> = all_fresh.into_iter().collect();
        let mut got: BTreeSet<Vec<Vec<bool>>> = BTreeSet::new();
        for code in 0..(1u32 << fresh.len()) {
            let mut tuple = vec![];
            for f in &fns {
                let mut table = vec![];
                for s in 0..(1usize << n) {
                    let mut val: BTreeMap<String, bool> = BTreeMap::new();
                    for (i, v) in spec.vars.iter().enumerate() {
                        val.insert(v.clone(), s >> i & 1 == 1);
                    }
                    for (j, x) in fresh.iter().enumerate() {
                        val.insert(x.clone(), code >> j & 1 == 1);
                    }
                    table.push(eval_fn(f, &bn, &val).ok()?);
                }
                tuple.push(table);
            }
            got.insert(tuple);
        }
        let want: BTreeSet<Vec<Vec<bool>>> = interps.iter().map(|i| tvars.iter().map(|&t| (0..(1usize << n)).map(|s| spec.update(t, s, i)).collect()).collect()).collect();
        if got != want {
            return Some(format!(
                "OBSERVATION (C19 is stated per variable; this is not a verdict): taken together the output's update functions range over {} networks, the input's over {} (missing {}, extra {}): a function symbol shared by several update functions must keep ONE interpretation; output: {}",
                got.len(),
                want.len(),
                want.difference(&got).count(),
                got.difference(&want).count(),
                crate::report::truncate(&out.stdout.replace('\n', "; "), 300)
            ));
        }
    }
    None
}

pub fn replay(case: &Value) -> Option<String> {
    let spec: NetSpec = serde_json::from_value(case["net"].clone()).ok()?;
    check(&spec)
}

/// Menu of (regulators, function) choices for variable `t` of an `n`-variable network.
fn menu(t: usize, n: usize, rich: bool) -> Vec<(Vec<usize>, Option<Expr>)> {
    let v = Expr::Var;
    let call = |name: &str, args: Vec<usize>| Expr::Call(name.to_string(), args);
    let others: Vec<usize> = (0..n).collect();
    let mut m: Vec<(Vec<usize>, Option<Expr>)> = vec![(vec![], None), (vec![], Some(Expr::Const(true))), (vec![], Some(call("h", vec![])))];
    for &x in &others {
        m.push((vec![x], None));
        m.push((vec![x], Some(Expr::not(v(x)))));
        m.push((vec![x], Some(call("f", vec![x]))));
        m.push((vec![x], Some(Expr::bin('|', call("f", vec![x]), call("h", vec![])))));
        m.push((vec![x], Some(Expr::bin('^', call("f", vec![x]), Expr::bin('&', call("f", vec![x]), call("h", vec![]))))));
        // literal (negated) arguments
        m.push((vec![x], Some(Expr::CallLit("f".into(), vec![(x, true)]))));
        m.push((vec![x], Some(Expr::bin('&', call("f", vec![x]), Expr::CallLit("f".into(), vec![(x, true)])))));
        if rich {
            m.push((vec![x], Some(v(x))));
            m.push((vec![x], Some(Expr::bin('&', call("g", vec![x]), Expr::not(call("f", vec![x]))))));
        }
        for &y in &others {
            if y <= x {
                continue;
            }
            m.push((vec![x, y], None));
            m.push((vec![x, y], Some(call("k", vec![x, y]))));
            m.push((vec![x, y], Some(Expr::bin('&', call("f", vec![x]), call("g", vec![y])))));
            // the same symbol twice in one update function, with different / swapped / equal arguments
            m.push((vec![x, y], Some(Expr::bin('|', call("f", vec![x]), call("f", vec![y])))));
            m.push((vec![x, y], Some(Expr::bin('&', call("k", vec![x, y]), Expr::not(call("k", vec![y, x]))))));
            m.push((vec![x, y], Some(Expr::bin('|', Expr::CallLit("k".into(), vec![(x, true), (y, false)]), call("k", vec![x, y])))));
            if rich {
                m.push((vec![x, y], Some(Expr::bin('^', v(x), v(y)))));
                m.push((vec![x, y], Some(Expr::bin('|', v(x), Expr::not(v(y))))));
                m.push((vec![x, y], Some(call("k", vec![y, x]))));
                m.push((vec![x, y], Some(Expr::bin('>', call("f", vec![y]), Expr::bin('&', v(x), call("h", vec![]))))));
            }
        }
    }
    if n == 3 && rich {
        m.push((vec![0, 1, 2], None));
        m.push((vec![0, 1, 2], Some(Expr::bin('|', Expr::Call("k".into(), vec![0, 2]), Expr::bin('&', v(1), Expr::Call("f".into(), vec![t]))))));
    }
    m
}

fn build(n: usize, choice: &[(Vec<usize>, Option<Expr>)], constrained: bool) -> NetSpec {
    let vars: Vec<String> = ["a", "b", "c"].iter().take(n).map(|s| s.to_string()).collect();
    let mut regs = vec![];
    let mut funcs = vec![];
    for (t, (r, f)) in choice.iter().enumerate() {
        for (j, &src) in r.iter().enumerate() {
            let (sign, observable) = if constrained && j == 0 { (Sign::Pos, true) } else { (Sign::Unk, false) };
            regs.push(Reg { src, dst: t, sign, observable });
        }
        funcs.push(f.clone());
    }
    NetSpec { vars, regs, funcs }
}

pub fn run(tier: &str) -> Result<Report, String> {
    let mut rep = Report::new("C19", tier, "exploration");
    if !cli::converter_bin().exists() {
        return Err(format!("{} not built (./check builds it)", cli::converter_bin().display()));
    }
    let mut specs: Vec<NetSpec> = vec![];
    for n in 1..=3usize {
        let rich = n <= 2 || tier != "quick";
        let menus: Vec<Vec<(Vec<usize>, Option<Expr>)>> = (0..n).map(|t| menu(t, n, rich && (n <= 2 || tier != "quick"))).collect();
        let menus: Vec<Vec<(Vec<usize>, Option<Expr>)>> = if n == 3 { menus.into_iter().map(|m| m.into_iter().step_by(if tier == "quick" { 2 } else { 1 }).collect()).collect() } else { menus };
        let sizes: Vec<usize> = menus.iter().map(|m| m.len()).collect();
        let total: usize = sizes.iter().product();
        for mut code in 0..total {
            let mut choice = vec![];
            for (t, s) in sizes.iter().enumerate() {
                choice.push(menus[t][code % s].clone());
                code /= s;
            }
            for constrained in [false, true] {
                if constrained && (n == 3 || choice.iter().all(|(r, _)| r.is_empty())) {
                    continue;
                }
                let spec = build(n, &choice, constrained);
                if spec.well_formed() && spec.param_bits() <= 14 {
                    specs.push(spec);
                }
            }
        }
    }
    // name-clash sub-family: a variable named like a generated input
    let mut clash_specs = vec![];
    for (vars, regs, funcs) in [
        (vec!["a", "f_1"], vec![(1usize, 0usize)], vec![Some(Expr::Call("f".into(), vec![1])), None]),
        (vec!["a", "f_0"], vec![(0, 0), (1, 0)], vec![Some(Expr::bin('&', Expr::Call("f".into(), vec![0]), Expr::Var(1))), None]),
        (vec!["a", "a_1"], vec![(1, 0)], vec![None, None]),
        (vec!["b", "b_01"], vec![(0, 0), (1, 0)], vec![None, Some(Expr::Const(true))]),
        // a zero-arity symbol named like a generated input of another symbol
        (vec!["a", "b"], vec![(1, 0), (0, 1)], vec![Some(Expr::bin('&', Expr::Call("f".into(), vec![1]), Expr::Call("f_1".into(), vec![]))), Some(Expr::Var(0))]),
        (vec!["a", "b"], vec![(1, 0), (0, 1)], vec![Some(Expr::Call("f".into(), vec![1])), Some(Expr::bin('|', Expr::Var(0), Expr::Call("f_0".into(), vec![])))]),
        (vec!["a", "b"], vec![(1, 0), (0, 1), (1, 1)], vec![None, Some(Expr::bin('^', Expr::Call("a_1".into(), vec![]), Expr::bin('&', Expr::Var(0), Expr::Var(1))))]),
        // two symbols one of which is the other plus an underscore, next to a variable with that prefix
        (vec!["f_a", "x"], vec![(0, 1)], vec![None, Some(Expr::bin('^', Expr::Call("f".into(), vec![0]), Expr::Call("f_".into(), vec![0])))]),
        (vec!["f_1", "x"], vec![(0, 1)], vec![None, Some(Expr::bin('&', Expr::Call("f".into(), vec![0]), Expr::not(Expr::Call("f_".into(), vec![0]))))]),
        (vec!["k_in", "x"], vec![(0, 1)], vec![None, Some(Expr::bin('^', Expr::bin('&', Expr::Var(0), Expr::Call("k".into(), vec![])), Expr::Call("k_".into(), vec![])))]),
        (vec!["f__0", "x"], vec![(0, 1)], vec![None, Some(Expr::bin('|', Expr::Call("f".into(), vec![0]), Expr::Call("f_".into(), vec![0])))]),
        (vec!["a", "x"], vec![(0, 1)], vec![None, Some(Expr::bin('^', Expr::Call("f".into(), vec![0]), Expr::Call("f_".into(), vec![0])))]),
        // a variable named like a generated constant AND the symbol applied twice in one update function (both applications must
        // end up with the same repaired name)
        (vec!["a", "b", "f_1"], vec![(0, 0), (1, 0), (2, 0)], vec![Some(Expr::bin('&', Expr::bin('&', Expr::Call("f".into(), vec![0]), Expr::not(Expr::Call("f".into(), vec![1]))), Expr::Var(2))), None, None]),
        (vec!["a", "b", "f_0"], vec![(0, 0), (1, 0), (2, 0)], vec![Some(Expr::bin('|', Expr::bin('^', Expr::Call("f".into(), vec![0]), Expr::Call("f".into(), vec![1])), Expr::Var(2))), None, None]),
        (vec!["a", "b", "k_10"], vec![(0, 0), (1, 0), (2, 0)], vec![Some(Expr::bin('|', Expr::bin('&', Expr::Call("k".into(), vec![0, 1]), Expr::not(Expr::Call("k".into(), vec![1, 0]))), Expr::Var(2))), None, None]),
        (vec!["a", "h_", "x"], vec![(0, 2), (1, 2)], vec![None, None, Some(Expr::bin('^', Expr::bin('&', Expr::Var(0), Expr::Call("h".into(), vec![])), Expr::bin('|', Expr::Var(1), Expr::Call("h".into(), vec![]))))]),
    ] {
        let spec = NetSpec {
            vars: vars.iter().map(|s| s.to_string()).collect(),
            regs: regs.iter().map(|(s, d)| Reg { src: *s, dst: *d, sign: Sign::Unk, observable: false }).collect(),
            funcs,
        };
        if spec.well_formed() {
            clash_specs.push(spec);
        }
    }
    // argument-list sub-family: one symbol of arity 2 / 3 applied to EVERY argument list over the
    // variables (repetitions, adjacent or not, included), alone and in every ordered pair
    // `m(args1) & !m(args2)` - the generated constants are shared by all applications of a symbol
    let mut arg_specs = vec![];
    for (nv, arity) in [(2usize, 2usize), (2, 3), (3, 3)] {
        if nv == 3 && tier == "quick" {
            continue;
        }
        let lists: Vec<Vec<usize>> = (0..nv.pow(arity as u32)).map(|mut c| (0..arity).map(|_| { let x = c % nv; c /= nv; x }).collect()).collect();
        let vars: Vec<String> = ["a", "b", "c"].iter().take(nv).map(|s| s.to_string()).collect();
        let regs: Vec<Reg> = (0..nv).map(|src| Reg { src, dst: 0, sign: Sign::Unk, observable: false }).chain((1..nv).map(|v| Reg { src: v, dst: v, sign: Sign::Unk, observable: false })).collect();
        let mk = |f: Expr| {
            let mut funcs = vec![Some(f)];
            for v in 1..nv {
                funcs.push(Some(Expr::Var(v)));
            }
            NetSpec { vars: vars.clone(), regs: regs.clone(), funcs }
        };
        for l1 in &lists {
            // every variable must be mentioned somewhere in the function (declared regulators)
            arg_specs.push(mk(Expr::Call("m".into(), l1.clone())));
            for l2 in &lists {
                if l1 != l2 {
                    arg_specs.push(mk(Expr::bin('&', Expr::Call("m".into(), l1.clone()), Expr::not(Expr::Call("m".into(), l2.clone())))));
                }
            }
        }
    }
    // literal sub-family: the constants true / false as operands of every binary operator, on either side,
    // with a plain variable, a negated one and a term with an uninterpreted function as the other operand
    {
        let vars: Vec<String> = vec!["a".into(), "b".into()];
        let regs: Vec<Reg> = vec![Reg { src: 0, dst: 0, sign: Sign::Unk, observable: false }, Reg { src: 1, dst: 0, sign: Sign::Unk, observable: false }, Reg { src: 1, dst: 1, sign: Sign::Unk, observable: false }];
        let others = [Expr::Var(0), Expr::not(Expr::Var(1)), Expr::bin('&', Expr::Var(0), Expr::Call("f".into(), vec![1])), Expr::bin('|', Expr::Call("f".into(), vec![0]), Expr::Var(1))];
        for op in ['&', '|', '^', '>', '='] {
            for c in [true, false] {
                for o in &others {
                    for left in [true, false] {
                        let e = if left { Expr::bin(op, Expr::Const(c), o.clone()) } else { Expr::bin(op, o.clone(), Expr::Const(c)) };
                        // make both variables occur (declared regulators)
                        let f0 = Expr::bin('|', e.clone(), Expr::bin('&', Expr::Var(0), Expr::Var(1)));
                        for f in [e, f0, Expr::not(Expr::bin(op, Expr::Const(c), Expr::bin('^', Expr::Var(0), Expr::Var(1))))] {
                            arg_specs.push(NetSpec { vars: vars.clone(), regs: regs.clone(), funcs: vec![Some(f), Some(Expr::Var(1))] });
                        }
                    }
                }
            }
        }
    }
    // expression-argument sub-family: a symbol applied to zero-arity parameters, constants, compound terms
    // and to itself, next to a second application of the same symbol
    {
        let vars: Vec<String> = vec!["a".into(), "b".into()];
        let regs: Vec<Reg> = vec![Reg { src: 0, dst: 0, sign: Sign::Unk, observable: false }, Reg { src: 1, dst: 0, sign: Sign::Unk, observable: false }, Reg { src: 1, dst: 1, sign: Sign::Unk, observable: false }];
        let p = || Expr::Call("p".into(), vec![]);
        let q = || Expr::Call("q".into(), vec![]);
        let (a, b) = (|| Expr::Var(0), || Expr::Var(1));
        let ce = |n: &str, args: Vec<Expr>| Expr::CallE(n.to_string(), args);
        let one: Vec<Expr> = vec![p(), Expr::not(p()), Expr::Const(true), Expr::Const(false), Expr::bin('&', a(), b()), Expr::bin('|', p(), b()), ce("f", vec![b()]), Expr::bin('^', a(), p())];
        let mut fs: Vec<Expr> = vec![];
        for x in &one {
            fs.push(ce("f", vec![x.clone()]));
            for y in [b(), a(), p(), Expr::not(b())] {
                fs.push(Expr::bin('^', ce("f", vec![x.clone()]), ce("f", vec![y.clone()])));
                fs.push(Expr::bin('&', ce("f", vec![x.clone()]), Expr::not(ce("f", vec![y])))); 
            }
        }
        for (x, y) in [(p(), b()), (Expr::not(p()), b()), (p(), q()), (b(), p()), (Expr::Const(true), b()), (a(), Expr::bin('&', a(), b()))] {
            fs.push(ce("g", vec![x.clone(), y.clone()]));
            fs.push(Expr::bin('=', ce("g", vec![x.clone(), y.clone()]), ce("g", vec![Expr::not(x.clone()), y.clone()])));
            fs.push(Expr::bin('|', ce("g", vec![x.clone(), y.clone()]), ce("g", vec![y, x])));
        }
        // an application nested in a NON-first argument, with the nested symbol occurring again elsewhere
        fs.push(Expr::bin('&', ce("g", vec![a(), ce("f", vec![b()])]), ce("f", vec![b()])));
        fs.push(Expr::bin('|', ce("g", vec![ce("f", vec![a()]), ce("f", vec![b()])]), ce("f", vec![a()])));
        fs.push(ce("g", vec![a(), ce("g", vec![b(), a()])]));
        fs.push(Expr::bin('^', ce("g", vec![b(), p()]), p()));
        fs.push(Expr::bin('&', ce("g", vec![a(), Expr::not(ce("f", vec![b()]))]), Expr::not(ce("f", vec![b()]))));
        fs.push(ce("g", vec![ce("f", vec![a()]), ce("f", vec![a()])]));
        for f in fs {
            // both variables must be mentioned (declared regulators)
            let f = Expr::bin('|', f, Expr::bin('&', a(), Expr::bin('&', b(), Expr::Const(false))));
            arg_specs.push(NetSpec { vars: vars.clone(), regs: regs.clone(), funcs: vec![Some(f), Some(Expr::Var(1))] });
        }
    }
    // operator-shape sub-family: every pair of binary operators nested to the right and to the left (associativity
    // matters for =>), negations outside / inside, plain and uninterpreted leaves; and same-operator chains of
    // 4..33 operands in both nestings
    {
        let vars: Vec<String> = vec!["a".into(), "b".into(), "c".into()];
        let regs: Vec<Reg> = [(0usize, 0usize), (1, 0), (2, 0), (1, 1), (2, 2)].iter().map(|(s, d)| Reg { src: *s, dst: *d, sign: Sign::Unk, observable: false }).collect();
        let ce = |n: &str, args: Vec<Expr>| Expr::CallE(n.to_string(), args);
        let leaf_sets: Vec<[Expr; 3]> = vec![
            [Expr::Var(0), Expr::Var(1), Expr::Var(2)],
            [Expr::Var(0), Expr::Var(1), ce("f", vec![Expr::Var(2)])],
            [ce("f", vec![Expr::Var(0)]), Expr::Var(1), ce("f", vec![Expr::Var(2)])],
        ];
        let ops = ['&', '|', '^', '>', '='];
        let mut fs: Vec<Expr> = vec![];
        for [x, y, z] in &leaf_sets {
            for op1 in ops {
                for op2 in ops {
                    for (neg_out, neg_in) in [(false, false), (true, false), (false, true), (true, true)] {
                        for right in [true, false] {
                            let inner = if right { Expr::bin(op2, y.clone(), z.clone()) } else { Expr::bin(op2, x.clone(), y.clone()) };
                            let inner = if neg_in { Expr::not(inner) } else { inner };
                            let e = if right { Expr::bin(op1, x.clone(), inner) } else { Expr::bin(op1, inner, z.clone()) };
                            fs.push(if neg_out { Expr::not(e) } else { e });
                        }
                    }
                }
            }
        }
        for op in ops {
            // (^ and <=> have no counterpart in bnet: the output doubles with every nesting level, so their chains stop at 9)
            for len in if op == '^' || op == '=' { vec![4usize, 5, 8, 9] } else { vec![4usize, 5, 8, 9, 17, 33] } {
                let leaf = |i: usize| if i % 4 == 3 { Expr::not(Expr::Var(i % 3)) } else { Expr::Var(i % 3) };
                let mut r = leaf(len - 1);
                for i in (0..len - 1).rev() {
                    r = Expr::bin(op, leaf(i), r);
                }
                let mut l = leaf(0);
                for i in 1..len {
                    l = Expr::bin(op, l, leaf(i));
                }
                fs.push(r);
                fs.push(l);
            }
        }
        let n_shape = fs.len();
        for f in fs {
            // all three variables must be mentioned (declared regulators)
            let f = Expr::bin('|', f, Expr::bin('&', Expr::Var(0), Expr::bin('&', Expr::Var(1), Expr::bin('&', Expr::Var(2), Expr::Const(false)))));
            arg_specs.push(NetSpec { vars: vars.clone(), regs: regs.clone(), funcs: vec![Some(f), Some(Expr::Var(1)), Some(Expr::Var(2))] });
        }
        rep.set("operator_shape_networks", json!(n_shape));
    }
    let arg_specs: Vec<NetSpec> = arg_specs.into_iter().filter(|s| s.well_formed() && s.param_bits() <= 14).collect();
    rep.set("argument_list_networks", json!(arg_specs.len()));
    specs.extend(arg_specs);
    rep.set("networks_enumerated", json!(specs.len()));
    rep.set("name_clash_networks", json!(clash_specs.len()));
    specs.extend(clash_specs);
    let res: Vec<(bool, Option<Violation>)> = specs
        .par_iter()
        .map(|spec| {
            let accepted = BooleanNetwork::try_from(spec.to_aeon().as_str()).is_ok();
            let v = check(spec).map(|w| Violation {
                case: json!({"kind": "convert", "net": spec, "aeon": spec.to_aeon(), "name_clash": has_name_clash(spec)}),
                what: format!("network [{}]: {w}", spec.to_aeon().replace('\n', "; ")),
                size: spec.n() * 100 + spec.param_bits(),
            });
            (accepted, v)
        })
        .collect();
    // the joint comparison (one interpretation of a symbol shared by several update functions) goes beyond the statement of
    // C19, which speaks about each variable's function on its own: counted and sampled in the evidence, never a violation
    let mut joint_obs: Vec<String> = vec![];
    let res: Vec<(bool, Option<Violation>)> = res
        .into_iter()
        .map(|(a, v)| match v {
            Some(v) if v.what.contains("OBSERVATION (C19 is stated per variable") => {
                joint_obs.push(v.what);
                (a, None)
            }
            other => (a, other),
        })
        .collect();
    rep.set("joint_family_observations", json!({"networks_whose_joint_family_differs": joint_obs.len(), "samples": joint_obs.iter().take(3).collect::<Vec<_>>(), "note": "on the unchanged tree a zero-arity parameter used by a variable without regulators keeps its name while its other uses are renamed `<name>_`; outside C19's per-variable statement"}));
    let mut accepted = 0u64;
    for (a, v) in res {
        if a {
            accepted += 1;
        }
        if let Some(v) = v {
            rep.add_count("failing_networks", 1);
            if rep.violations.len() < 300 {
                rep.violations.push(v);
            }
        }
    }
    rep.evaluations = specs.len() as u64;
    rep.distinct_nontrivial = accepted;
    rep.set("networks_accepted_by_the_library", json!(accepted));
    rep.sample(json!({"aeon": specs[specs.len() / 2].to_aeon()}));
    rep.sample(json!({"aeon": "a -?? b\nb -?? b\n$b: f(a) | h\n", "oracle": "as the fresh inputs range over all values, b's output function must range over exactly the 2 * 4 instantiations of f(a) | h"}));
    rep.rule = "every network with 1..3 variables a,b,c whose variables each take one item of a menu (no regulator/no function; constants; zero-arity h; implicit function over 1, 2 (3) regulators; !x, x, x^y, x|!y; f(x); f(x)|h; g(x)&!f(x); k(x,y); k(y,x); f(x)&g(y); f(x)|f(y); k(x,y)&!k(y,x); f(!x); f(x)&f(!x); k(!x,y)|k(x,y); f(x)^(f(x)&h); f(y)=>(x&h); ...; unconstrained and, for n<=2, constrained regulations; symbols shared between variables) that is well formed and accepted by the library, plus a name-clash sub-family (a variable named like a generated input) and an argument-list sub-family (a symbol of arity 2 / 3 applied to every argument list over the variables, repetitions included, alone and in every ordered pair m(args1) & !m(args2)) an expression-argument sub-family (a symbol applied to zero-arity parameters, constants, compound terms and to itself, alone and next to a second application) an operator-shape sub-family (every ordered pair of binary operators nested to the right and to the left, negations outside / inside, plain and uninterpreted leaves; same-operator chains of 4..33 operands (^ and <=>: 4..9, their bnet rendering doubles per level) in both nestings) and a literal sub-family (true / false as left / right operand of every binary operator next to a variable, a negated variable and terms with an uninterpreted function). The convert-aeon-to-bnet binary built from the working tree is run on the aeon text; its output is re-loaded as bnet; for every target the set of truth tables over the original variables under all valuations of the fresh inputs must equal the set of truth tables of all instantiations of the input function (constraints dropped); targets = variables with a regulator or function; fresh inputs are no targets. distinct_nontrivial = networks accepted by the library".into();
    rep.assumptions.push("biodivine-lib-param-bn's bnet parser is trusted for reading the converter's output; truth tables are evaluated by the harness's own evaluator".into());
    Ok(rep)
}
