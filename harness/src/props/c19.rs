use serde_json::Value;
pub fn recompute_name_clash(_case: &Value) -> bool { false }
