//! C01 — results are exactly the satisfying (state, colour) pairs.

use super::common::*;
use crate::formulas::{Alphabet, Gen};
use crate::oracle::Labels;
use crate::report::Report;
use crate::sem::{self, Checks, Entries};
use crate::sweep::NetCtx;
use serde_json::json;

pub fn run(tier: &str) -> Result<Report, String> {
    let mut rep = Report::new("C01", tier, "model_checking");
    std_assumptions(&mut rep);
    let nets = core_nets(3)?;
    let ck = Checks { semantic: true, unit: false, entries: Entries::Plain4 };
    let (m_all, m_deep, deep_nets): (usize, usize, Vec<&str>) = if tier == "quick" {
        (4, 5, vec!["con2", "asy2", "imp1"])
    } else {
        (5, 5, vec![])
    };
    let mut slices = vec![];
    for b in &nets {
        sem::note_network(&mut rep, b);
        let ctx = NetCtx::new(b.clone(), Labels::default(), "none");
        let m = if deep_nets.contains(&b.name.as_str()) { m_deep } else { m_all };
        let alpha = Alphabet::plain(ctx.nprops(), 3);
        let mut g = Gen::new(alpha.clone());
        let fs = g.closed_up_to(m);
        slices.push(json!({"network": b.name, "max_nodes": m, "alphabet": alpha.describe(), "formulae": fs.len()}));
        if rep.samples.len() < 6 {
            let f = &fs[fs.len() * 2 / 3];
            rep.sample(json!({"network": b.name, "formula": f.show(&ctx.user), "expected_states_per_colour": ctx.expected(f).iter().map(|m| format!("{m:b}")).collect::<Vec<_>>()}));
        }
        sem::sweep(&mut rep, &ctx, &fs, ck);
    }
    rep.set("slices", json!(slices));
    rep.rule = "all closed formulae with at most max_nodes nodes over the plain operator set (see slices) on every network of the core family, evaluated through model_check_formula, _dirty, model_check_tree, _tree_dirty and compared on every state x valid colour with the explicit-state oracle; distinct_nontrivial = number of distinct (network, verdict table) pairs that are neither empty nor full".into();
    Ok(rep)
}
