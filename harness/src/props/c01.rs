//! C01 — results are exactly the satisfying (state, colour) pairs.

use super::common::*;
use crate::formulas::{duplicate_templates, pair_family, plain_pool, templates, Alphabet, Bi, Gen, Hy, Un, F};
use crate::oracle::Labels;
use crate::report::{Budget, Report};
use crate::sem::{self, Checks, Entries};
use crate::sweep::NetCtx;
use serde_json::json;

/// Operator slices for node bounds where the full alphabet explodes: every pair of operator
/// groups x every quantifier (jump always available), so that every two operators co-occur.
pub fn slices() -> Vec<(String, Alphabet)> {
    let groups: Vec<(&str, Vec<Un>, Vec<Bi>)> = vec![
        ("~", vec![Un::Not], vec![]),
        ("EX AX", vec![Un::EX, Un::AX], vec![]),
        ("EF AG", vec![Un::EF, Un::AG], vec![]),
        ("AF EG", vec![Un::AF, Un::EG], vec![]),
        ("& |", vec![], vec![Bi::And, Bi::Or]),
        ("=> <=> ^", vec![], vec![Bi::Imp, Bi::Iff, Bi::Xor]),
        ("EU AU", vec![], vec![Bi::EU, Bi::AU]),
    ];
    let mut out = vec![];
    for i in 0..groups.len() {
        for j in i + 1..groups.len() {
            for q in [Hy::Bind, Hy::Exists, Hy::Forall] {
                let mut a = Alphabet::plain(1, 2);
                a.consts = vec![];
                a.un = groups[i].1.iter().chain(groups[j].1.iter()).copied().collect();
                a.bi = groups[i].2.iter().chain(groups[j].2.iter()).copied().collect();
                a.quant = vec![q];
                out.push((format!("[{}]+[{}]+{}", groups[i].0, groups[j].0, q.s()), a));
            }
        }
    }
    out
}

pub fn run(tier: &str) -> Result<Report, String> {
    let mut rep = Report::new("C01", tier, "model_checking");
    std_assumptions(&mut rep);
    let nets = core_nets(3)?;
    let ck = Checks { semantic: true, unit: false, entries: Entries::Plain4 };
    let quick = tier == "quick";
    let (m_all, m_deep, deep_nets): (usize, usize, Vec<&str>) = if quick { (4, 5, vec!["con2", "asy2", "imp1"]) } else { (5, 5, vec![]) };
    let mut parts = vec![];
    // 1. full plain alphabet up to a node bound + template families on the core networks
    for b in &nets {
        sem::note_network(&mut rep, b);
        let ctx = NetCtx::new(b.clone(), Labels::default(), "none");
        let m = if deep_nets.contains(&b.name.as_str()) { m_deep } else { m_all };
        let alpha = Alphabet::plain(ctx.nprops(), 3);
        let mut g = Gen::new(alpha.clone());
        let mut fs = g.closed_up_to(m);
        // the weak-until operators as well (their laws are C13's subject, their meaning is C01's): every
        // closed formula over all nine binary operators that uses EW or AW, one node less
        {
            use crate::formulas::Bi;
            let mut aa = Alphabet::all_ops(ctx.nprops(), 3);
            aa.consts = vec![true, false];
            let mut ga = Gen::new(aa);
            fs.extend(ga.closed_up_to(m - 1).into_iter().filter(|f| f.has_op_bi(Bi::EW) || f.has_op_bi(Bi::AW)));
        }
        let n_size = fs.len();
        let mut tm = templates(&ctx.user, false, if quick { 2 } else { 8 });
        // duplicated one-free-variable sub-formulae at equal and different quantifier depths
        tm.extend(duplicate_templates(ctx.nprops(), if quick { 4 } else { 5 }, quick, false));
        // every ordered pair of a pool of closed formulae (two related occurrences in one formula)
        if (quick && ["con2", "asy2"].contains(&b.name.as_str())) || (!quick && (b.n == 2 || b.name == "cyc3")) {
            let pool = plain_pool(&ctx.user);
            tm.extend(pair_family(&pool, if quick { 4 } else { 12 }, false));
        }
        if ["imp1", "con2"].contains(&b.name.as_str()) || !quick {
            tm.extend(crate::formulas::shared_operand_family(&ctx.user));
            tm.extend(crate::formulas::pattern_condition_family(&ctx.user));
        }
        tm.extend(crate::formulas::op_nest_family(ctx.nprops()));
        // two groups with the same tokens but different inner grouping in one formula
        if ["con2", "asy2", "cyc3"].contains(&b.name.as_str()) || !quick {
            let (p0, p1) = (ctx.user.props[0].clone(), ctx.user.props[ctx.user.props.len() - 1].clone());
            tm.extend(crate::formulas::reparenthesised_texts([&p0, &p1, &p0]).iter().map(|t| crate::formulas::f(t, &ctx.user)));
        }
        let n_tmpl = tm.len();
        fs.extend(tm);
        parts.push(json!({"part": "core", "network": b.name, "max_nodes": m, "alphabet": alpha.describe(), "formulae": n_size, "template_formulae": n_tmpl}));
        if rep.samples.len() < 5 {
            let f = &fs[n_size * 2 / 3];
            rep.sample(json!({"network": b.name, "formula": f.show(&ctx.user), "expected_states_per_colour": ctx.expected(f).iter().map(|m| format!("{m:b}")).collect::<Vec<_>>()}));
            let f = &fs[n_size + n_tmpl / 2];
            rep.sample(json!({"network": b.name, "template": f.show(&ctx.user), "expected_states_per_colour": ctx.expected(f).iter().map(|m| format!("{m:b}")).collect::<Vec<_>>()}));
        }
        sem::sweep(&mut rep, &ctx, &fs, ck);
    }
    // 1a. networks with unusual variable NAMES (like spare variables, like internal HCTL variable names,
    //     prefix of one another, operator / constant look-alikes): node bound 3 + templates
    for b in name_nets(3)?.into_iter().chain(decl_nets(3)?) {
        sem::note_network(&mut rep, &b);
        let ctx = NetCtx::new(b.clone(), Labels::default(), "none");
        let mut aa = Alphabet::all_ops(ctx.nprops(), 3);
        aa.consts = vec![true, false];
        let mut fs = Gen::new(aa).closed_up_to(if quick { 3 } else { 4 });
        fs.extend(templates(&ctx.user, false, if quick { 2 } else { 8 }));
        parts.push(json!({"part": "unusual names", "network": b.name, "aeon": b.aeon, "formulae": fs.len()}));
        sem::sweep(&mut rep, &ctx, &fs, ck);
    }
    // 1e. networks that are unusual as data (constants only, 4 variables, 256 parameter valuations, ...)
    for b in edge_nets(3)? {
        sem::note_network(&mut rep, &b);
        let ctx = NetCtx::new(b.clone(), Labels::default(), "none");
        let mut aa = Alphabet::all_ops(ctx.nprops(), 3);
        aa.consts = vec![true, false];
        let mut fs = Gen::new(aa).closed_up_to(if quick || b.cols.len() > 16 { 3 } else { 4 });
        fs.extend(templates(&ctx.user, false, if quick { 2 } else { 8 }));
        parts.push(json!({"part": "unusual networks", "network": b.name, "aeon": b.aeon, "colours": b.cols.len(), "formulae": fs.len()}));
        sem::sweep(&mut rep, &ctx, &fs, Checks { semantic: true, unit: false, entries: Entries::PlainDirty });
    }
    // 1c. deep quantifier nests (up to 10 nested quantifiers on the 1-variable networks, 6 on con2) on graphs
    //     with as many spare variable sets
    for (name, max) in [("neg1", 10usize), ("imp1", if quick { 8 } else { 10 }), ("con2", if quick { 5 } else { 6 })] {
        let sp = crate::nets::core_family().into_iter().find(|(n, _)| *n == name).unwrap().1;
        let b = std::sync::Arc::new(bind(name, &sp, max as u16)?);
        let ctx = NetCtx::new(b.clone(), Labels::default(), "none");
        let fs = crate::formulas::deep_nests(&ctx.user, max);
        parts.push(json!({"part": "deep nests", "network": name, "max_depth": max, "formulae": fs.len()}));
        sem::sweep(&mut rep, &ctx, &fs, ck);
    }
    // 1d. sets whose BDD is large as data (child process)
    {
        // one child process per case, so that one slow evaluation cannot hide the others behind a wall limit
        use rayon::prelude::*;
        let results: Vec<(usize, crate::jobs::JobResult)> = (0..BIG_CASES).into_par_iter().map(|i| (i, crate::jobs::run(&json!({"kind": "c01big", "model": "synthetic:pairs16", "index": i}), if quick { 45.0 } else { 600.0 }))).collect();
        let mut done = 0u64;
        let mut nodes = json!(null);
        for (i, r) in results {
            match r {
                crate::jobs::JobResult::Done(v) => {
                    if let Some(e) = v.get("error") {
                        return Err(format!("large-BDD job: {e}"));
                    }
                    done += v["cases"].as_u64().unwrap_or(0);
                    nodes = v["bdd_nodes_of_p"].clone();
                    for p in v["problems"].as_array().cloned().unwrap_or_default() {
                        rep.violations.push(crate::report::Violation { case: json!({"kind": "c01big", "model": "synthetic:pairs16", "index": i}), what: format!("on synthetic:pairs16 (32 frozen variables, p = AND_i (a_i <=> b_i), {} BDD nodes): {}", v["bdd_nodes_of_p"], p["what"].as_str().unwrap_or("")), size: 70 });
                    }
                }
                crate::jobs::JobResult::Timeout => rep.cap(format!("large-BDD case {i} exceeded its wall limit and was stopped (no verdict)")),
                crate::jobs::JobResult::Crashed(e) => return Err(format!("large-BDD job crashed: {e}")),
            }
        }
        // ... and temporal operators on the same set on a network with two rising chains (several sweeps of saturation)
        let results: Vec<(usize, crate::jobs::JobResult)> = (0..CHAIN_CASES).into_par_iter().map(|i| (i, crate::jobs::run(&json!({"kind": "c01chains", "index": i}), if quick { 45.0 } else { 600.0 }))).collect();
        for (i, r) in results {
            match r {
                crate::jobs::JobResult::Done(v) => {
                    if let Some(e) = v.get("error") {
                        return Err(format!("large-BDD chain job: {e}"));
                    }
                    done += v["cases"].as_u64().unwrap_or(0);
                    for p in v["problems"].as_array().cloned().unwrap_or_default() {
                        rep.violations.push(crate::report::Violation { case: json!({"kind": "c01chains", "index": i}), what: format!("on synthetic:pairs16chains (p = AND_i (a_i <=> b_i), two rising chains): {}", p["what"].as_str().unwrap_or("")), size: 70 });
                    }
                }
                crate::jobs::JobResult::Timeout => rep.cap(format!("large-BDD chain case {i} exceeded its wall limit and was stopped (no verdict)")),
                crate::jobs::JobResult::Crashed(e) => return Err(format!("large-BDD chain job crashed: {e}")),
            }
        }
        rep.evaluations += done;
        parts.push(json!({"part": "large BDD sets", "model": "synthetic:pairs16", "bdd_nodes_of_p": nodes, "closed_form_cases_done": done}));
    }
    // 1b. the multi-formula entry points: every ordered pair of the plain pool as a batch, each
    //     position compared with the oracle (the batch variants are entry points as well)
    {
        use biodivine_hctl_model_checker::model_checking as mc;
        use rayon::prelude::*;
        let mut n_batches = 0u64;
        for b in nets.iter().filter(|b| if quick { ["con2", "asy2", "imp1"].contains(&b.name.as_str()) } else { b.n <= 2 || b.name == "cyc3" }) {
            let ctx = NetCtx::new(b.clone(), Labels::default(), "none");
            let pool: Vec<F> = plain_pool(&ctx.user).into_iter().filter(|f| b.n >= 2 || !f.any(|x| matches!(x, F::Prop(1)))).collect();
            let expected: Vec<Vec<crate::bridge::Mask>> = pool.iter().map(|f| ctx.expected(f)).collect();
            let texts: Vec<String> = pool.iter().map(|f| f.show(&ctx.user)).collect();
            let pairs: Vec<(usize, usize)> = (0..pool.len()).flat_map(|i| (0..pool.len()).map(move |j| (i, j))).collect();
            let bad: Vec<crate::report::Violation> = pairs
                .par_iter()
                .filter_map(|&(i, j)| {
                    let list = vec![texts[i].as_str(), texts[j].as_str()];
                    let mut what = vec![];
                    for (name, r) in [
                        ("model_check_multiple_formulae_dirty", crate::report::guarded(std::panic::AssertUnwindSafe(|| mc::model_check_multiple_formulae_dirty(list.clone(), &b.graph)))),
                        ("model_check_multiple_formulae", crate::report::guarded(std::panic::AssertUnwindSafe(|| mc::model_check_multiple_formulae(list.clone(), &b.graph)))),
                    ] {
                        match r {
                            Ok(Ok(rs)) if rs.len() == 2 => {
                                for (pos, idx) in [(0usize, i), (1usize, j)] {
                                    let d = if name.ends_with("dirty") { ctx.diff_dirty(&rs[pos], &expected[idx]) } else { ctx.diff_canonical(&rs[pos], &expected[idx]) };
                                    if let Some(d) = d {
                                        what.push(format!("{name}({list:?}) position {pos}: {d}"));
                                    }
                                }
                            }
                            Ok(Ok(rs)) => what.push(format!("{name} returns {} results for 2 formulae", rs.len())),
                            Ok(Err(e)) => what.push(format!("{name}({list:?}) returns Err: {e}")),
                            Err(p) => what.push(format!("{name}({list:?}) panics: {p}")),
                        }
                    }
                    if what.is_empty() {
                        None
                    } else {
                        Some(crate::report::Violation { case: json!({"kind": "sem", "net_name": b.name, "net": b.spec, "k": b.k, "labels": {"wild": [], "dom": [], "desc": "none"}, "formula": pool[j], "semantic": true, "unit": false, "entries": "plain4", "batch_note": format!("found as batch {list:?}")}), what: format!("on {}: {}", b.name, what.join(" | ")), size: 5000 + pool[i].size() + pool[j].size() })
                    }
                })
                .collect();
            n_batches += pairs.len() as u64;
            rep.evaluations += pairs.len() as u64 * 4;
            rep.traces_validated += pairs.len() as u64 * 2 * b.cols.len() as u64;
            rep.violations.extend(bad.into_iter().take(20));
        }
        parts.push(json!({"part": "batch entry points on ordered pairs of the plain pool", "batches": n_batches}));
    }
    // 1b'. long batches (40 / 100 formulae with tied heights, three deterministic orders) through the four
    //      multi-formula / multi-tree entry points: every position against the oracle
    {
        use biodivine_hctl_model_checker::model_checking as mc;
        let mut n_long = 0u64;
        for b in nets.iter().filter(|b| ["con2", "imp1"].contains(&b.name.as_str())) {
            let ctx = NetCtx::new(b.clone(), Labels::default(), "none");
            let all: Vec<F> = Gen::new(Alphabet::all_ops(b.n as u8, 2)).closed_up_to(3);
            let n = if quick { 40 } else { 100 };
            for (oi, stride) in [7usize, 13, 1].iter().enumerate() {
                let idx: Vec<usize> = (0..n).map(|i| (i * stride * 5 + oi * 11) % all.len()).collect();
                let texts: Vec<String> = idx.iter().map(|i| all[*i].show(&ctx.user)).collect();
                let ts: Vec<&str> = texts.iter().map(|s| s.as_str()).collect();
                let expected: Vec<Vec<crate::bridge::Mask>> = idx.iter().map(|i| ctx.expected(&all[*i])).collect();
                let trees: Vec<_> = idx.iter().map(|i| all[*i].to_tree(&ctx.mini)).collect();
                let runs = vec![
                    ("model_check_multiple_formulae_dirty", crate::report::guarded(std::panic::AssertUnwindSafe(|| mc::model_check_multiple_formulae_dirty(ts.clone(), &b.graph)))),
                    ("model_check_multiple_formulae", crate::report::guarded(std::panic::AssertUnwindSafe(|| mc::model_check_multiple_formulae(ts.clone(), &b.graph)))),
                    ("model_check_multiple_trees_dirty", crate::report::guarded(std::panic::AssertUnwindSafe(|| mc::model_check_multiple_trees_dirty(trees.clone(), &b.graph)))),
                    ("model_check_multiple_trees", crate::report::guarded(std::panic::AssertUnwindSafe(|| mc::model_check_multiple_trees(trees.clone(), &b.graph)))),
                ];
                for (name, r) in runs {
                    n_long += 1;
                    let what = match r {
                        Ok(Ok(v)) if v.len() == n => (0..n).find_map(|i| {
                            let d = if name.ends_with("dirty") { ctx.diff_dirty(&v[i], &expected[i]) } else { ctx.diff_canonical(&v[i], &expected[i]) };
                            d.map(|d| format!("position {i} (`{}`): {d}", texts[i]))
                        }),
                        Ok(Ok(v)) => Some(format!("{} results for {n} formulae", v.len())),
                        Ok(Err(e)) => Some(format!("Err: {e}")),
                        Err(p) => Some(format!("panic: {p}")),
                    };
                    if let Some(w) = what {
                        rep.violations.push(crate::report::Violation { case: json!({"kind": "none"}), what: format!("{name} on a batch of {n} formulae (order {oi}) on {}: {w}", b.name), size: 900 });
                    }
                }
                rep.evaluations += 4 * n as u64;
                rep.traces_validated += 4 * n as u64 * b.cols.len() as u64;
            }
        }
        parts.push(json!({"part": "long batches (tied heights, three orders) through four multi entry points", "batches": n_long}));
    }
    // 1f. two-step histories on one fresh OS thread: look-alike graphs (same symbolic encoding with other update functions;
    //     the same network with another unit set) evaluated one after the other; the second against the oracle
    {
        let units: Vec<_> = nets.iter().filter(|b| ["imp1", "con2"].contains(&b.name.as_str())).cloned().collect();
        let fam = crate::history::family(tier, 3, &units);
        crate::history::run(&mut rep, &fam, crate::history::WARM_PLAIN, crate::history::PROBE_PLAIN, Checks { semantic: true, unit: true, entries: Entries::Plain4 }, 0)?;
        parts.push(json!({"part": "two-step histories (warm-up on a look-alike graph, then probes against the oracle, one fresh OS thread per ordered pair)", "family": fam.describe, "warm": crate::history::WARM_PLAIN.len(), "probes": crate::history::PROBE_PLAIN.len()}));
    }
    // 1h. until operators with compound operands over ALL variables of sparse 3- / 4-variable networks (operands that ignore some
    //     variables, variables that do not regulate each other)
    for (name, text) in [("spa4", "b -?? a; c -?? b; b -?? c; c -?? c; c -?? d; $a: b; $d: !c"), ("spb4", "a -?? b; a -?? c; d -?? c; d -?? d; $a: true; $b: a; b -?? a"), ("lin4s", "a -> b; b -> c; c -> d; d -| a; $a: !d; $b: a; $c: b; $d: c")] {
        let b = std::sync::Arc::new(bind(name, &crate::nets::spec(text), 3)?);
        sem::note_network(&mut rep, &b);
        let ctx = NetCtx::new(b.clone(), Labels::default(), "none").with_all_props();
        let fs = crate::formulas::until_compound_family(b.n as u8);
        let fs: Vec<F> = if quick { fs.into_iter().step_by(2).collect() } else { fs };
        parts.push(json!({"part": "until operators with compound operands over all variables", "network": name, "aeon": b.aeon, "formulae": fs.len()}));
        sem::sweep(&mut rep, &ctx, &fs, Checks { semantic: true, unit: false, entries: Entries::PlainDirty });
    }
    // 1g. graphs whose context gives different numbers of spare variables to different network variables
    {
        let mut n_non = 0u64;
        for b in nets.iter().filter(|b| b.n >= 2 && (!quick || ["con2", "asy2", "cyc3"].contains(&b.name.as_str()))) {
            let ctx = NetCtx::new(b.clone(), Labels::default(), "none");
            let mut fs = Gen::new(Alphabet::plain(ctx.nprops(), 2)).closed_up_to(if quick { 3 } else { 4 });
            fs.extend(templates(&ctx.user, false, if quick { 2 } else { 6 }));
            let texts: Vec<String> = fs.iter().map(|f| f.show(&ctx.user)).collect();
            let depth = |t: &str| crate::refparser::parse_str(t, false).map(|x| x.qdepth()).unwrap_or(99);
            n_non += texts.len() as u64;
            for w in nonuniform_check(b, &texts, &depth) {
                if w.starts_with("harness:") {
                    return Err(w);
                }
                rep.violations.push(crate::report::Violation { case: json!({"kind": "none"}), what: format!("on {}: {w}", b.name), size: 30 });
            }
        }
        rep.evaluations += n_non * 4;
        parts.push(json!({"part": "graphs with per-variable spare counts (raw and sanitised results equal those of the uniform graph, which is held against the oracle)", "formulae_x_networks": n_non}));
    }
    // 2. all 2-variable networks of the grammar
    let (all2, info) = all2_nets(3, if quick { Some(1) } else { None })?;
    rep.set("all_2_variable_networks", info);
    let mut g2 = Gen::new(Alphabet::plain(2, 3));
    let fs3 = g2.closed_up_to(3);
    let fs4 = g2.closed_up_to(4);
    let budget = Budget::new(if quick { 25.0 } else { 1500.0 });
    let mut done = 0;
    for (i, b) in all2.iter().enumerate() {
        if budget.exceeded() {
            rep.cap(format!("wall budget reached after {done} of {} networks of the 2-variable family", all2.len()));
            break;
        }
        sem::note_network_light(&mut rep, b);
        let ctx = NetCtx::new(b.clone(), Labels::default(), "none");
        // every network: node bound 3; every 25th network (thorough): node bound 4
        let fs = if !quick && i % 25 == 0 { &fs4 } else { &fs3 };
        sem::sweep(&mut rep, &ctx, fs, Checks { semantic: true, unit: false, entries: Entries::PlainDirty });
        done += 1;
    }
    parts.push(json!({"part": "all 2-variable networks", "networks_done": done, "formulae_bound_3": fs3.len(), "formulae_bound_4_on_every_25th": if quick { 0 } else { fs4.len() }}));
    // 3. operator slices with a deeper node bound
    let slice_nets: Vec<&str> = if quick { vec!["asy2"] } else { vec!["asy2", "con2", "unc2", "cyc3"] };
    let m_slice = if quick { 5 } else { 6 };
    let sl = slices();
    let mut slice_total = 0usize;
    for (si, (name, alpha)) in sl.iter().enumerate() {
        if quick && si % 7 != 0 {
            continue;
        }
        let mut g = Gen::new(alpha.clone());
        let fs: Vec<F> = g.exact(m_slice, 0).iter().cloned().collect();
        slice_total += fs.len();
        for b in nets.iter().filter(|b| slice_nets.contains(&b.name.as_str())) {
            let ctx = NetCtx::new(b.clone(), Labels::default(), "none");
            sem::sweep(&mut rep, &ctx, &fs, Checks { semantic: true, unit: false, entries: Entries::PlainDirty });
        }
        let _ = name;
    }
    parts.push(json!({"part": "operator slices", "nodes_exactly": m_slice, "slices": if quick { sl.len().div_ceil(7) } else { sl.len() }, "slice_names": sl.iter().map(|s| s.0.clone()).collect::<Vec<_>>(), "formulae": slice_total, "networks": slice_nets}));
    rep.set("parts", json!(parts));
    rep.rule = "(1) all closed formulae with at most max_nodes nodes over the plain operator set, all closed formulae with at most max_nodes-1 nodes over all nine binary operators that use EW or AW, and the template families (pattern-with-condition family `!{x}: AG EF ({x} & PHI)` etc. on imp1/con2; two-operator nests: every binary over every unary operator in either position; benchmark formulae, two/three-variable quantifier nests with jumps, duplicated sub-formulae with swapped variable roles, one-free-variable sub-formulae with inner quantifiers duplicated at equal and different quantifier depths in both orders) on every core network through model_check_formula, _dirty, model_check_tree, _tree_dirty; (1a) all closed formulae with <= 3 (4) nodes over all operators + templates on four networks whose variable names are unusual as data (Ca_extra_cell / b_extra_1, x / xx, a / ab, EF1 / TRUE), two parameter-order networks and three networks built programmatically with variables declared in non-lexicographic order (b,a / c,a,b); (1e) the same bound on five networks that are unusual as data (constants only, a constant feeding a toggle, 4 variables, an implicit function of 3 regulators, a sink); (1c) deterministic deep quantifier nests (4..10 quantifiers on one branch on 1-variable networks, up to 6 on con2; graphs with as many spare variable sets); (1d) 13 hybrid formulae with closed forms on a frozen 32-variable network whose argument set has a BDD of ~2^17 nodes (large as data), and 8 temporal formulae with closed forms on the same set on a network with two rising chains; (1b) every ordered pair of a pool of closed formulae as a two-element batch through model_check_multiple_formulae(_dirty), each position against the oracle, and batches of 40 (100) formulae with tied heights in three orders through model_check_multiple_formulae(_dirty) / model_check_multiple_trees(_dirty), each position against the oracle; (2) all closed formulae with <= 3 (every 25th network: 4) nodes on every network of the de-duplicated family of ALL 2-variable networks of the grammar; (3) all closed formulae with exactly m nodes in every operator slice (each pair of operator groups x each quantifier, jump included). Every result is compared on every state x valid colour with the explicit-state oracle; distinct_nontrivial = number of distinct (network, verdict table) pairs that are neither empty nor full".into();
    Ok(rep)
}

/// Child job: hybrid operators on sets whose BDD is LARGE as data (about 2^17 nodes) on a frozen network,
/// where every operator has a closed form: every state is steady, so EX f = AX f = EF f = f.
pub fn job(job: &serde_json::Value) -> serde_json::Value {
    use biodivine_hctl_model_checker::model_checking as mc;
    use biodivine_lib_param_bn::symbolic_async_graph::GraphColoredVertices;
    use std::collections::HashMap;
    let t0 = std::time::Instant::now();
    let name = job["model"].as_str().unwrap_or("synthetic:pairs16");
    let only = job["only"].as_str();
    let big = match crate::bigmodels::load(name, 2) {
        Ok(b) => b,
        Err(e) => return json!({"error": e}),
    };
    let g = &big.graph;
    let sc = g.symbolic_context();
    let vars: Vec<_> = g.variables().collect();
    let half = vars.len() / 2;
    // p = AND_i (a_i <=> b_i), built with BDD operations only
    let mut bdd = sc.mk_constant(true);
    for i in 0..half {
        let (a, b) = (sc.mk_state_variable_is_true(vars[i]), sc.mk_state_variable_is_true(vars[half + i]));
        bdd = bdd.and(&a.iff(&b));
    }
    let p = GraphColoredVertices::new(bdd, sc);
    let nodes = p.as_bdd().size();
    let unit = g.mk_unit_colored_vertices();
    let empty = g.mk_empty_colored_vertices();
    let ctx: HashMap<String, GraphColoredVertices> = HashMap::from([("p".to_string(), p.clone())]);
    let names = big.var_names();
    let phi_text = (0..half).map(|i| format!("({} <=> {})", names[i], names[half + i])).collect::<Vec<_>>().join(" & ");
    let cases: Vec<(String, &GraphColoredVertices)> = vec![
        ("3{x}: @{x}: %p%".into(), &unit),
        ("V{x}: @{x}: %p%".into(), &empty),
        ("!{x}: %p%".into(), &p),
        ("!{x}: @{x}: %p%".into(), &p),
        ("3{x}: ({x} & %p%)".into(), &p),
        ("3{x}: ((@{x}: %p%) & {x})".into(), &p),
        ("V{x}: ((@{x}: %p%) | ~{x})".into(), &p),
        ("!{x}: 3{y}: (@{y}: (%p% & {x}))".into(), &p),
        ("!{x}: EX ({x} & %p%)".into(), &p),
        ("!{x}: AX ({x} & %p%)".into(), &p),
        ("3{x}: @{x}: (%p% & EF {x})".into(), &unit),
        (format!("3{{x}}: @{{x}}: ({phi_text})"), &unit),
        (format!("!{{x}}: @{{x}}: ({phi_text})"), &p),
    ];
    let mut problems = vec![];
    let mut n = 0u64;
    assert_eq!(cases.len(), BIG_CASES);
    for (ci, (text, want)) in cases.iter().enumerate() {
        if let Some(o) = only {
            if o != text {
                continue;
            }
        }
        if let Some(i) = job["index"].as_u64() {
            if i as usize != ci {
                continue;
            }
        }
        n += 1;
        let got = crate::report::guarded(std::panic::AssertUnwindSafe(|| mc::model_check_extended_formula_dirty(text, g, &ctx)));
        let what = match got {
            Ok(Ok(s)) if s.as_bdd() == want.as_bdd() => None,
            Ok(Ok(s)) => Some(format!("`{}` has {} states, the closed form on a frozen network has {}", crate::report::truncate(text, 90), s.vertices().exact_cardinality(), want.vertices().exact_cardinality())),
            Ok(Err(e)) => Some(format!("`{}` returns Err: {e}", crate::report::truncate(text, 90))),
            Err(pn) => Some(format!("`{}` panics: {pn}", crate::report::truncate(text, 90))),
        };
        if let Some(w) = what {
            problems.push(json!({"case": text, "what": w}));
        }
    }
    json!({"cases": n, "problems": problems, "variables": g.num_vars(), "bdd_nodes_of_p": nodes, "wall_s": t0.elapsed().as_secs_f64()})
}

pub const BIG_CASES: usize = 13;
pub const CHAIN_CASES: usize = 8;

/// Child job: temporal operators on the frozen-pairs network extended by two rising chains; the argument set is
/// p = AND_i (a_i <=> b_i) (2^17 BDD nodes) and a state reaches c3 & z0 iff some c_j and some z_j is already 1.
pub fn job_chains(job: &serde_json::Value) -> serde_json::Value {
    use biodivine_hctl_model_checker::model_checking as mc;
    use biodivine_lib_param_bn::biodivine_std::traits::Set;
    use biodivine_lib_param_bn::symbolic_async_graph::GraphColoredVertices;
    use std::collections::HashMap;
    let t0 = std::time::Instant::now();
    let big = match crate::bigmodels::load("synthetic:pairs16chains", 1) {
        Ok(b) => b,
        Err(e) => return json!({"error": e}),
    };
    let g = &big.graph;
    let sc = g.symbolic_context();
    let by = |n: &str| g.variables().find(|v| g.get_variable_name(*v) == n).map(|v| sc.mk_state_variable_is_true(v)).unwrap();
    let mut bdd = sc.mk_constant(true);
    for i in 0..16 {
        bdd = bdd.and(&by(&format!("a{i:02}")).iff(&by(&format!("b{i:02}"))));
    }
    let p = GraphColoredVertices::new(bdd.clone(), sc);
    let some_c = by("c0").or(&by("c1")).or(&by("c2")).or(&by("c3"));
    let some_z = by("z0").or(&by("z1")).or(&by("z2")).or(&by("z3"));
    let can = GraphColoredVertices::new(bdd.and(&some_c).and(&some_z), sc);
    let unit = g.mk_unit_colored_vertices();
    let target = GraphColoredVertices::new(bdd.and(&by("c3")).and(&by("z0")), sc);
    let ctx: HashMap<String, GraphColoredVertices> = HashMap::from([("p".to_string(), p.clone()), ("t".to_string(), target.clone())]);
    let cases: Vec<(&str, GraphColoredVertices)> = vec![
        ("EF (%p% & c3 & z0)", can.clone()),
        ("EF %t%", can.clone()),
        ("%p% EU %t%", can.clone()),
        ("True EU (%p% & c3 & z0)", can.clone()),
        ("AG (~ %t%)", unit.minus(&can)),
        ("AF %t%", can.clone()),
        ("(~ %t%) AW False", unit.minus(&can)),
        ("3{x}: @{x}: (EF %t%)", unit.clone()),
    ];
    assert_eq!(cases.len(), CHAIN_CASES);
    let mut problems = vec![];
    let mut n = 0u64;
    for (ci, (text, want)) in cases.iter().enumerate() {
        if let Some(i) = job["index"].as_u64() {
            if i as usize != ci {
                continue;
            }
        }
        n += 1;
        let what = match crate::report::guarded(std::panic::AssertUnwindSafe(|| mc::model_check_extended_formula_dirty(text, g, &ctx))) {
            Ok(Ok(s)) if s.as_bdd() == want.as_bdd() => None,
            Ok(Ok(s)) => Some(format!("`{text}` has {} states, the closed form has {}", s.vertices().exact_cardinality(), want.vertices().exact_cardinality())),
            Ok(Err(e)) => Some(format!("`{text}` returns Err: {e}")),
            Err(pn) => Some(format!("`{text}` panics: {pn}")),
        };
        if let Some(w) = what {
            problems.push(json!({"case": text, "what": w}));
        }
    }
    json!({"cases": n, "problems": problems, "variables": g.num_vars(), "bdd_nodes_of_p": p.as_bdd().size(), "wall_s": t0.elapsed().as_secs_f64()})
}

pub fn replay_big(case: &serde_json::Value) -> Option<String> {
    let v = job(&json!({"kind": "c01big", "model": case["model"], "only": case["only"], "index": case["index"]}));
    if let Some(e) = v.get("error") {
        return Some(format!("job error: {e}"));
    }
    v["problems"].as_array().and_then(|a| a.first()).map(|p| p["what"].as_str().unwrap_or("").to_string())
}
