//! C02 — wild-card propositions and restricted domains.

use super::common::*;
use crate::formulas::{collision_alphabet, pair_family, templates, Alphabet, Gen};
use crate::report::{Report, Violation};
use serde_json::Value;
use crate::sem::{self, Checks, Entries};
use crate::sweep::{label_families, NetCtx};
use serde_json::json;

pub fn run(tier: &str) -> Result<Report, String> {
    let mut rep = Report::new("C02", tier, "model_checking");
    std_assumptions(&mut rep);
    let nets = core_nets(3)?;
    let ck = Checks { semantic: true, unit: true, entries: Entries::Ext2 };
    let (m, fams, which): (usize, usize, Vec<&str>) = if tier == "quick" {
        (3, 6, vec!["imp1", "con2", "asy2", "unc2"])
    } else {
        (4, 10, vec!["neg1", "imp1", "con2", "tog2", "asy2", "unc2", "unf2", "inp2", "zer2"])
    };
    let mut slices = vec![];
    for b in nets.iter().filter(|b| which.contains(&b.name.as_str())) {
        sem::note_network(&mut rep, b);
        let alpha = Alphabet::extended(if b.n == 1 { 1 } else { 2 }, 2, 1, 2);
        let mut g = Gen::new(alpha.clone());
        let mut fs: Vec<_> = g.closed_up_to(if tier == "quick" && ["imp1", "con2"].contains(&b.name.as_str()) { 4 } else { m }).into_iter().filter(|f| f.uses_wild_or_dom()).collect();
        {
            // template shapes beyond the node bound (nested / repeated domains, the same inner domain
            // under different outer domains, wild-cards in duplicated sub-trees)
            let probe = NetCtx::new(b.clone(), label_families(b, 1)[0].1.clone(), "probe");
            fs.extend(templates(&probe.user, true, if tier == "quick" { 2 } else { 6 }).into_iter().filter(|f| f.uses_wild_or_dom()));
            fs.extend(crate::formulas::restricted_scope_duplicates(&probe.user));
            fs.extend(crate::formulas::wildcard_count_texts().iter().map(|t| crate::formulas::f(&crate::formulas::with_props_of(t, &probe.user), &probe.user)));
            if b.n >= 2 {
                let pool = collision_alphabet(&probe.user);
                let pool: Vec<_> = pool.into_iter().take(if tier == "quick" { 14 } else { 28 }).collect();
                fs.extend(pair_family(&pool, if tier == "quick" { 6 } else { 12 }, true).into_iter().filter(|f| f.uses_wild_or_dom()));
            }
        }
        for (desc, labels) in label_families(b, fams) {
            let ctx = NetCtx::new(b.clone(), labels, &desc);
            if rep.samples.len() < 6 {
                let f = &fs[fs.len() / 2 + rep.samples.len()];
                rep.sample(json!({"network": b.name, "labels": desc, "formula": f.show(&ctx.user), "expected_states_per_colour": ctx.expected(f).iter().map(|m| format!("{m:b}")).collect::<Vec<_>>()}));
            }
            sem::sweep(&mut rep, &ctx, &fs, ck);
            // the same with labels whose NAMES look like constants / digits / quantifier symbols
            if desc == "mixed" {
                // ... context sets that come from a bundle (zip written here, entry order explicit) holding decoy entries in
                // sub-directories and with other suffixes next to the real ones, decoys stored before / after the real entries:
                // label l must denote exactly the set stored as `l.bdd`
                if b.name == "con2" {
                    use std::io::Write;
                    let unit = b.graph.mk_unit_colored_vertices();
                    let small: Vec<_> = fs.iter().filter(|f| f.size() <= 3).cloned().collect();
                    for decoys_first in [true, false] {
                        let dir = tempfile::tempdir().map_err(|e| e.to_string())?;
                        let path = dir.path().join("context.zip");
                        {
                            let file = std::fs::File::create(&path).map_err(|e| e.to_string())?;
                            let mut zw = zip::ZipWriter::new(file);
                            let mut labels: Vec<&String> = ctx.sets.keys().collect();
                            labels.sort();
                            let real: Vec<(String, String)> = labels.iter().map(|l| (format!("{l}.bdd"), ctx.sets[*l].as_bdd().to_string())).collect();
                            let mut decoy: Vec<(String, String)> = vec![];
                            for l in &labels {
                                let other = unit.as_bdd().and_not(ctx.sets[*l].as_bdd()).to_string();
                                decoy.push((format!("old/{l}.bdd"), other.clone()));
                                decoy.push((format!("{l}.bdd.bak"), other.clone()));
                                decoy.push((format!("{l}.txt"), "not a bdd".to_string()));
                            }
                            let order: Vec<&(String, String)> = if decoys_first { decoy.iter().chain(real.iter()).collect() } else { real.iter().chain(decoy.iter()).collect() };
                            for (name, text) in order {
                                zw.start_file(name.as_str(), zip::write::FileOptions::default()).map_err(|e| e.to_string())?;
                                zw.write_all(text.as_bytes()).map_err(|e| e.to_string())?;
                            }
                            zw.finish().map_err(|e| e.to_string())?;
                        }
                        let how = if decoys_first { "decoy entries stored before the real ones" } else { "decoy entries stored after the real ones" };
                        let loaded = crate::report::guarded(std::panic::AssertUnwindSafe(|| biodivine_hctl_model_checker::load_inputs::load_bdd_bundle(path.to_str().unwrap(), b.graph.symbolic_context())));
                        match loaded {
                            Ok(Ok(map)) => {
                                let mut bad: Vec<String> = vec![];
                                for (l, set) in &ctx.sets {
                                    match map.get(l) {
                                        Some(s) if s.as_bdd() == set.as_bdd() => {}
                                        Some(_) => bad.push(format!("label `{l}` denotes another set than the one stored as {l}.bdd")),
                                        None => bad.push(format!("label `{l}` missing after load_bdd_bundle")),
                                    }
                                }
                                for f in &small {
                                    let text = f.show(&ctx.user);
                                    let expected = ctx.expected(f);
                                    rep.evaluations += 1;
                                    let w = match ctx.run(|| biodivine_hctl_model_checker::model_checking::model_check_extended_formula_dirty(&text, &b.graph, &map)) {
                                        crate::sweep::Got::Set(s) => ctx.diff_dirty(&s, &expected),
                                        crate::sweep::Got::Err(e) => Some(format!("Err: {e}")),
                                        crate::sweep::Got::Panic(p) => Some(format!("panic: {p}")),
                                    };
                                    if let Some(w) = w {
                                        if bad.len() < 6 {
                                            bad.push(format!("`{text}` with the loaded context: {w}"));
                                        }
                                    }
                                }
                                for w in bad.into_iter().take(6) {
                                    rep.violations.push(Violation { case: json!({"kind": "none"}), what: format!("context bundle for con2 labels=mixed ({how}): {w}"), size: 40 });
                                }
                            }
                            Ok(Err(e)) => rep.violations.push(Violation { case: json!({"kind": "none"}), what: format!("context bundle for con2 labels=mixed ({how}): load_bdd_bundle fails: {e}"), size: 40 }),
                            Err(p) => rep.violations.push(Violation { case: json!({"kind": "none"}), what: format!("context bundle for con2 labels=mixed ({how}): load_bdd_bundle panics: {p}"), size: 40 }),
                        }
                    }
                    rep.add_count("context_bundle_orders", 2);
                }
                // ... a public evaluation context that is EXTENDED TWICE: the second registration of a label replaces its set
                // (formulae in which every wild-card proposition occurs at most once, so that the first round uses up every
                // counter; first round with the sets of this family, second round with their complements)
                if b.name == "con2" {
                    use biodivine_hctl_model_checker::evaluation::algorithm::{compute_steady_states, eval_node};
                    use biodivine_hctl_model_checker::evaluation::eval_context::EvalContext;
                    use biodivine_hctl_model_checker::mc_utils::collect_unique_wild_cards;
                    use biodivine_hctl_model_checker::preprocessing::parser::parse_and_minimize_extended_formula;
                    use biodivine_lib_param_bn::biodivine_std::traits::Set;
                    let unit = b.graph.mk_unit_colored_vertices();
                    let steady = compute_steady_states(&b.graph);
                    let second: std::collections::HashMap<String, biodivine_lib_param_bn::symbolic_async_graph::GraphColoredVertices> = ctx.sets.iter().map(|(l, s)| (l.clone(), unit.minus(s))).collect();
                    let mut n_twice = 0u64;
                    for f in fs.iter().filter(|f| f.size() <= 4) {
                        let text = f.show(&ctx.user);
                        let tree = match parse_and_minimize_extended_formula(b.graph.symbolic_context(), &text) {
                            Ok(t) => t,
                            Err(_) => continue,
                        };
                        let (ws, ds) = collect_unique_wild_cards(tree.clone());
                        // every wild-card proposition at most once in the text
                        if ws.iter().any(|w| text.matches(&format!("%{w}%")).count() - text.matches(&format!("in %{w}%")).count() > 1) {
                            continue;
                        }
                        n_twice += 1;
                        let pick = |m: &std::collections::HashMap<String, biodivine_lib_param_bn::symbolic_async_graph::GraphColoredVertices>, names: &std::collections::HashSet<String>| -> std::collections::HashMap<String, biodivine_lib_param_bn::symbolic_async_graph::GraphColoredVertices> { names.iter().map(|n| (n.clone(), m[n].clone())).collect() };
                        let r = crate::report::guarded(std::panic::AssertUnwindSafe(|| {
                            let mut c = EvalContext::from_single_tree(&tree);
                            c.extend_context_with_wild_cards(&pick(&ctx.sets, &ws), &pick(&ctx.sets, &ds));
                            let r1 = eval_node(tree.clone(), &b.graph, &mut c, &steady, &mut |_, _| {});
                            c.extend_context_with_wild_cards(&pick(&second, &ws), &pick(&second, &ds));
                            let r2 = eval_node(tree.clone(), &b.graph, &mut c, &steady, &mut |_, _| {});
                            (r1, r2)
                        }));
                        let e1 = biodivine_hctl_model_checker::model_checking::model_check_extended_formula_dirty(&text, &b.graph, &ctx.sets);
                        let e2 = biodivine_hctl_model_checker::model_checking::model_check_extended_formula_dirty(&text, &b.graph, &second);
                        let what = match (r, e1, e2) {
                            (Ok((r1, r2)), Ok(e1), Ok(e2)) => {
                                if r1 != e1 {
                                    Some("first evaluation on the context differs from the entry point".to_string())
                                } else if r2 != e2 {
                                    Some("after the labels were registered again with other sets, the evaluation does not use the sets registered last".to_string())
                                } else {
                                    None
                                }
                            }
                            (Err(p), _, _) => Some(format!("panic: {p}")),
                            (_, e1, e2) => Some(format!("entry point fails: {:?} / {:?}", e1.err(), e2.err())),
                        };
                        if let Some(w) = what {
                            rep.violations.push(Violation { case: json!({"kind": "none"}), what: format!("evaluation context extended twice, `{text}` on con2 labels=mixed: {w}"), size: 30 + f.size() });
                        }
                    }
                    rep.evaluations += n_twice * 4;
                    rep.add_count("context_extended_twice_cases", n_twice);
                }
                // ... the long spellings of the quantifiers (\\exists, \\forall, \\bind, \\jump) mean the same
                {
                    use rayon::prelude::*;
                    let bad: Vec<Violation> = fs
                        .par_iter()
                        .filter_map(|f| {
                            let short = f.show(&ctx.user);
                            let long = short.replace("3{", "\\exists {").replace("V{", "\\forall {").replace("!{", "\\bind {").replace("@{", "\\jump {");
                            let expected = ctx.expected(f);
                            let what = match ctx.ext_dirty(&long) {
                                crate::sweep::Got::Set(s) => ctx.diff_dirty(&s, &expected),
                                crate::sweep::Got::Err(e) => Some(format!("Err: {e}")),
                                crate::sweep::Got::Panic(p) => Some(format!("panic: {p}")),
                            };
                            what.map(|w| Violation { case: json!({"kind": "none"}), what: format!("long spelling `{long}` of `{short}` on {} labels={desc}: model_check_extended_formula_dirty: {w}", b.name), size: f.size() })
                        })
                        .collect();
                    rep.evaluations += fs.len() as u64;
                    rep.add_count("long_spelling_cases", fs.len() as u64);
                    rep.violations.extend(bad.into_iter().take(20));
                }
                let odd = ctx.with_label_names(&["1", "false", "True"][..ctx.labels.wild.len().min(3)], &["0", "true", "V"][..ctx.labels.dom.len().min(3)]);
                let small: Vec<_> = fs.iter().filter(|f| f.size() <= 4).cloned().collect();
                sem::sweep(&mut rep, &odd, &small, ck);
                // ... and non-ASCII label names
                let uni = ctx.with_label_names(&["é", "細胞", "𝔸b"][..ctx.labels.wild.len().min(3)], &["é_2", "oblast_ř", "細"][..ctx.labels.dom.len().min(3)]);
                sem::sweep(&mut rep, &uni, &small, ck);
            }
        }
        slices.push(json!({"network": b.name, "max_nodes": m, "alphabet": alpha.describe(), "formulae": fs.len(), "label_families": fams}));
    }
    // F_ops: every operator / quantifier form on EVERY coloured set (pair) of tiny networks
    let unary_forms = ["~ %p%", "EX %p%", "AX %p%", "EF %p%", "AF %p%", "EG %p%", "AG %p%", "!{x}: (%p% & EX {x})", "3{x}: (@{x}: %p%)", "V{x}: (@{x}: (%p% | AX {x}))", "!{x} in %e%: AX {x}", "3{x} in %e%: (@{x}: True)", "V{x} in %e%: (@{x}: False)"];
    let binary_forms = [
        "%p% & %q%", "%p% | %q%", "%p% ^ %q%", "%p% => %q%", "%p% <=> %q%", "%p% EU %q%", "%p% AU %q%",
        "!{x} in %d%: %p%", "3{x} in %d%: (@{x}: %p%)", "V{x} in %d%: (@{x}: %p%)", "!{x} in %d%: AX ({x} | %p%)", "3{x} in %d%: EX ({x} & %p%)", "V{x} in %d%: (EF {x} | %p%)",
        "!{x} in %d%: (!{y} in %e%: (EX {x} & {y}))", "3{x} in %d%: (V{y} in %e%: (@{x}: EF {y}))",
    ];
    for (name, pairs) in [("tog2", true), ("imp1", tier != "quick"), ("con2", tier != "quick")] {
        let b = by_name(&nets, name);
        if !which.contains(&name) {
            sem::note_network(&mut rep, &b);
        }
        sem::ops_sweep(&mut rep, &b, &unary_forms, false, ck);
        if pairs {
            sem::ops_sweep(&mut rep, &b, &binary_forms, true, ck);
        }
    }
    // wide models (more than 2^53 state x colour pairs): the README equivalences and three closed-form
    // expectations for domains that are full / almost full / almost empty, in child processes
    {
        use rayon::prelude::*;
        let models: Vec<&str> = vec!["synthetic:chain60", "synthetic:gated44", "synthetic:chain58p", "synthetic:chain44p2", "synthetic:chain40"];
        // one child process per (model, domain): a slow case cannot hide the others behind the wall limit
        let jobs: Vec<Value> = models.iter().flat_map(|m| (0..7).map(move |d| json!({"kind": "c02big", "model": m, "domain_index": d}))).collect();
        let limit = if tier == "quick" { 40.0 } else { 600.0 };
        let results: Vec<(Value, crate::jobs::JobResult)> = jobs.par_iter().map(|j| (j.clone(), crate::jobs::run(j, limit))).collect();
        let mut big = vec![];
        for (j, r) in results {
            match r {
                crate::jobs::JobResult::Done(v) => {
                    if let Some(e) = v.get("error") {
                        return Err(format!("wide model job {j}: {e}"));
                    }
                    rep.evaluations += v["cases"].as_u64().unwrap_or(0) * 2;
                    rep.add_count("wide_model_cases", v["cases"].as_u64().unwrap_or(0));
                    for p in v["problems"].as_array().cloned().unwrap_or_default() {
                        rep.violations.push(Violation { case: json!({"kind": "c02big", "model": j["model"], "only": p["case"]}), what: format!("on {}: {}", j["model"].as_str().unwrap_or(""), p["what"].as_str().unwrap_or("")), size: 60 });
                    }
                    big.push(json!({"model": j["model"], "domain": v["domains"][j["domain_index"].as_u64().unwrap_or(0) as usize], "variables": v["variables"], "colours": v["colours"], "pairs_log2": v["pairs_log2"], "cases": v["cases"], "wall_s": v["wall_s"]}));
                }
                crate::jobs::JobResult::Timeout => rep.cap(format!("job {j} exceeded {limit}s and was stopped (no verdict)")),
                crate::jobs::JobResult::Crashed(e) => return Err(format!("wide model job {j} crashed: {e}")),
            }
        }
        rep.set("wide_models", json!(big));
    }
    // the multi-formula extended entry points: every ordered list of 2..4 distinct formulae of a pool of five extended formulae of
    // five different heights; every position must carry the meaning of ITS formula (explicit-state oracle), whatever the order
    {
        use biodivine_hctl_model_checker::model_checking as mc;
        let mut n_lists = 0u64;
        for b in nets.iter().filter(|b| ["con2", "imp1"].contains(&b.name.as_str())) {
            let fam = label_families(b, 1).pop().unwrap();
            let ctx = NetCtx::new(b.clone(), fam.1, &fam.0);
            let pool: Vec<crate::formulas::F> = ["~ %p%", "3{x} in %d%: (@{x}: %p%)", "AX (V{x} in %d%: (@{x}: %p%))", "%p% & (EF (!{x} in %e%: AX ({x} | %q%)))", "%q%"].iter().map(|t| crate::formulas::f(t, &ctx.user)).collect();
            let texts: Vec<String> = pool.iter().map(|f| f.show(&ctx.user)).collect();
            let expected: Vec<Vec<crate::bridge::Mask>> = pool.iter().map(|f| ctx.expected(f)).collect();
            let mut lists: Vec<Vec<usize>> = vec![];
            fn perms(pool: usize, len: usize, cur: &mut Vec<usize>, out: &mut Vec<Vec<usize>>) {
                if cur.len() == len {
                    out.push(cur.clone());
                    return;
                }
                for i in 0..pool {
                    if !cur.contains(&i) {
                        cur.push(i);
                        perms(pool, len, cur, out);
                        cur.pop();
                    }
                }
            }
            for len in 2..=4 {
                perms(pool.len(), len, &mut vec![], &mut lists);
            }
            n_lists += lists.len() as u64;
            for l in &lists {
                let ts: Vec<&str> = l.iter().map(|i| texts[*i].as_str()).collect();
                for (entry, r) in [
                    ("model_check_multiple_extended_formulae_dirty", crate::report::guarded(std::panic::AssertUnwindSafe(|| mc::model_check_multiple_extended_formulae_dirty(ts.clone(), &b.graph, &ctx.sets)))),
                    ("model_check_multiple_extended_formulae", crate::report::guarded(std::panic::AssertUnwindSafe(|| mc::model_check_multiple_extended_formulae(ts.clone(), &b.graph, &ctx.sets)))),
                ] {
                    let what = match r {
                        Ok(Ok(v)) if v.len() == l.len() => l.iter().enumerate().find_map(|(pos, i)| {
                            let d = if entry.ends_with("_dirty") { ctx.diff_dirty(&v[pos], &expected[*i]) } else { ctx.diff_canonical(&v[pos], &expected[*i]) };
                            d.map(|d| format!("position {pos} ({}) does not carry the meaning of its formula: {d}", texts[*i]))
                        }),
                        Ok(Ok(v)) => Some(format!("{} results for {} formulae", v.len(), l.len())),
                        Ok(Err(e)) => Some(format!("Err({e})")),
                        Err(p) => Some(format!("panic: {p}")),
                    };
                    if let Some(w) = what {
                        if rep.violations.len() < 300 {
                            rep.violations.push(Violation { case: json!({"kind": "none"}), what: format!("{entry}({ts:?}) on {} labels=mixed: {w}", b.name), size: 40 + l.len() });
                        }
                    }
                }
            }
        }
        rep.evaluations += n_lists * 2;
        slices.push(json!({"part": "ordered lists of 2..4 distinct extended formulae of different heights through the multi-formula entry points", "lists": n_lists}));
    }
    // two-step histories (state carried between calls): warm-up with domain-restricted quantifiers on a look-alike graph
    {
        let units: Vec<_> = nets.iter().filter(|b| b.name == "con2").cloned().collect();
        let fam = crate::history::family(tier, 3, &units);
        crate::history::run(&mut rep, &fam, crate::history::WARM_EXT, crate::history::PROBE_EXT, ck, 0)?;
        crate::history::run(&mut rep, &fam, crate::history::WARM_EXT, crate::history::PROBE_EXT, ck, 3)?;
        slices.push(json!({"part": "two-step histories", "family": fam.describe, "warm": crate::history::WARM_EXT.len(), "probes": crate::history::PROBE_EXT.len(), "label_families": ["mixed", "disjoint"]}));
    }
    rep.set("slices", json!(slices));
    rep.rule = "plus two-step histories: ordered pairs of look-alike graphs (networks over a, b with identical symbolic encoding but other update functions, with and without a shared function symbol; the same network with the unit set restricted to every second / the last colour) - warm-up formulae on the first graph, then probe formulae on the second on one fresh OS thread, every probe result against the explicit-state oracle and the unit set; all closed extended formulae with at most max_nodes nodes that contain a wild-card or a domain, plus the extended template families (nested and repeated domains, the same inner domain under different outer domains, pattern and duplicate shapes inside domain scopes, a closed sub-formula inside a restricted scope next to a jump and again outside it) and the pair family (every ordered pair of the collision alphabet joined by & / |, and nested as Q{x} in %d%: (A & @{x}: B)), x every label family (context-set assignment; the mixed family also under the label names 1, false, True / 0, true, V, under non-ASCII label names, with the context sets loaded from a bundle that also holds decoy entries (sub-directory, other suffixes; stored before / after the real entries), with a public evaluation context extended twice (second registration of every label with the complement set), and with every quantifier written in its long spelling \\exists / \\forall / \\bind / \\jump), through model_check_extended_formula(_dirty), compared with the explicit-state oracle on every state x valid colour (and: raw results inside the unit set, independent of spare variables); plus the operator sweep: every unary/binary operator and every quantifier form with/without domains on EVERY coloured set (and every pair of sets) of tiny networks; plus, on synthetic wide models with more than 2^53 state x colour pairs, the three README equivalences for 7 bodies x 7 domains (full, empty, all but one state, all but one (state, colour) pair, one state, ...) and the closed forms `!{x} in %d%: True` = d, `3{x} in %d%: @{x}: ~%d%` = empty, `V{x} in %d%: @{x}: %d%` = everything; distinct_nontrivial = distinct non-trivial (network, labels, verdict table)".into();
    Ok(rep)
}

/// Child job: README equivalences on a wide model. Domain sets are built with lib-param-bn's set
/// operations only (no formula evaluation).
pub fn job(job: &Value) -> Value {
    use biodivine_hctl_model_checker::model_checking as mc;
    use biodivine_lib_param_bn::biodivine_std::traits::Set;
    use biodivine_lib_param_bn::symbolic_async_graph::GraphColoredVertices;
    use std::collections::HashMap;
    let t0 = std::time::Instant::now();
    let name = job["model"].as_str().unwrap_or("");
    let only = job["only"].as_str();
    let big = match crate::bigmodels::load(name, 2) {
        Ok(b) => b,
        Err(e) => return json!({"error": e}),
    };
    let g = &big.graph;
    let unit = g.mk_unit_colored_vertices();
    let vars: Vec<_> = g.variables().collect();
    let vertex = |f: &dyn Fn(usize) -> bool| -> GraphColoredVertices {
        let mut s = unit.clone();
        for (i, v) in vars.iter().enumerate() {
            s = s.fix_network_variable(*v, f(i));
        }
        s
    };
    let zero = vertex(&|_| false);
    let ones = vertex(&|_| true);
    let mark = vertex(&|i| i < 4);
    let one_colour = unit.colors().pick_singleton();
    let pair = ones.intersect_colors(&one_colour);
    let domains: Vec<(&str, GraphColoredVertices)> = vec![
        ("all but the all-zero state", unit.minus(&zero)),
        ("all but the all-ones state", unit.minus(&ones)),
        ("all but one (state, colour) pair", unit.minus(&pair)),
        ("all but state 1111000..", unit.minus(&mark)),
        ("only the all-ones state", ones.clone()),
        ("everything", unit.clone()),
        ("nothing", g.mk_empty_colored_vertices()),
    ];
    let bodies = ["True", "AX {x}", "EX {x}", "~%d%", "%q%", "{x}", "EF {x}"];
    let mut problems = vec![];
    let mut cases = 0u64;
    for (di, (dname, d)) in domains.iter().enumerate() {
        if let Some(i) = job["domain_index"].as_u64() {
            if i as usize != di {
                continue;
            }
        }
        let ctx: HashMap<String, GraphColoredVertices> = HashMap::from([("d".to_string(), d.clone()), ("q".to_string(), unit.minus(&zero).minus(&mark))]);
        let eval = |text: &str| mc::model_check_extended_formula_dirty(text, g, &ctx);
        let mut compare = |case: String, lhs: &str, rhs: Result<GraphColoredVertices, String>, rhs_desc: &str| {
            if let Some(o) = only {
                if o != case {
                    return;
                }
            }
            cases += 1;
            let what = match (crate::report::guarded(std::panic::AssertUnwindSafe(|| eval(lhs))), rhs) {
                (Ok(Ok(a)), Ok(b)) if a.as_bdd() == b.as_bdd() => None,
                (Ok(Ok(a)), Ok(b)) => Some(format!("domain %d% = {dname}: `{lhs}` has {} elements but {rhs_desc} has {} (they differ in {} elements)", a.exact_cardinality(), b.exact_cardinality(), a.minus(&b).union(&b.minus(&a)).exact_cardinality())),
                (Ok(Err(e)), _) => Some(format!("domain %d% = {dname}: `{lhs}` returns Err: {e}")),
                (Err(p), _) => Some(format!("domain %d% = {dname}: `{lhs}` panics: {p}")),
                (_, Err(e)) => Some(format!("domain %d% = {dname}: reference `{rhs_desc}` returns Err: {e}")),
            };
            if let Some(w) = what {
                if problems.len() < 6 {
                    problems.push(json!({"case": case, "what": w}));
                }
            }
        };
        // closed forms (no evaluation on the right-hand side)
        compare(format!("{dname}/closed/bind"), "!{x} in %d%: True", Ok(d.clone()), "the set d itself");
        compare(format!("{dname}/closed/exists"), "3{x} in %d%: @{x}: ~%d%", Ok(g.mk_empty_colored_vertices()), "the empty set");
        compare(format!("{dname}/closed/forall"), "V{x} in %d%: @{x}: %d%", Ok(unit.clone()), "the unit set");
        for body in bodies {
            // EF {x} on the chains is a reachability relation over 2 x n variables: only on the gated model
            if body == "EF {x}" && !name.contains("gated") {
                continue;
            }
            let forms = [
                (format!("!{{x}} in %d%: {body}"), format!("!{{x}}: %d% & ({body})")),
                (format!("3{{x}} in %d%: @{{x}}: {body}"), format!("3{{x}}: @{{x}}: %d% & ({body})")),
                (format!("V{{x}} in %d%: @{{x}}: {body}"), format!("V{{x}}: @{{x}}: %d% => ({body})")),
            ];
            for (lhs, rhs) in forms {
                let r = match crate::report::guarded(std::panic::AssertUnwindSafe(|| eval(&rhs))) {
                    Ok(r) => r,
                    Err(p) => Err(format!("panic: {p}")),
                };
                compare(format!("{dname}/{lhs}"), &lhs, r, &format!("`{rhs}`"));
            }
        }
    }
    let colours = g.unit_colors().approx_cardinality();
    json!({"cases": cases, "problems": problems, "variables": g.num_vars(), "colours": colours, "pairs_log2": unit.approx_cardinality().log2(), "domains": domains.iter().map(|d| d.0).collect::<Vec<_>>(), "wall_s": t0.elapsed().as_secs_f64()})
}

pub fn replay_big(case: &Value) -> Option<String> {
    let v = job(&json!({"kind": "c02big", "model": case["model"], "only": case["only"]}));
    if let Some(e) = v.get("error") {
        return Some(format!("job error: {e}"));
    }
    v["problems"].as_array().and_then(|a| a.first()).map(|p| p["what"].as_str().unwrap_or("").to_string())
}
