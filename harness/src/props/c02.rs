//! C02 — wild-card propositions and restricted domains.

use super::common::*;
use crate::formulas::{collision_alphabet, pair_family, templates, Alphabet, Gen};
use crate::report::Report;
use crate::sem::{self, Checks, Entries};
use crate::sweep::{label_families, NetCtx};
use serde_json::json;

pub fn run(tier: &str) -> Result<Report, String> {
    let mut rep = Report::new("C02", tier, "model_checking");
    std_assumptions(&mut rep);
    let nets = core_nets(3)?;
    let ck = Checks { semantic: true, unit: false, entries: Entries::Ext2 };
    let (m, fams, which): (usize, usize, Vec<&str>) = if tier == "quick" {
        (3, 6, vec!["imp1", "con2", "asy2", "unc2"])
    } else {
        (4, 10, vec!["neg1", "imp1", "con2", "tog2", "asy2", "unc2", "unf2", "inp2", "zer2"])
    };
    let mut slices = vec![];
    for b in nets.iter().filter(|b| which.contains(&b.name.as_str())) {
        sem::note_network(&mut rep, b);
        let alpha = Alphabet::extended(if b.n == 1 { 1 } else { 2 }, 2, 1, 2);
        let mut g = Gen::new(alpha.clone());
        let mut fs: Vec<_> = g.closed_up_to(m).into_iter().filter(|f| f.uses_wild_or_dom()).collect();
        {
            // template shapes beyond the node bound (nested / repeated domains, the same inner domain
            // under different outer domains, wild-cards in duplicated sub-trees)
            let probe = NetCtx::new(b.clone(), label_families(b, 1)[0].1.clone(), "probe");
            fs.extend(templates(&probe.user, true, if tier == "quick" { 2 } else { 6 }).into_iter().filter(|f| f.uses_wild_or_dom()));
            if b.n >= 2 {
                let pool = collision_alphabet(&probe.user);
                let pool: Vec<_> = pool.into_iter().take(if tier == "quick" { 14 } else { 28 }).collect();
                fs.extend(pair_family(&pool, if tier == "quick" { 6 } else { 12 }, true).into_iter().filter(|f| f.uses_wild_or_dom()));
            }
        }
        for (desc, labels) in label_families(b, fams) {
            let ctx = NetCtx::new(b.clone(), labels, &desc);
            if rep.samples.len() < 6 {
                let f = &fs[fs.len() / 2 + rep.samples.len()];
                rep.sample(json!({"network": b.name, "labels": desc, "formula": f.show(&ctx.user), "expected_states_per_colour": ctx.expected(f).iter().map(|m| format!("{m:b}")).collect::<Vec<_>>()}));
            }
            sem::sweep(&mut rep, &ctx, &fs, ck);
        }
        slices.push(json!({"network": b.name, "max_nodes": m, "alphabet": alpha.describe(), "formulae": fs.len(), "label_families": fams}));
    }
    // F_ops: every operator / quantifier form on EVERY coloured set (pair) of tiny networks
    let unary_forms = ["~ %p%", "EX %p%", "AX %p%", "EF %p%", "AF %p%", "EG %p%", "AG %p%", "!{x}: (%p% & EX {x})", "3{x}: (@{x}: %p%)", "V{x}: (@{x}: (%p% | AX {x}))", "!{x} in %e%: AX {x}", "3{x} in %e%: (@{x}: True)", "V{x} in %e%: (@{x}: False)"];
    let binary_forms = [
        "%p% & %q%", "%p% | %q%", "%p% ^ %q%", "%p% => %q%", "%p% <=> %q%", "%p% EU %q%", "%p% AU %q%",
        "!{x} in %d%: %p%", "3{x} in %d%: (@{x}: %p%)", "V{x} in %d%: (@{x}: %p%)", "!{x} in %d%: AX ({x} | %p%)", "3{x} in %d%: EX ({x} & %p%)", "V{x} in %d%: (EF {x} | %p%)",
        "!{x} in %d%: (!{y} in %e%: (EX {x} & {y}))", "3{x} in %d%: (V{y} in %e%: (@{x}: EF {y}))",
    ];
    for (name, pairs) in [("tog2", true), ("imp1", tier != "quick"), ("con2", tier != "quick")] {
        let b = by_name(&nets, name);
        if !which.contains(&name) {
            sem::note_network(&mut rep, &b);
        }
        sem::ops_sweep(&mut rep, &b, &unary_forms, false, ck);
        if pairs {
            sem::ops_sweep(&mut rep, &b, &binary_forms, true, ck);
        }
    }
    rep.set("slices", json!(slices));
    rep.rule = "all closed extended formulae with at most max_nodes nodes that contain a wild-card or a domain, plus the extended template families (nested and repeated domains, the same inner domain under different outer domains, pattern and duplicate shapes inside domain scopes) and the pair family (every ordered pair of the collision alphabet joined by & / |, and nested as Q{x} in %d%: (A & @{x}: B)), x every label family (context-set assignment), through model_check_extended_formula(_dirty), compared with the explicit-state oracle on every state x valid colour; plus the operator sweep: every unary/binary operator and every quantifier form with/without domains on EVERY coloured set (and every pair of sets) of tiny networks; distinct_nontrivial = distinct non-trivial (network, labels, verdict table)".into();
    Ok(rep)
}
