//! C12 — attractor and steady-state shortcuts agree with generic evaluation everywhere.

use super::common::*;
use crate::formulas::{Alphabet, Bi, Gen, Hy, Un, F};
use crate::report::{Report, Violation};
use crate::sem::{self, Checks, Entries};
use crate::sweep::{label_families, Got, NetCtx};
use rayon::prelude::*;
use serde_json::json;
use std::sync::Arc;

const HOLE: u8 = 2; // wild-card index used as the hole marker (names: p, q, r -> r)

fn holes(f: &F) -> usize {
    match f {
        F::Wild(i) if *i == HOLE => 1,
        F::Un(_, c) | F::Hy(_, _, _, c) => holes(c),
        F::Bin(_, l, r) => holes(l) + holes(r),
        _ => 0,
    }
}

/// Replace the hole by `mk(depth)` where depth = number of quantifiers enclosing the hole.
fn fill(f: &F, depth: u8, mk: &dyn Fn(u8) -> Option<F>) -> Option<F> {
    Some(match f {
        F::Wild(i) if *i == HOLE => mk(depth)?,
        F::Un(o, c) => F::un(*o, fill(c, depth, mk)?),
        F::Bin(o, l, r) => F::bin(*o, fill(l, depth, mk)?, fill(r, depth, mk)?),
        F::Hy(Hy::Jump, v, d, c) => F::hy(Hy::Jump, *v, *d, fill(c, depth, mk)?),
        F::Hy(o, v, d, c) => F::hy(*o, *v, *d, fill(c, depth + 1, mk)?),
        other => other.clone(),
    })
}

fn ag_ef(x: F) -> F {
    F::un(Un::AG, F::un(Un::EF, x))
}
fn bind(d: u8, dom: Option<u8>, body: F) -> F {
    F::hy(Hy::Bind, d, dom, body)
}

/// (name, builder, twin builder) — the twin is a logically identical formula that defeats the pattern matcher.
type Mk = fn(u8) -> Option<F>;
fn patterns() -> Vec<(&'static str, Mk, Mk)> {
    vec![
        ("attractor !{v}: AG EF {v}", |d| Some(bind(d, None, ag_ef(F::Var(d)))), |d| Some(bind(d, None, ag_ef(F::bin(Bi::And, F::Var(d), F::Var(d)))))),
        ("steady !{v}: AX {v}", |d| Some(bind(d, None, F::un(Un::AX, F::Var(d)))), |d| Some(bind(d, None, F::un(Un::AX, F::un(Un::Not, F::un(Un::Not, F::Var(d))))))),
    ]
}
fn near_misses() -> Vec<(&'static str, Mk)> {
    vec![
        ("other variable under AG EF", |d| if d == 0 { None } else { Some(bind(d, None, ag_ef(F::Var(d - 1)))) }),
        ("other variable under AX", |d| if d == 0 { None } else { Some(bind(d, None, F::un(Un::AX, F::Var(d - 1)))) }),
        ("domain on the attractor binder", |d| Some(bind(d, Some(0), ag_ef(F::Var(d))))),
        ("domain on the steady binder", |d| Some(bind(d, Some(1), F::un(Un::AX, F::Var(d))))),
        ("extra operator AG EF EF", |d| Some(bind(d, None, F::un(Un::AG, F::un(Un::EF, F::un(Un::EF, F::Var(d))))))),
        ("extra operator AX AX", |d| Some(bind(d, None, F::un(Un::AX, F::un(Un::AX, F::Var(d)))))),
        ("exists instead of bind (attractor)", |d| Some(F::hy(Hy::Exists, d, None, ag_ef(F::Var(d))))),
        ("forall instead of bind (steady)", |d| Some(F::hy(Hy::Forall, d, None, F::un(Un::AX, F::Var(d))))),
        ("EX instead of AX", |d| Some(bind(d, None, F::un(Un::EX, F::Var(d))))),
        ("fewer operators: !{v}: AG {v}", |d| Some(bind(d, None, F::un(Un::AG, F::Var(d))))),
        ("fewer operators: !{v}: EF {v}", |d| Some(bind(d, None, F::un(Un::EF, F::Var(d))))),
        ("fewer operators: !{v}: {v}", |d| Some(bind(d, None, F::Var(d)))),
        ("other operator: !{v}: AF {v}", |d| Some(bind(d, None, F::un(Un::AF, F::Var(d))))),
        ("swapped operators: !{v}: EF AG {v}", |d| Some(bind(d, None, F::un(Un::EF, F::un(Un::AG, F::Var(d)))))),
        ("EG EF instead of AG EF", |d| Some(bind(d, None, F::un(Un::EG, F::un(Un::EF, F::Var(d)))))),
        ("AG EF of a conjunction with a proposition", |d| Some(bind(d, None, ag_ef(F::bin(Bi::And, F::Var(d), F::Prop(0)))))),
    ]
}

pub fn run(tier: &str) -> Result<Report, String> {
    let mut rep = Report::new("C12", tier, "model_checking");
    std_assumptions(&mut rep);
    let nets = core_nets(3)?;
    let which: Vec<&str> = if tier == "quick" { vec!["imp1", "con2", "asy2", "unc2", "cyc3"] } else { nets.iter().map(|b| b.name.as_str()).collect() };
    let ctx_nodes = if tier == "quick" { 2 } else { 3 };
    let ck = Checks { semantic: true, unit: true, entries: Entries::Ext2 };
    let mut n_contexts = 0;
    // plus: multi-colour networks whose graph is additionally restricted to every second valid colour
    // (SymbolicAsyncGraph::restrict) - shortcut results must stay inside the narrowed universe as well
    let mut selected: Vec<Arc<crate::bridge::Bound>> = nets.iter().filter(|b| which.contains(&b.name.as_str())).cloned().collect();
    for b in nets.iter().filter(|b| b.cols.len() >= 2 && (if tier == "quick" { ["imp1", "con2"].contains(&b.name.as_str()) } else { b.n <= 2 })) {
        let keep: Vec<usize> = (0..b.cols.len()).step_by(2).collect();
        selected.push(Arc::new(b.restrict_colours(&keep)));
    }
    // plus networks with multi-stability inside one colour (steady state next to a cyclic attractor)
    for b in edge_nets(3)?.into_iter().filter(|b| ["mul3", "mul2", "cst2"].contains(&b.name.as_str())) {
        selected.push(b);
    }
    // variables WITHOUT regulators that still move once (a constant update function, a zero-arity parameter) next to an oscillation
    for (name, text) in [("src2", "b -| b; $a: true; $b: !b"), ("srp2", "b -| b; $a: k; $b: !b")].into_iter().chain(if tier == "quick" { vec![] } else { vec![("src3", "c -| b; b -> c; $a: false; $b: !c; $c: b")] }) {
        selected.push(Arc::new(super::common::bind(name, &crate::nets::spec(text), 3)?));
    }
    for b in selected.iter() {
        sem::note_network(&mut rep, b);
        let fams = label_families(b, 4);
        for (desc, labels) in [fams[0].clone(), fams[3].clone()] {
            let ctx = Arc::new(NetCtx::new(b.clone(), labels, &desc));
            // one-hole contexts: all formulae with <= ctx_nodes + 1 nodes over the extended alphabet plus the hole atom
            let mut alpha = Alphabet::extended(ctx.nprops().min(1), 2, 3, 2);
            alpha.bi = vec![Bi::And, Bi::Or, Bi::Imp, Bi::EU, Bi::AU];
            let mut g = Gen::new(alpha);
            let contexts: Vec<F> = g
                .closed_up_to(ctx_nodes + 1)
                .into_iter()
                .filter(|f| holes(f) == 1 && !f.any(|x| matches!(x, F::Wild(1))))
                .collect();
            n_contexts = contexts.len();
            // pattern vs twin vs oracle
            let mut all: Vec<F> = vec![];
            for (pname, mk, twin) in patterns() {
                let bad: Vec<Violation> = contexts
                    .par_iter()
                    .filter_map(|c| {
                        let fp = fill(c, 0, &mk)?;
                        let ft = fill(c, 0, &twin)?;
                        let (rp, rt) = (ctx.ext_dirty(&fp.show(&ctx.user)), ctx.ext_dirty(&ft.show(&ctx.user)));
                        let mut what = match (&rp, &rt) {
                            (Got::Set(a), Got::Set(b)) if a == b => None,
                            (Got::Set(_), Got::Set(_)) => Some("shortcut and generic evaluation return different sets".to_string()),
                            (a, b) => Some(format!("shortcut: {}, generic: {}", short(a), short(b))),
                        };
                        // the self-loop-free entry point recognises the patterns too: where self-loops cannot matter (no EX AX AF
                        // EG AU EW anywhere in the formula) its shortcut result must be the generic one as well
                        if what.is_none() && !fp.uses_wild_or_dom() && crate::props::c18::loop_insensitive(&fp) {
                            let ru = ctx.run(|| biodivine_hctl_model_checker::model_checking::model_check_formula_unsafe_ex(&fp.show(&ctx.user), &ctx.b.graph));
                            what = match (&ru, &rt) {
                                (Got::Set(a), Got::Set(b)) if a == b => None,
                                (Got::Set(_), Got::Set(_)) => Some("the shortcut through model_check_formula_unsafe_ex differs from the generic evaluation".to_string()),
                                (a, _) => Some(format!("shortcut through model_check_formula_unsafe_ex: {}", short(a))),
                            };
                        }
                        what.map(|w| Violation {
                            case: sem::case_json(&ctx, &fp, ck),
                            what: format!("[{pname}] {} vs twin {} on {} labels={}: {w}", fp.show(&ctx.user), ft.show(&ctx.user), ctx.b.name, ctx.label_desc),
                            size: fp.size(),
                        })
                    })
                    .collect();
                rep.evaluations += contexts.len() as u64 * 2;
                rep.add_count("pattern_vs_twin_cases", contexts.len() as u64);
                rep.violations.extend(bad.into_iter().take(30));
                for c in &contexts {
                    if let Some(f) = fill(c, 0, &mk) {
                        all.push(f);
                    }
                    if let Some(f) = fill(c, 0, &twin) {
                        all.push(f);
                    }
                }
            }
            for (_, mk) in near_misses() {
                for c in &contexts {
                    if let Some(f) = fill(c, 0, &mk) {
                        all.push(f);
                    }
                }
            }
            // the pattern twice: once inside a domain-restricted scope and once elsewhere, in both orders
            // (a shortcut result computed in one scope must not leak into the other through the cache)
            // bounds (domain context nodes, other context nodes): quick (3, 2); thorough (4, 2) and (3, 3) on the
            // networks with <= 2 variables, (3, 2) on the 3-variable ones (the unbounded product took > 12 CPU-hours)
            let bounds: Vec<(usize, usize)> = if tier == "quick" || b.n > 2 { vec![(3, 2)] } else { vec![(4, 2), (3, 3)] };
            let mut twice: Vec<(F, F)> = vec![];
            for (_, mk, twin) in patterns() {
                for c1 in contexts.iter().filter(|c| c.any(|x| matches!(x, F::Hy(_, _, Some(_), _)))) {
                    for c2 in contexts.iter() {
                        if !bounds.iter().any(|(d, a)| c1.size() <= *d && c2.size() <= *a) {
                            continue;
                        }
                        for op in [Bi::And, Bi::Or] {
                            if let (Some(p1), Some(p2), Some(t1), Some(t2)) = (fill(c1, 0, &mk), fill(c2, 0, &mk), fill(c1, 0, &twin), fill(c2, 0, &twin)) {
                                twice.push((F::bin(op, p1.clone(), p2.clone()), F::bin(op, t1.clone(), t2.clone())));
                                twice.push((F::bin(op, p2, p1), F::bin(op, t2, t1)));
                            }
                        }
                    }
                }
            }
            let bad2: Vec<Violation> = twice
                .par_iter()
                .filter_map(|(fp, ft)| {
                    let (rp, rt) = (ctx.ext_dirty(&fp.show(&ctx.user)), ctx.ext_dirty(&ft.show(&ctx.user)));
                    let what = match (&rp, &rt) {
                        (Got::Set(a), Got::Set(b)) if a == b => ctx.diff_dirty(a, &ctx.expected(fp)).map(|d| format!("both evaluations differ from the explicit-state semantics: {d}")),
                        (Got::Set(a), Got::Set(_)) => Some(format!("shortcut and generic evaluation return different sets{}", match ctx.diff_dirty(a, &ctx.expected(fp)) { Some(d) => format!("; the shortcut version is wrong: {d}"), None => "; the generic version is wrong".into() })),
                        (a, b) => Some(format!("shortcut: {}, generic: {}", short(a), short(b))),
                    };
                    what.map(|w| Violation { case: sem::case_json(&ctx, fp, ck), what: format!("[pattern twice] {} vs twin {} on {} labels={}: {w}", fp.show(&ctx.user), ft.show(&ctx.user), ctx.b.name, ctx.label_desc), size: fp.size() })
                })
                .collect();
            rep.evaluations += twice.len() as u64 * 2;
            rep.traces_validated += twice.len() as u64 * ctx.b.cols.len() as u64;
            rep.add_count("pattern_twice_cases", twice.len() as u64);
            rep.violations.extend(bad2.into_iter().take(30));
            all.sort();
            all.dedup();
            if rep.samples.len() < 4 {
                let f = &all[all.len() / 2];
                rep.sample(json!({"network": b.name, "labels": desc, "formula": f.show(&ctx.user)}));
            }
            sem::sweep(&mut rep, &ctx, &all, ck);
        }
    }
    // bundled models (one child process each, wall limit): necessary-and-sufficient set-level conditions for the two shortcuts
    {
        use rayon::prelude::*;
        let models: Vec<&str> = if tier == "quick" {
            vec!["pystablemotifs-models/cell_cycle_2016.aeon", "pystablemotifs-models/myeloid.aeon", "cell_division", "pystablemotifs-models/2161_Guard_Cell_Abscisic_Acid_Signaling.aeon", "large-colored-models/set1-tacas/tacas2.aeon"]
        } else {
            vec!["pystablemotifs-models/cell_cycle_2016.aeon", "pystablemotifs-models/myeloid.aeon", "cell_division", "pystablemotifs-models/2161_Guard_Cell_Abscisic_Acid_Signaling.aeon", "large-colored-models/set1-tacas/tacas2.aeon", "pystablemotifs-models/EMT.aeon", "pystablemotifs-models/2176_T-LGL_Survival_Network_2008.aeon", "pystablemotifs-models/2171_T_Cell_Receptor_Signaling.aeon", "inference-benchmarks/110_9v/model_parametrized.aeon"]
        };
        let limit = if tier == "quick" { 45.0 } else { 900.0 };
        let results: Vec<(&str, crate::jobs::JobResult)> = models.par_iter().map(|m| (*m, crate::jobs::run(&json!({"kind": "c12big", "model": m}), limit))).collect();
        let mut big = vec![];
        for (m, r) in results {
            match r {
                crate::jobs::JobResult::Done(v) => {
                    if let Some(e) = v.get("error") {
                        return Err(format!("bundled model job {m}: {e}"));
                    }
                    rep.evaluations += v["cases"].as_u64().unwrap_or(0);
                    for p in v["problems"].as_array().cloned().unwrap_or_default() {
                        rep.violations.push(crate::report::Violation { case: json!({"kind": "c12big", "model": m}), what: format!("on {m}: {}", p.as_str().unwrap_or("")), size: 80 });
                    }
                    big.push(json!({"model": m, "variables": v["variables"], "attractor_pairs_log2": v["attractor_pairs_log2"], "cases": v["cases"], "wall_s": v["wall_s"]}));
                }
                crate::jobs::JobResult::Timeout => rep.cap(format!("bundled model {m} exceeded {limit}s and was stopped (no verdict)")),
                crate::jobs::JobResult::Crashed(e) => return Err(format!("bundled model job {m} crashed: {e}")),
            }
        }
        rep.set("bundled_models", json!(big));
    }
    rep.set("one_hole_contexts", json!(n_contexts));
    // the shortcuts must not remember anything between calls: two-step histories over look-alike graphs
    {
        let units: Vec<_> = nets.iter().filter(|b| b.name == "con2").cloned().collect();
        let fam = crate::history::family(tier, 3, &units);
        let warm = ["!{x}: AG EF {x}", "!{x}: AX {x}", "EF (!{x}: AX {x})", "3{x}: @{x}: (!{y}: AG EF {y})", "!{x} in %d%: AG EF {x}", "!{x} in %e%: AX {x}"];
        let probes = ["!{x}: AG EF {x}", "!{x}: AX {x}", "!{x}: AG EF ({x} & {x})", "!{x}: AX ({x} & {x})", "EF (!{x}: AX {x})", "AX (!{x}: AG EF {x})", "3{x}: @{x}: (!{y}: AG EF {y})", "!{x} in %d%: AG EF {x}", "!{x} in %e%: AX {x}", "V{y} in %d%: (!{x}: AG EF {x}) | {y}", "(!{x}: AX {x}) & %p%"];
        crate::history::run(&mut rep, &fam, &warm, &probes, ck, 0)?;
    }
    rep.rule = format!("plus two-step histories: ordered pairs of look-alike graphs (networks over a, b with identical symbolic encoding but other update functions, with and without a shared function symbol; the same network with the unit set restricted to every second / the last colour) - warm-up formulae on the first graph, then probe formulae on the second on one fresh OS thread, every probe result against the explicit-state oracle and the unit set; every one-hole context with <= {ctx_nodes} nodes (all unary operators, & | => EU AU, bind/exists/forall with and without domains, jump) x the two shortcut patterns, their pattern-defeating twins and 16 near-miss families (other variable, domain on the binder, extra / fewer / swapped / other operators, other quantifier), on the core networks (and on the multi-colour ones with the graph restricted to every second colour) x 2 label families: shortcut vs twin must be the same set (BDD equality), also through model_check_formula_unsafe_ex where self-loops cannot matter; the pattern occurring twice (inside a domain-restricted context and in any other context, both orders, joined by & / |; context sizes (domain, other) bounded by (3,2) in quick and on 3-variable networks, (4,2) and (3,3) in thorough on networks with <= 2 variables) vs the same with twins, and vs the oracle; and every formula must agree with the explicit-state oracle and stay inside the unit set; plus, on bundled models with 9..101 variables (child processes, wall limit; quick: cell_cycle_2016, myeloid, cell_division, guard cell, tacas2), set-level conditions that need neither the oracle nor the generic twin: the result of the attractor formula is closed under successors, reachable from every (state, colour) pair, three deterministic witness pairs lie in a terminal SCC (library forward/backward reachability) and are found by the generic evaluation restricted to the witness (`!{{x}} in %t%: AG EF {{x}}` = {{t}}), a witness outside is not; the steady-state formula equals the pairs where no variable can change; distinct_nontrivial = distinct non-trivial verdict tables");
    Ok(rep)
}

fn short(g: &Got) -> String {
    match g {
        Got::Set(_) => "a set".into(),
        Got::Err(e) => format!("Err({e})"),
        Got::Panic(p) => format!("panic({p})"),
    }
}

/// Child job: the two shortcuts on a bundled model too large for the explicit-state oracle and for the generic
/// evaluation of the pattern-defeating twin. Oracles that need neither: the attractor set A must be closed under
/// successors (library `post`), every (state, colour) pair must reach it (library `reach_backward`), witness pairs of A
/// picked deterministically must lie in a terminal strongly connected component (library forward / backward
/// reachability from the single pair) and must be found by the generic evaluation restricted to the witness
/// (`!{x} in %t%: AG EF {x}` = {t}); witness pairs outside A must not. Steady states: `!{x}: AX {x}` must be exactly the
/// pairs without a successor other than themselves.
pub fn job(job: &serde_json::Value) -> serde_json::Value {
    use biodivine_hctl_model_checker::model_checking as mc;
    use biodivine_lib_param_bn::biodivine_std::traits::Set;
    use biodivine_lib_param_bn::symbolic_async_graph::reachability::Reachability;
    use biodivine_lib_param_bn::symbolic_async_graph::GraphColoredVertices;
    use std::collections::HashMap;
    let t0 = std::time::Instant::now();
    let name = job["model"].as_str().unwrap_or("");
    let big = match crate::bigmodels::load(name, 1) {
        Ok(b) => b,
        Err(e) => return json!({"error": e}),
    };
    let g = &big.graph;
    let unit = g.mk_unit_colored_vertices();
    let mut problems: Vec<String> = vec![];
    let mut cases = 0u64;
    let att = match mc::model_check_formula_dirty("!{x}: AG EF {x}", g) {
        Ok(a) => a,
        Err(e) => return json!({"error": format!("attractor formula: {e}")}),
    };
    // (1) closed under successors
    cases += 1;
    if !g.post(&att).is_subset(&att) {
        problems.push(format!("the result of !{{x}}: AG EF {{x}} is not closed under successors ({} pairs, {} successors outside)", att.approx_cardinality(), g.post(&att).minus(&att).approx_cardinality()));
    }
    // (2) every pair reaches it
    cases += 1;
    if g.reach_backward(&att) != unit {
        problems.push("some (state, colour) pair cannot reach the result of !{x}: AG EF {x} (an attractor is missing)".into());
    }
    // (3) witnesses inside: terminal SCC + generic evaluation restricted to the witness
    let mut rest = att.clone();
    for i in 0..3 {
        if rest.is_empty() {
            break;
        }
        let t = rest.pick_singleton();
        cases += 2;
        let fwd = Reachability::reach_fwd(g, &t);
        let bwd = Reachability::reach_bwd(g, &t);
        if !fwd.is_subset(&bwd) {
            problems.push(format!("witness {i} of the result of !{{x}}: AG EF {{x}} can reach a pair from which it cannot be reached again (not an attractor state)"));
        }
        let ctx: HashMap<String, GraphColoredVertices> = HashMap::from([("t".to_string(), t.clone())]);
        match mc::model_check_extended_formula_dirty("!{x} in %t%: AG EF {x}", g, &ctx) {
            Ok(r) if r == t => {}
            Ok(r) => problems.push(format!("witness {i}: the generic evaluation `!{{x}} in %t%: AG EF {{x}}` gives {} pairs instead of the witness itself", r.approx_cardinality())),
            Err(e) => problems.push(format!("witness {i}: generic evaluation fails: {e}")),
        }
        // the next witness comes from another attractor / colour
        rest = rest.minus(&fwd).minus_colors(&t.colors());
        if rest.is_empty() {
            rest = att.minus(&fwd);
        }
    }
    // (4) a witness outside
    let outside = unit.minus(&att);
    if !outside.is_empty() {
        cases += 1;
        let s = outside.pick_singleton();
        let ctx: HashMap<String, GraphColoredVertices> = HashMap::from([("t".to_string(), s.clone())]);
        match mc::model_check_extended_formula_dirty("!{x} in %t%: AG EF {x}", g, &ctx) {
            Ok(r) if r.is_empty() => {}
            Ok(_) => problems.push("a pair outside the result of !{x}: AG EF {x} is an attractor state by the generic evaluation restricted to it".into()),
            Err(e) => problems.push(format!("generic evaluation fails: {e}")),
        }
    }
    // (5) steady states: exactly the pairs whose only successor is themselves (no successor at all in the graph)
    cases += 1;
    match mc::model_check_formula_dirty("!{x}: AX {x}", g) {
        Ok(fix) => {
            let no_succ = unit.minus(&g.pre(&unit));
            let _ = no_succ;
            let can_move = g.variables().fold(g.mk_empty_colored_vertices(), |acc, v| acc.union(&g.var_can_post(v, &unit)));
            if fix != unit.minus(&can_move) {
                problems.push("the result of !{x}: AX {x} differs from the pairs in which no variable can change (library var_can_post)".into());
            }
            if !fix.is_subset(&att) {
                problems.push("a steady state is missing from the result of !{x}: AG EF {x}".into());
            }
        }
        Err(e) => problems.push(format!("steady-state formula: {e}")),
    }
    json!({"cases": cases, "variables": g.num_vars(), "attractor_pairs_log2": att.approx_cardinality().log2(), "problems": problems, "wall_s": t0.elapsed().as_secs_f64()})
}
