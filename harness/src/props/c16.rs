//! C16 — result archives reload to the sets that were written.

use super::common::*;
use crate::bridge::{Bound, Mask};
use crate::cli;
use crate::report::{guarded, Report, Violation};
use crate::sweep::label_families;
use biodivine_hctl_model_checker::analysis::analyse_formulae;
use biodivine_hctl_model_checker::generate_output::build_result_archive;
use biodivine_hctl_model_checker::load_inputs::load_bdd_bundle;
use biodivine_hctl_model_checker::mc_utils::get_extended_symbolic_graph;
use biodivine_hctl_model_checker::model_checking as mc;
use biodivine_hctl_model_checker::result_print::PrintOptions;
use biodivine_lib_param_bn::symbolic_async_graph::{GraphColoredVertices, SymbolicAsyncGraph};
use biodivine_lib_param_bn::BooleanNetwork;
use rayon::prelude::*;
use serde_json::{json, Value};
use std::collections::{BTreeSet, HashMap};
use std::panic::AssertUnwindSafe;
use std::sync::Arc;

fn var_names(g: &SymbolicAsyncGraph) -> Vec<String> {
    let vs = g.symbolic_context().bdd_variable_set();
    vs.variables().iter().map(|v| vs.name_of(*v)).collect()
}

/// Re-read `bn` through the given model format; None if the format cannot express the network
/// or does not reproduce it exactly (then the format is simply not applicable to this network).
fn through_format(bn: &BooleanNetwork, fmt: &str) -> Option<BooleanNetwork> {
    let back = match fmt {
        "aeon" => BooleanNetwork::try_from(bn.to_string().as_str()).ok()?,
        "aeon-reversed" => {
            let text = bn.to_string();
            let mut lines: Vec<&str> = text.lines().collect();
            lines.reverse();
            BooleanNetwork::try_from(lines.join("\n").as_str()).ok()?
        }
        "sbml" => BooleanNetwork::try_from_sbml(&bn.to_sbml(None)).ok()?.0,
        "bnet" => BooleanNetwork::try_from_bnet(&bn.to_bnet(false).ok()?).ok()?,
        _ => return None,
    };
    if back.to_string() == bn.to_string() {
        Some(back)
    } else {
        None
    }
}

pub struct Case {
    pub net: String,
    pub fmt: String,
    pub k: u16,
    /// label -> per-colour masks
    pub sets: Vec<(String, Vec<Mask>)>,
    pub formulas: Vec<String>,
    /// what is at the target path before the write: 0 nothing, 1 a result archive of another run (other
    /// model, other formula list, overlapping and additional labels), 2 a file that is no zip, 3 an empty file
    pub prior: u8,
}

pub fn check(b: &Bound, c: &Case) -> Result<Option<String>, String> {
    let bn_f = match through_format(&b.bn, &c.fmt) {
        Some(x) => x,
        None => return Err("format not applicable".into()),
    };
    let dir = tempfile::tempdir().map_err(|e| e.to_string())?;
    let path = dir.path().join("sub").join("res.zip");
    let path_s = path.to_str().unwrap().to_string();
    let r = guarded(AssertUnwindSafe(|| -> Option<String> {
        let g1 = match get_extended_symbolic_graph(&bn_f, c.k) {
            Ok(g) => g,
            Err(e) => return Some(format!("graph for the network read from {}: {e}", c.fmt)),
        };
        let mut written: HashMap<String, GraphColoredVertices> = c.sets.iter().map(|(l, m)| (l.clone(), b.mk_set_in(&g1, m))).collect();
        // sets that DEPEND on the spare (HCTL) variables are legitimate archive content too (intermediate results,
        // relations): one per spare set, compared as BDDs after the reload
        let mut open_labels: Vec<String> = vec![];
        if c.k >= 1 && !c.sets.is_empty() {
            let sc = g1.symbolic_context();
            let v0 = g1.variables().next().unwrap();
            for i in 0..(c.k as usize).min(2) {
                let rel = sc.mk_extra_state_variable_is_true(v0, i).iff(&sc.mk_state_variable_is_true(v0));
                let base = written.values().next().unwrap().as_bdd().clone();
                let label = format!("open_{i}");
                written.insert(label.clone(), GraphColoredVertices::new(rel.and(&base.or(&sc.mk_extra_state_variable_is_true(v0, i))), sc));
                open_labels.push(label);
            }
        }
        match c.prior {
            1 => {
                let other = BooleanNetwork::try_from("zz_old -| zz_old\n$zz_old: !zz_old\n").unwrap();
                let go = get_extended_symbolic_graph(&other, 1).unwrap();
                let mut old: HashMap<String, GraphColoredVertices> = HashMap::from([("old_only".to_string(), go.mk_unit_colored_vertices()), ("formula-0".to_string(), go.mk_empty_colored_vertices()), ("formula-7".to_string(), go.mk_unit_colored_vertices())]);
                if let Some((l, _)) = c.sets.first() {
                    old.insert(l.clone(), go.mk_unit_colored_vertices());
                }
                if let Err(e) = build_result_archive(old, &path_s, other.to_string().as_str(), vec!["OLD FORMULA 1".into(), "OLD FORMULA 2".into(), "OLD FORMULA 3".into(), "OLD FORMULA 4".into(), "OLD FORMULA 5".into()]) {
                    return Some(format!("writing the earlier archive fails: {e}"));
                }
            }
            4 => {
                // an earlier archive that is much LONGER than the one written now (200 entries)
                let other = BooleanNetwork::try_from("zz_old -| zz_old\n$zz_old: !zz_old\n").unwrap();
                let go = get_extended_symbolic_graph(&other, 1).unwrap();
                let mut old: HashMap<String, GraphColoredVertices> = (0..200).map(|i| (format!("formula-{i}"), if i % 2 == 0 { go.mk_unit_colored_vertices() } else { go.mk_empty_colored_vertices() })).collect();
                if let Some((l, _)) = c.sets.first() {
                    old.insert(l.clone(), go.mk_unit_colored_vertices());
                }
                if let Err(e) = build_result_archive(old, &path_s, other.to_string().as_str(), (0..200).map(|i| format!("OLD FORMULA {i}")).collect()) {
                    return Some(format!("writing the earlier archive fails: {e}"));
                }
            }
            5 => {
                let _ = std::fs::create_dir_all(path.parent().unwrap());
                let junk: Vec<u8> = (0..200_000u32).map(|i| (i.wrapping_mul(2654435761) >> 13) as u8).collect();
                if std::fs::write(&path, junk).is_err() {
                    return Some("cannot prepare the pre-existing file".into());
                }
            }
            2 | 3 => {
                let _ = std::fs::create_dir_all(path.parent().unwrap());
                if std::fs::write(&path, if c.prior == 2 { &b"this is not a zip archive, just a file that happens to be there\n"[..] } else { &b""[..] }).is_err() {
                    return Some("cannot prepare the pre-existing file".into());
                }
            }
            _ => {}
        }
        if let Err(e) = build_result_archive(written.clone(), &path_s, bn_f.to_string().as_str(), c.formulas.clone()) {
            return Some(format!("build_result_archive fails: {e}"));
        }
        // independent look at the archive
        let entries = match cli::read_zip(&path) {
            Ok(e) => e,
            Err(e) => return Some(format!("archive is not a readable zip: {e}")),
        };
        let names: Vec<String> = entries.iter().map(|(n, _)| n.clone()).collect();
        let mut want: BTreeSet<String> = c.sets.iter().map(|(l, _)| format!("{l}.bdd")).chain(open_labels.iter().map(|l| format!("{l}.bdd"))).collect();
        want.insert("model.aeon".into());
        want.insert("formulae.txt".into());
        let have: BTreeSet<String> = names.iter().cloned().collect();
        if have != want || names.len() != want.len() {
            return Some(format!("archive entries {names:?}, expected exactly {want:?}"));
        }
        let model = &entries.iter().find(|(n, _)| n == "model.aeon").unwrap().1;
        let flines: Vec<String> = entries.iter().find(|(n, _)| n == "formulae.txt").unwrap().1.lines().map(|s| s.to_string()).collect();
        if flines != c.formulas {
            return Some(format!("formulae.txt has lines {flines:?}, written {:?}", c.formulas));
        }
        let bn2 = match BooleanNetwork::try_from(model.as_str()) {
            Ok(b) => b,
            Err(e) => return Some(format!("archived model.aeon does not parse: {e}")),
        };
        let g2 = match get_extended_symbolic_graph(&bn2, c.k) {
            Ok(g) => g,
            Err(e) => return Some(format!("graph for the archived model: {e}")),
        };
        if var_names(&g1) != var_names(&g2) {
            return Some(format!("symbolic context of the archived model differs: {:?} vs {:?}", var_names(&g2), var_names(&g1)));
        }
        let loaded = match load_bdd_bundle(&path_s, g2.symbolic_context()) {
            Ok(l) => l,
            Err(e) => return Some(format!("load_bdd_bundle fails: {e}")),
        };
        let lk: BTreeSet<&String> = loaded.keys().collect();
        let wk: BTreeSet<&String> = written.keys().collect();
        if lk != wk {
            return Some(format!("reloaded labels {lk:?}, written {wk:?}"));
        }
        for l in &open_labels {
            if loaded[l].as_bdd() != written[l].as_bdd() {
                return Some(format!("set under label {l:?} (a set that depends on spare variable set {}) reloads as a different BDD: written {} elements, reloaded {}", &l[5..], written[l].exact_cardinality(), loaded[l].exact_cardinality()));
            }
        }
        for (l, m) in &c.sets {
            let got = &loaded[l];
            // by meaning: point-wise on every (state, valid colour) of the network, via variable names
            let bb = clone_shallow(b, &g2);
            let gm = bb.masks_of(got);
            if &gm != m {
                return Some(format!("set under label {l:?} reloads as {gm:?}, written {m:?}"));
            }
            if got.as_bdd() != written[l].as_bdd() {
                return Some(format!("set under label {l:?} reloads with the same points on valid colours but a different BDD (differs outside the valid universe or on auxiliary variables)"));
            }
        }
        // reloaded sets used as wild-card context have the same effect as the in-memory ones
        let usable: Vec<&String> = c.sets.iter().map(|(l, _)| l).filter(|l| l.chars().all(|ch| ch.is_alphanumeric() || ch == '_')).collect();
        if c.k >= 1 && !usable.is_empty() {
            let l0 = usable[0];
            let l1 = usable[usable.len() - 1];
            let v = &b.spec.vars[0];
            for text in [format!("%{l0}% & EF %{l1}%"), format!("!{{x}} in %{l1}%: AX ({{x}} | %{l0}%)"), format!("3{{x}} in %{l0}%: @{{x}}: ({v} & %{l1}%)")] {
                let r1 = mc::model_check_extended_formula_dirty(&text, &g1, &written);
                let r2 = mc::model_check_extended_formula_dirty(&text, &g2, &loaded);
                match (r1, r2) {
                    (Ok(a), Ok(b2)) => {
                        if a.as_bdd() != b2.as_bdd() {
                            return Some(format!("{text} evaluates differently with reloaded context sets"));
                        }
                    }
                    (a, b2) => return Some(format!("{text}: in-memory {:?} vs reloaded {:?}", a.map(|_| "ok"), b2.map(|_| "ok"))),
                }
            }
        }
        None
    }));
    match r {
        Ok(v) => Ok(v),
        Err(p) => Ok(Some(format!("panic: {p}"))),
    }
}

/// A `Bound` view with another graph of the same network (same variable names) for read-back.
fn clone_shallow(b: &Bound, g: &SymbolicAsyncGraph) -> Bound {
    // parameter variables are matched by name
    let src = b.graph.symbolic_context().bdd_variable_set();
    let dst = g.symbolic_context().bdd_variable_set();
    let col_vals = b.col_vals.iter().map(|cv| cv.iter().map(|(v, x)| (dst.var_by_name(&src.name_of(*v)).expect("parameter name"), *x)).collect()).collect();
    Bound { name: b.name.clone(), spec: b.spec.clone(), aeon: b.aeon.clone(), bn: b.bn.clone(), k: b.k, graph: g.clone(), n: b.n, cols: b.cols.clone(), col_vals, invalid_valuations: b.invalid_valuations }
}

/// build_initial_archive: exactly the model and the formula list, whatever was at the path before.
pub fn check_initial(b: &Bound, formulas: &[String], prior: u8) -> Option<String> {
    use biodivine_hctl_model_checker::generate_output::build_initial_archive;
    let dir = tempfile::tempdir().ok()?;
    let path = dir.path().join("sub").join("initial.zip");
    let path_s = path.to_str().unwrap().to_string();
    let r = guarded(AssertUnwindSafe(|| -> Option<String> {
        match prior {
            4 => {
                let other = BooleanNetwork::try_from("zz_old -| zz_old\n$zz_old: !zz_old\n").unwrap();
                let go = get_extended_symbolic_graph(&other, 1).unwrap();
                let old: HashMap<String, GraphColoredVertices> = (0..200).map(|i| (format!("formula-{i}"), go.mk_unit_colored_vertices())).collect();
                if let Err(e) = build_result_archive(old, &path_s, other.to_string().as_str(), (0..200).map(|i| format!("OLD FORMULA {i}")).collect()) {
                    return Some(format!("harness: writing the earlier archive fails: {e}"));
                }
            }
            5 => {
                let _ = std::fs::create_dir_all(path.parent().unwrap());
                let junk: Vec<u8> = (0..200_000u32).map(|i| (i.wrapping_mul(2654435761) >> 13) as u8).collect();
                if std::fs::write(&path, junk).is_err() {
                    return Some("harness: cannot prepare the pre-existing file".into());
                }
            }
            _ => {}
        }
        let model = b.bn.to_string();
        if let Err(e) = build_initial_archive(&path_s, &model, formulas.to_vec()) {
            return Some(format!("build_initial_archive fails: {e}"));
        }
        let entries = match cli::read_zip(&path) {
            Ok(e) => e,
            Err(e) => return Some(format!("initial archive is not a readable zip: {e}")),
        };
        let names: Vec<&str> = entries.iter().map(|(n, _)| n.as_str()).collect();
        let mut sorted = names.clone();
        sorted.sort();
        if sorted != vec!["formulae.txt", "model.aeon"] {
            return Some(format!("initial archive has entries {names:?}, expected exactly model.aeon and formulae.txt"));
        }
        let m = &entries.iter().find(|(n, _)| n == "model.aeon").unwrap().1;
        if m != &model {
            return Some("model.aeon of the initial archive differs from the model text given".into());
        }
        let lines: Vec<String> = entries.iter().find(|(n, _)| n == "formulae.txt").unwrap().1.lines().map(|l| l.to_string()).collect();
        if lines != formulas {
            return Some(format!("formulae.txt of the initial archive has lines {lines:?}, given {formulas:?}"));
        }
        let g = match get_extended_symbolic_graph(&b.bn, 1) {
            Ok(g) => g,
            Err(e) => return Some(format!("harness: {e}")),
        };
        match load_bdd_bundle(&path_s, g.symbolic_context()) {
            Ok(map) if map.is_empty() => None,
            Ok(map) => Some(format!("an archive without sets reloads with labels {:?}", map.keys().collect::<Vec<_>>())),
            Err(e) => Some(format!("load_bdd_bundle fails on the initial archive: {e}")),
        }
    }));
    match r {
        Ok(v) => v,
        Err(p) => Some(format!("panic: {p}")),
    }
}

/// analyse_formulae writes entry `formula-i` for line i of formulae.txt.
pub fn check_analysis(b: &Bound, formulas: &[String]) -> Option<String> {
    check_analysis_print(b, formulas, None)
}

/// `print`: None = analyse_formulae in process with PrintOptions::NoPrint; Some(option) = the same analysis
/// through the tool's binary with `-p <option>` (its output is captured), optionally over an existing longer
/// archive at the output path.
pub fn check_analysis_print(b: &Bound, formulas: &[String], print: Option<(&str, bool)>) -> Option<String> {
    let dir = tempfile::tempdir().ok()?;
    let path = dir.path().join("out.zip");
    let path_s = path.to_str().unwrap().to_string();
    let r = guarded(AssertUnwindSafe(|| -> Option<String> {
        match print {
            None => {
                // a single line goes through the single-formula variant of the analysis
                let r = if formulas.len() == 1 {
                    biodivine_hctl_model_checker::analysis::analyse_formula(&b.bn, formulas[0].clone(), PrintOptions::NoPrint, Some(path_s.clone()), None)
                } else {
                    analyse_formulae(&b.bn, formulas.to_vec(), PrintOptions::NoPrint, Some(path_s.clone()), None)
                };
                if let Err(e) = r {
                    return Some(format!("analyse_formulae fails: {e}"));
                }
            }
            Some((p, over_longer)) => {
                let mpath = dir.path().join("model.aeon");
                let fpath = dir.path().join("formulae.txt");
                if std::fs::write(&mpath, b.bn.to_string()).is_err() || std::fs::write(&fpath, formulas.join("\n") + "\n").is_err() {
                    return Some("harness: cannot write the input files".into());
                }
                if over_longer {
                    let other = BooleanNetwork::try_from("zz_old -| zz_old\n$zz_old: !zz_old\n").unwrap();
                    let go = get_extended_symbolic_graph(&other, 1).unwrap();
                    let old: HashMap<String, GraphColoredVertices> = (0..200).map(|i| (format!("formula-{i}"), if i % 2 == 0 { go.mk_unit_colored_vertices() } else { go.mk_empty_colored_vertices() })).collect();
                    if let Err(e) = build_result_archive(old, &path_s, other.to_string().as_str(), (0..200).map(|i| format!("OLD FORMULA {i}")).collect()) {
                        return Some(format!("harness: writing the earlier archive fails: {e}"));
                    }
                }
                match cli::run(&cli::checker_bin(), &[mpath.to_str().unwrap(), fpath.to_str().unwrap(), "-p", p, "-o", &path_s], None, 60.0) {
                    Ok(out) if out.timed_out => return Some("the tool did not finish within 60 s".into()),
                    Ok(out) if out.code != Some(0) => return Some(format!("the tool exits with {:?}: {}", out.code, crate::report::truncate(&out.stderr, 300))),
                    Ok(_) => {}
                    Err(e) => return Some(format!("harness: cannot run the tool: {e}")),
                }
            }
        }
        let entries = match cli::read_zip(&path) {
            Ok(e) => e,
            Err(e) => return Some(format!("analyse_formulae returned Ok but no readable result archive was written: {e}")),
        };
        let flines: Vec<String> = match entries.iter().find(|(n, _)| n == "formulae.txt") {
            Some(f) => f.1.lines().map(|s| s.to_string()).collect(),
            None => return Some("the analysis archive has no formulae.txt".to_string()),
        };
        if flines != formulas {
            return Some(format!("formulae.txt {flines:?} vs given {formulas:?}"));
        }
        let model = match entries.iter().find(|(n, _)| n == "model.aeon") {
            Some(m) => &m.1,
            None => return Some("the analysis archive has no model.aeon".to_string()),
        };
        let bn2 = match BooleanNetwork::try_from(model.as_str()) {
            Ok(b) => b,
            Err(e) => return Some(format!("archived model.aeon does not parse: {e}")),
        };
        // k the analysis uses: maximal number of HCTL variables over the formulae
        let mut k = 0;
        for f in formulas {
            let t = match crate::refparser::parse_str(f, false) {
                Ok(t) => t,
                Err(e) => return Some(format!("harness: case formula {f} does not parse: {e}")),
            };
            k = k.max(t.qdepth());
        }
        let g2 = match get_extended_symbolic_graph(&bn2, k as u16) {
            Ok(g) => g,
            Err(e) => return Some(format!("graph for the archived model: {e}")),
        };
        let loaded = match load_bdd_bundle(&path_s, g2.symbolic_context()) {
            Ok(l) => l,
            Err(e) => return Some(format!("load_bdd_bundle fails on the analysis archive: {e}")),
        };
        if loaded.len() != formulas.len() {
            return Some(format!("{} entries for {} formulae", loaded.len(), formulas.len()));
        }
        for (i, f) in flines.iter().enumerate() {
            let want = match mc::model_check_formula_dirty(f, &g2) {
                Ok(w) => w,
                Err(e) => return Some(format!("library cannot evaluate line {i} ({f}): {e}")),
            };
            match loaded.get(&format!("formula-{i}")) {
                Some(s) if s.as_bdd() == want.as_bdd() => {}
                Some(_) => return Some(format!("entry formula-{i} is not the result of line {i} ({f})")),
                None => return Some(format!("entry formula-{i} missing")),
            }
        }
        None
    }));
    match r {
        Ok(v) => v,
        Err(p) => Some(format!("panic: {p}")),
    }
}

/// The context archive was written for ANOTHER network with the same variables (every update function erased - the same
/// symbolic variables when the analysed network has no parameters of its own is not required: only the variable names and the
/// number of BDD variables have to match for the bundle to load): the result archive must describe the ANALYSED network - its
/// model.aeon must parse to a network whose graph has the unit set of the analysed one, and every entry must be the result on it.
pub fn check_analysis_ctx_foreign_model(b: &Bound) -> Option<String> {
    let dir = tempfile::tempdir().ok()?;
    let (cpath, opath) = (dir.path().join("ctx.zip"), dir.path().join("out.zip"));
    let v0 = b.spec.vars[0].clone();
    let formulas: Vec<String> = vec![format!("%p% & {v0}"), "EF %p%".into(), "!{x} in %p%: AX {x}".into()];
    let r = guarded(AssertUnwindSafe(|| -> Option<String> {
        let g = match get_extended_symbolic_graph(&b.bn, 1) {
            Ok(g) => g,
            Err(e) => return Some(format!("graph: {e}")),
        };
        let fams = label_families(b, 1);
        let sets: HashMap<String, GraphColoredVertices> = HashMap::from([("p".to_string(), b.mk_set_in(&g, &fams[0].1.wild[0]))]);
        // a foreign model text over the same variable names: the analysed model with its lines in reverse order and a comment line
        // (same network, other text), and - where the network has no parameters - a variant with one update function negated
        let own = b.bn.to_string();
        let mut foreign: Vec<String> = vec![format!("# written by another run\n{}", own.lines().rev().collect::<Vec<_>>().join("\n"))];
        if b.bn.num_parameters() == 0 && b.bn.num_implicit_parameters() == 0 {
            if let Some(l) = own.lines().find(|l| l.starts_with('$')) {
                let (head, body) = l.split_once(':')?;
                foreign.push(own.replace(l, &format!("{head}: !({})", body.trim())).replace(" -> ", " -?? ").replace(" -| ", " -?? ").replace(" -? ", " -?? "));
            }
        }
        for ftext in foreign {
            if let Err(e) = build_result_archive(sets.clone(), cpath.to_str().unwrap(), &ftext, vec![]) {
                return Some(format!("writing the context archive fails: {e}"));
            }
            if let Err(e) = analyse_formulae(&b.bn, formulas.clone(), PrintOptions::NoPrint, Some(opath.to_str().unwrap().to_string()), Some(cpath.to_str().unwrap().to_string())) {
                return Some(format!("analyse_formulae with a context archive that carries another model text fails: {e}"));
            }
            let entries = match cli::read_zip(&opath) {
                Ok(e) => e,
                Err(e) => return Some(format!("result archive unreadable: {e}")),
            };
            let model = match entries.iter().find(|(n, _)| n == "model.aeon") {
                Some((_, m)) => m.clone(),
                None => return Some("result archive has no model.aeon".into()),
            };
            let archived = match BooleanNetwork::try_from(model.as_str()) {
                Ok(n) => n,
                Err(e) => return Some(format!("archived model.aeon does not parse: {e}")),
            };
            if archived.to_string() != b.bn.to_string() {
                return Some(format!("the result archive carries a model.aeon that is not the analysed network (the context archive carried `{}`)", crate::report::truncate(&ftext.replace('\n', "; "), 120)));
            }
            let loaded = match load_bdd_bundle(opath.to_str().unwrap(), g.symbolic_context()) {
                Ok(l) => l,
                Err(e) => return Some(format!("load_bdd_bundle fails on the analysis archive: {e}")),
            };
            for (i, f) in formulas.iter().enumerate() {
                match (loaded.get(&format!("formula-{i}")), mc::model_check_extended_formula_dirty(f, &g, &sets)) {
                    (Some(s), Ok(w)) if s.as_bdd() == w.as_bdd() => {}
                    (Some(_), Ok(_)) => return Some(format!("line {i} ({f}): archived set differs from the evaluation on the analysed network")),
                    (None, _) => return Some(format!("entry formula-{i} missing")),
                    (_, Err(e)) => return Some(format!("in-memory evaluation of {f} fails: {e}")),
                }
            }
        }
        None
    }));
    match r {
        Ok(v) => v,
        Err(p) => Some(format!("panic: {p}")),
    }
}

/// Every formula on its own through the single-formula variant `analyse_formula`, with a context archive written for the
/// number of spare variable sets that formula needs; the context archive must be left untouched.
pub fn check_analysis_ctx_single(b: &Bound) -> Option<String> {
    let dir = tempfile::tempdir().ok()?;
    let (cpath, opath) = (dir.path().join("ctx.zip"), dir.path().join("out.zip"));
    let v0 = b.spec.vars[0].clone();
    let formulas: Vec<String> = vec!["%raw%".into(), format!("%rawa% | {v0}"), "EF %rawa%".into(), "%p% & %rawa%".into(), "!{x} in %rawa%: AX ({x} | %p%)".into(), "3{x} in %p%: !{y} in %rawa%: (@{x}: EF {y})".into()];
    let r = guarded(AssertUnwindSafe(|| -> Option<String> {
        for f in &formulas {
            let k = crate::refparser::parse_str(f, true).map(|t| t.qdepth()).unwrap_or(0) as u16;
            let g = match get_extended_symbolic_graph(&b.bn, k) {
                Ok(g) => g,
                Err(e) => return Some(format!("graph with k={k}: {e}")),
            };
            let sc = g.symbolic_context();
            let fams = label_families(b, 1);
            let sets: HashMap<String, GraphColoredVertices> = HashMap::from([
                ("raw".to_string(), GraphColoredVertices::new(sc.mk_constant(true), sc)),
                ("rawa".to_string(), GraphColoredVertices::new(sc.mk_state_variable_is_true(g.variables().next().unwrap()), sc)),
                ("p".to_string(), b.mk_set_in(&g, &fams[0].1.wild[0])),
            ]);
            if let Err(e) = build_result_archive(sets.clone(), cpath.to_str().unwrap(), b.bn.to_string().as_str(), vec![]) {
                return Some(format!("writing the context archive fails: {e}"));
            }
            if let Err(e) = biodivine_hctl_model_checker::analysis::analyse_formula(&b.bn, f.clone(), PrintOptions::NoPrint, Some(opath.to_str().unwrap().to_string()), Some(cpath.to_str().unwrap().to_string())) {
                return Some(format!("analyse_formula({f}) with a context archive fails: {e}"));
            }
            let loaded = match load_bdd_bundle(opath.to_str().unwrap(), g.symbolic_context()) {
                Ok(l) => l,
                Err(e) => return Some(format!("load_bdd_bundle fails on the archive of analyse_formula({f}): {e}")),
            };
            let want = match mc::model_check_extended_formula_dirty(f, &g, &sets) {
                Ok(w) => w,
                Err(e) => return Some(format!("in-memory evaluation of {f} fails: {e}")),
            };
            match loaded.get("formula-0") {
                Some(s) if s.as_bdd() == want.as_bdd() && loaded.len() == 1 => {}
                Some(_) => return Some(format!("analyse_formula({f}): archived formula-0 differs from the in-memory evaluation (or further entries: {:?})", loaded.keys().collect::<Vec<_>>())),
                None => return Some(format!("analyse_formula({f}): entry formula-0 missing")),
            }
            // the context archive must still be what it was
            match load_bdd_bundle(cpath.to_str().unwrap(), g.symbolic_context()) {
                Ok(c) if c.len() == sets.len() && sets.iter().all(|(l, s)| c.get(l).map(|x| x.as_bdd() == s.as_bdd()).unwrap_or(false)) => {}
                _ => return Some(format!("analyse_formula({f}): the context archive was modified by the run")),
            }
        }
        None
    }));
    match r {
        Ok(v) => v,
        Err(p) => Some(format!("panic: {p}")),
    }
}

/// Archived sets used as wild-card / domain context by `analyse_formulae` (the archive -> analysis ->
/// archive chain) have the same effect as the in-memory sets: including sets that are not confined to
/// the valid colours (whole symbolic space, a raw state variable).
/// `mode`: 0 = separate context and result archives, 1 = the result archive is written to the path of the context
/// archive (in-place update of a bundle), 2 = every formula on its own through the single-formula variant `analyse_formula`.
pub fn check_analysis_ctx(b: &Bound, mode: u8) -> Option<String> {
    if mode == 2 {
        return check_analysis_ctx_single(b);
    }
    if mode == 3 {
        return check_analysis_ctx_foreign_model(b);
    }
    let dir = tempfile::tempdir().ok()?;
    let cpath = dir.path().join("ctx.zip");
    let opath = if mode == 1 { cpath.clone() } else { dir.path().join("out.zip") };
    let v0 = b.spec.vars[0].clone();
    let formulas: Vec<String> = vec!["%raw%".into(), format!("%rawa% | {v0}"), "EF %rawa%".into(), "~ %rawa%".into(), "%p% & %rawa%".into(), "!{x} in %rawa%: AX ({x} | %p%)".into()];
    let k = 1u16;
    let r = guarded(AssertUnwindSafe(|| -> Option<String> {
        let g = match get_extended_symbolic_graph(&b.bn, k) {
            Ok(g) => g,
            Err(e) => return Some(format!("graph with k={k}: {e}")),
        };
        let sc = g.symbolic_context();
        let fams = label_families(b, 1);
        let sets: HashMap<String, GraphColoredVertices> = HashMap::from([
            ("raw".to_string(), GraphColoredVertices::new(sc.mk_constant(true), sc)),
            ("rawa".to_string(), GraphColoredVertices::new(sc.mk_state_variable_is_true(g.variables().next().unwrap()), sc)),
            ("p".to_string(), b.mk_set_in(&g, &fams[0].1.wild[0])),
        ]);
        if let Err(e) = build_result_archive(sets.clone(), cpath.to_str().unwrap(), b.bn.to_string().as_str(), vec![]) {
            return Some(format!("writing the context archive fails: {e}"));
        }
        if let Err(e) = analyse_formulae(&b.bn, formulas.clone(), PrintOptions::NoPrint, Some(opath.to_str().unwrap().to_string()), Some(cpath.to_str().unwrap().to_string())) {
            return Some(format!("analyse_formulae with a context archive{} fails: {e}", if mode == 1 { " (result archive written to the same path)" } else { "" }));
        }
        let loaded = match load_bdd_bundle(opath.to_str().unwrap(), g.symbolic_context()) {
            Ok(l) => l,
            Err(e) => return Some(format!("load_bdd_bundle fails on the analysis archive: {e}")),
        };
        for (i, f) in formulas.iter().enumerate() {
            let want = match mc::model_check_extended_formula_dirty(f, &g, &sets) {
                Ok(w) => w,
                Err(e) => return Some(format!("in-memory evaluation of {f} fails: {e}")),
            };
            match loaded.get(&format!("formula-{i}")) {
                Some(s) if s.as_bdd() == want.as_bdd() => {}
                Some(s) => return Some(format!("line {i} ({f}): through the archives {} elements, with the in-memory sets {}", s.exact_cardinality(), want.exact_cardinality())),
                None => return Some(format!("entry formula-{i} missing")),
            }
        }
        None
    }));
    match r {
        Ok(v) => v,
        Err(p) => Some(format!("panic: {p}")),
    }
}

/// A set whose serialised BDD is large (about 2^13 nodes, > 100 KB of text) must round-trip too.
pub fn check_large() -> Result<Option<String>, String> {
    use biodivine_lib_param_bn::biodivine_std::traits::Set;
    let big = crate::bigmodels::load("synthetic:pairs13", 1)?;
    let g = &big.graph;
    let vars: Vec<_> = g.variables().collect();
    let mut set = g.mk_empty_colored_vertices();
    for i in 0..13 {
        set = set.union(&g.fix_network_variable(vars[i], true).intersect(&g.fix_network_variable(vars[13 + i], true)));
    }
    let nodes = set.as_bdd().size();
    if nodes < 8000 {
        return Err(format!("large-set construction only has {nodes} nodes"));
    }
    let dir = tempfile::tempdir().map_err(|e| e.to_string())?;
    let path = dir.path().join("big.zip");
    let path_s = path.to_str().unwrap().to_string();
    let compl = g.mk_unit_colored_vertices().minus(&set);
    let written: HashMap<String, GraphColoredVertices> = HashMap::from([("many".to_string(), set.clone()), ("unit".to_string(), g.mk_unit_colored_vertices()), ("complement".to_string(), compl)]);
    let r = guarded(AssertUnwindSafe(|| -> Option<String> {
        if let Err(e) = build_result_archive(written.clone(), &path_s, big.bn.to_string().as_str(), vec!["True".to_string()]) {
            return Some(format!("build_result_archive fails on a large set: {e}"));
        }
        let loaded = match load_bdd_bundle(&path_s, g.symbolic_context()) {
            Ok(l) => l,
            Err(e) => return Some(format!("load_bdd_bundle fails on a large set: {e}")),
        };
        for (l, w) in &written {
            match loaded.get(l) {
                Some(s) if s.as_bdd() == w.as_bdd() => {}
                Some(s) => return Some(format!("large set `{l}` ({} BDD nodes written) reloads as a different set ({} nodes)", w.as_bdd().size(), s.as_bdd().size())),
                None => return Some(format!("large set `{l}` missing after reload")),
            }
        }
        None
    }));
    match r {
        Ok(v) => Ok(v),
        Err(p) => Ok(Some(format!("panic while round-tripping a large set: {p}"))),
    }
}

pub fn replay(case: &Value) -> Option<String> {
    if case.get("large").is_some() {
        return check_large().ok().flatten();
    }
    let spec = serde_json::from_value(case["net"].clone()).ok()?;
    let b = Bound::new("replay", &spec, 0).ok()?;
    if case.get("analysis_ctx").is_some() {
        return check_analysis_ctx(&b, case["mode"].as_u64().unwrap_or(0) as u8);
    }
    if let Some(fs) = case.get("initial") {
        let fs: Vec<String> = serde_json::from_value(fs.clone()).ok()?;
        return check_initial(&b, &fs, case["prior"].as_u64().unwrap_or(0) as u8);
    }
    if let Some(fs) = case.get("analysis") {
        let fs: Vec<String> = serde_json::from_value(fs.clone()).ok()?;
        if let Some(p) = case.get("print").and_then(|p| p.as_str()) {
            return check_analysis_print(&b, &fs, Some((p, case["over_longer"].as_bool().unwrap_or(false))));
        }
        return check_analysis(&b, &fs);
    }
    let c = Case {
        net: "replay".into(),
        fmt: case["fmt"].as_str()?.to_string(),
        k: case["k"].as_u64()? as u16,
        sets: serde_json::from_value(case["sets"].clone()).ok()?,
        formulas: serde_json::from_value(case["formulas"].clone()).ok()?,
        prior: case["prior"].as_u64().unwrap_or(0) as u8,
    };
    check(&b, &c).ok().flatten()
}

pub fn run(tier: &str) -> Result<Report, String> {
    let mut rep = Report::new("C16", tier, "exploration");
    let nets = core_nets(0)?;
    let which = ["tog2", "con2", "unf2", "inp2", "zer2", "shr3"];
    let thorough = tier != "quick";
    let ks: Vec<u16> = if thorough { vec![0, 1, 2, 3, 4, 6] } else { vec![0, 1, 2, 3] };
    // round trips (thorough): every core network, the networks with unusual names, the networks that are unusual as data and the
    // ones declared in a non-lexicographic order (at most 64 colours, so that a set is a short list of masks)
    let mut rt_nets: Vec<Arc<Bound>> = nets.iter().filter(|b| which.contains(&b.name.as_str())).cloned().collect();
    if thorough {
        rt_nets.extend(nets.iter().filter(|b| !which.contains(&b.name.as_str())).cloned());
        rt_nets.extend(name_nets(0)?);
        rt_nets.extend(edge_nets(0)?);
        rt_nets.extend(decl_nets(0)?);
        rt_nets.retain(|b| b.cols.len() <= 64);
    }
    rep.set("round_trip_networks", json!(rt_nets.iter().map(|b| b.name.clone()).collect::<Vec<_>>()));
    let formula_lists: Vec<Vec<String>> = vec![
        vec![],
        vec!["!{x}: AG EF {x}".into()],
        vec!["a & b".into(), "  EF a".into(), "# not a comment here".into()],
        vec!["3{x}: @{x}: AX {x}".into(), "True".into(), "!{x}: !{y}: ({x} & AX {y})".into()],
    ];
    let mut cases: Vec<(Arc<Bound>, Case)> = vec![];
    let mut not_applicable = 0u64;
    for b in rt_nets.iter() {
        let fams = label_families(b, 8);
        let unit: Vec<Mask> = vec![crate::bridge::full_mask(b.n); b.cols.len()];
        let empty: Vec<Mask> = vec![0; b.cols.len()];
        let fam_sets: Vec<Vec<Mask>> = fams.iter().flat_map(|(_, l)| vec![l.wild[0].clone(), l.dom[0].clone(), l.dom[1].clone()]).collect();
        // results of a few formulae as sets
        let g0 = &b.graph;
        let mut results = vec![];
        for t in ["EF a", "AG EF a", "~ a"] {
            if let Ok(s) = mc::model_check_formula_dirty(t, g0) {
                results.push(b.masks_of(&s));
            }
        }
        let maps: Vec<Vec<(String, Vec<Mask>)>> = vec![
            vec![],
            vec![("formula-0".into(), empty.clone())],
            vec![("formula-0".into(), unit.clone()), ("a".into(), fam_sets[0].clone())],
            vec![("a".into(), fam_sets[0].clone()), ("x_1".into(), fam_sets[1].clone()), ("A.b".into(), fam_sets[2].clone()), ("formula-0".into(), results.first().cloned().unwrap_or(empty.clone()))],
            vec![("run.2.fixed".into(), fam_sets[1].clone()), ("dom 1".into(), fam_sets[0].clone()), ("x-y".into(), unit.clone()), ("é_2".into(), fam_sets[2].clone()), ("BDD".into(), empty.clone()), ("a.bdd".into(), fam_sets[0].clone())],
            vec![("p".into(), fam_sets[0].clone()), ("zz/p".into(), fam_sets[1].clone()), ("0/p".into(), fam_sets[2].clone()), ("dir/sub/q".into(), unit.clone())],
            fam_sets.iter().enumerate().map(|(i, s)| (format!("s{i}"), s.clone())).chain(results.iter().enumerate().map(|(i, s)| (format!("formula-{i}"), s.clone()))).collect(),
            // labels that look like the archive's own metadata entries / like reserved words
            vec![("model".into(), fam_sets[0].clone()), ("formulae".into(), fam_sets[1].clone()), ("model.aeon".into(), fam_sets[2].clone()), ("formulae.txt".into(), unit.clone()), ("sub/model".into(), fam_sets[1].clone()), ("True".into(), fam_sets[0].clone()), ("in".into(), empty.clone())],
            // 70 labels (more entries than any small-collection threshold), names that sort differently as strings and as numbers
            (0..70).map(|i| (format!("formula-{i}"), if i % 5 == 4 { empty.clone() } else if i % 5 == 3 { unit.clone() } else { fam_sets[i % 3].clone() })).collect(),
        ];
        for fmt in ["aeon", "aeon-reversed", "sbml", "bnet"] {
            if through_format(&b.bn, fmt).is_none() {
                not_applicable += 1;
                continue;
            }
            for &k in &ks {
                for (mi, m) in maps.iter().enumerate() {
                    for (fi, fl) in formula_lists.iter().enumerate() {
                        cases.push((b.clone(), Case { net: b.name.clone(), fmt: fmt.to_string(), k, sets: m.clone(), formulas: fl.clone(), prior: 0 }));
                        // histories of the target path: the same write over an earlier archive / a non-zip file / an empty file
                        if fmt == "aeon" || (thorough && (mi + fi) % 2 == 0) {
                            for prior in 1..=5u8 {
                                cases.push((b.clone(), Case { net: b.name.clone(), fmt: fmt.to_string(), k, sets: m.clone(), formulas: fl.clone(), prior }));
                            }
                        }
                    }
                }
            }
        }
    }
    let res: Vec<Option<Violation>> = cases
        .par_iter()
        .map(|(b, c)| match check(b, c) {
            Ok(Some(w)) => Some(Violation {
                case: json!({"kind": "archive", "net": b.spec, "aeon": b.aeon, "fmt": c.fmt, "k": c.k, "sets": c.sets, "formulas": c.formulas, "prior": c.prior}),
                what: format!("network {} via {} with k={}{}, labels {:?}, {} formula lines: {w}", c.net, c.fmt, c.k, ["", ", written over an earlier result archive at the same path", ", written over a non-zip file", ", written over an empty file", ", written over a much longer earlier result archive (200 entries)", ", written over a 200 kB non-zip file"][c.prior as usize], c.sets.iter().map(|s| &s.0).collect::<Vec<_>>(), c.formulas.len()),
                size: c.sets.len() + c.formulas.len(),
            }),
            _ => None,
        })
        .collect();
    rep.evaluations += cases.len() as u64;
    rep.distinct_nontrivial += cases.iter().filter(|(_, c)| !c.sets.is_empty()).count() as u64;
    rep.set("round_trip_cases", json!(cases.len()));
    rep.set("network_format_pairs_not_expressible", json!(not_applicable));
    rep.violations.extend(res.into_iter().flatten().take(60));
    // a large set (serialised BDD > 100 KB)
    rep.evaluations += 1;
    if let Some(w) = check_large()? {
        rep.violations.push(Violation { case: json!({"kind": "archive", "large": true, "net": nets[0].spec}), what: w, size: 1 });
    }
    rep.set("large_set_round_trip", json!("OR_i (a_i & b_i) over 13 pairs of a 26-variable network (about 2^13 BDD nodes), its complement and the unit set"));
    // analysis archives: entry formula-i <-> line i
    let alists: Vec<Vec<String>> = vec![
        vec![],
        vec!["EF a".into()],
        vec!["!{x}: AX {x}".into(), "a".into(), "!{x}: AG EF {x}".into()],
        vec!["a".into(), "a".into(), "~ a".into()],
        vec!["3{x}: 3{y}: (@{x}: ~{y} & AX {x}) & (@{y}: AX {y})".into(), "AG a".into()],
        // more than 10 (and more than 20) different formulae: entry names formula-10.. sort differently as strings and as numbers
        (0..12).map(|i| format!("{} {}", ["~", "EX", "AX", "EF", "AF", "EG", "AG"][i % 7], ["a", "b", "(a & b)", "(EF a)", "(~ b)"][(i / 3) % 5])).collect(),
        (0..25).map(|i| format!("{} ({} {})", ["EF", "AG", "~", "EX"][i % 4], ["a", "b", "(a | b)", "(a EU b)", "(AX a)"][(i / 2) % 5], ["& a", "| b", "^ b", "=> a", "& ~ a"][(i / 5) % 5])).collect(),
    ];
    for b in nets.iter().filter(|b| which.contains(&b.name.as_str())) {
        for l in &alists {
            rep.evaluations += 1;
            if let Some(w) = check_analysis(b, l) {
                rep.violations.push(Violation { case: json!({"kind": "archive", "net": b.spec, "analysis": l}), what: format!("analyse_formulae archive on {} for {l:?}: {w}", b.name), size: l.len() });
            }
            // the same analysis through the tool under every print option, on a fresh path and over a longer archive
            for p in ["no-print", "summary", "with-progress", "exhaustive"] {
                for over in [false, true] {
                    if l.is_empty() {
                        continue;
                    }
                    rep.evaluations += 1;
                    if let Some(w) = check_analysis_print(b, l, Some((p, over))) {
                        rep.violations.push(Violation { case: json!({"kind": "archive", "net": b.spec, "analysis": l, "print": p, "over_longer": over}), what: format!("result archive of the tool (-p {p}{}) on {} for {l:?}: {w}", if over { ", output path holds a longer earlier archive" } else { "" }, b.name), size: l.len() + 1 });
                    }
                }
            }
        }
    }
    // a list with a formula that PARSES but cannot be validated against the network (unknown proposition, free variable) between
    // valid ones: either an error and no new archive, or - if the analysis reports success - an archive in which entry formula-i is
    // the result of line i of the archived formulae.txt for every line
    for b in nets.iter().filter(|b| which.contains(&b.name.as_str())) {
        for bad_line in ["AG (zz_unknown | a)", "AX {x}", "3{x}: @{y}: a"] {
            for pos in 0..3usize {
                let mut l: Vec<String> = vec!["EF a".into(), "AG ~a".into()];
                l.insert(pos, bad_line.to_string());
                rep.evaluations += 1;
                let dir = tempfile::tempdir().map_err(|e| e.to_string())?;
                let path = dir.path().join("out.zip");
                let r = guarded(AssertUnwindSafe(|| analyse_formulae(&b.bn, l.clone(), PrintOptions::NoPrint, Some(path.to_str().unwrap().to_string()), None)));
                let what = match r {
                    Err(p) => Some(format!("panic: {p}")),
                    Ok(Err(_)) => {
                        if path.exists() && cli::read_zip(&path).map(|e| e.iter().any(|(n, _)| n.starts_with("formula-"))).unwrap_or(false) {
                            Some("the analysis fails but leaves a result archive with result entries behind".to_string())
                        } else {
                            None
                        }
                    }
                    Ok(Ok(())) => match cli::read_zip(&path) {
                        Err(e) => Some(format!("the analysis reports success but the archive is unreadable: {e}")),
                        Ok(entries) => {
                            let lines: Vec<String> = entries.iter().find(|(n, _)| n == "formulae.txt").map(|(_, t)| t.lines().map(|s| s.to_string()).collect()).unwrap_or_default();
                            let n_sets = entries.iter().filter(|(n, _)| n.starts_with("formula-")).count();
                            if n_sets != lines.len() {
                                Some(format!("the analysis reports success for a list with a formula that cannot be validated: {} result entries for {} archived formula lines", n_sets, lines.len()))
                            } else {
                                None
                            }
                        }
                    },
                };
                if let Some(w) = what {
                    rep.violations.push(Violation { case: json!({"kind": "none"}), what: format!("analyse_formulae on {} for {l:?}: {w}", b.name), size: 5 });
                }
            }
        }
    }
    // initial archives (model + formula list only)
    for b in nets.iter().filter(|b| which.contains(&b.name.as_str())) {
        for l in &alists {
            for prior in [0u8, 4, 5] {
                rep.evaluations += 1;
                if let Some(w) = check_initial(b, l, prior) {
                    rep.violations.push(Violation { case: json!({"kind": "archive", "net": b.spec, "initial": l, "prior": prior}), what: format!("build_initial_archive on {} for {l:?} (history of the path: {prior}): {w}", b.name), size: l.len() });
                }
            }
        }
    }
    // the archive -> analysis -> archive chain with context sets inside and outside the valid colours
    for b in nets.iter().filter(|b| which.contains(&b.name.as_str())) {
        for mode in 0..4u8 {
            rep.evaluations += 1;
            if let Some(w) = check_analysis_ctx(b, mode) {
                rep.violations.push(Violation { case: json!({"kind": "archive", "net": b.spec, "analysis_ctx": true, "mode": mode}), what: format!("analyse_formulae with a context archive on {} (mode {mode}: 0 separate paths, 1 result written over the context archive, 2 single-formula variant, 3 context archive carrying another model text): {w}", b.name), size: 6 });
            }
        }
    }
    rep.sample(json!({"network": "con2", "format": "sbml", "k": 2, "labels": ["a", "x_1", "A.b", "formula-0"], "formulae_lines": 3}));
    rep.rule = format!("networks {which:?} x input format (aeon, aeon with reversed line order, sbml, bnet where the format reproduces the network exactly) x k in {ks:?} x 9 label->set maps (labels model, formulae, model.aeon, formulae.txt, sub/model, True, in; a map with 70 labels formula-0..formula-69; empty map, empty set, unit set, colour-dependent/empty-for-some-colours/colour-disjoint family sets, raw results; labels formula-0, a, x_1, A.b, run.2.fixed, 'dom 1', x-y, é_2, BDD, a.bdd, nested labels zz/p 0/p dir/sub/q next to p, s0..) x 4 formula lists (0-3 lines) x (aeon) 6 histories of the target path (fresh, an earlier result archive of another model with other formulae and overlapping + additional labels, a non-zip file, an empty file, a much longer earlier archive with 200 entries, a 200 kB non-zip file): build_result_archive -> independent unzip (entry list exact, formulae.txt lines) -> model.aeon re-parsed, symbolic context compared by variable names -> load_bdd_bundle (for k >= 1 the map also holds sets that depend on the spare variable sets, compared as BDDs) -> every set compared point-wise on all (state, valid colour) pairs and as BDD -> reloaded sets used as wild-card/domain context of three extended formulae; plus build_initial_archive (exactly model.aeon and formulae.txt, on a fresh path and over a longer archive / file); plus analyse_formulae / analyse_formula archives (in process, and through the tool under each of the four print options, on a fresh output path and over a much longer earlier archive): entry formula-i equals the result of line i; plus the chain context archive -> analyse_formulae -> result archive with context sets inside and outside the valid colours (whole symbolic space, raw state variable) vs evaluation with the in-memory sets (also with the result archive written to the path of the context archive, and formula by formula through analyse_formula with the context archive left untouched). distinct_nontrivial = round-trip cases with at least one set");
    Ok(rep)
}
