//! C13 — EW and AW are weak until.

use super::common::*;
use crate::formulas::{Alphabet, Bi, Gen, ALL_BI};
use crate::oracle::Labels;
use crate::report::Report;
use crate::sem::{self, Checks, Entries};
use crate::sweep::NetCtx;
use serde_json::json;

pub fn run(tier: &str) -> Result<Report, String> {
    let mut rep = Report::new("C13", tier, "model_checking");
    std_assumptions(&mut rep);
    let nets = core_nets(3)?;
    let m = if tier == "quick" { 5 } else { 6 };
    let mut slices = vec![];
    for b in &nets {
        // quick: node bound 5 on the networks with at most two variables and on cyc3, node bound 4 on the other three-variable ones
        let m = if tier == "quick" && b.n > 2 && b.name != "cyc3" { 4 } else { m };
        sem::note_network(&mut rep, b);
        let ctx = NetCtx::new(b.clone(), Labels::default(), "none");
        let mut alpha = Alphabet::plain(ctx.nprops(), 2);
        alpha.bi = ALL_BI.to_vec();
        // both literal constants (a literal False operand is a shape of its own: `a EW False` = EG a)
        alpha.consts = vec![true, false];
        let mut g = Gen::new(alpha.clone());
        let fs: Vec<_> = g.closed_up_to(m).into_iter().filter(|f| f.has_op_bi(Bi::EW) || f.has_op_bi(Bi::AW)).collect();
        // shapes beyond the node bound: EW / AW inside sub-formulae that occur twice up to renaming
        // (one and two free variables, mirrored roles, different depths)
        let mut fs = fs;
        for w in ["EW", "AW"] {
            for t in [
                "3{x}: 3{y}: ((@{x}: (~{y} & (a OP {y}))) & (@{y}: (~{x} & (a OP {x}))))",
                "!{x}: 3{y}: ((@{x}: (a OP {y})) & (@{y}: (a OP {x})))",
                "3{x}: 3{y}: ((@{x}: ({y} OP a)) | (@{y}: ({x} OP a)))",
                "!{x}: ((3{y}: ({x} OP {y})) & (3{y}: ({y} OP {x})))",
                "!{x}: 3{y}: (({x} OP {y}) & ({y} OP {x}))",
                "(!{x}: (a OP {x})) & (!{y}: (a OP {y}))",
                "3{x}: ((@{x}: (!{y}: (a OP {y}))) & (3{y}: (@{y}: (!{z}: (a OP {z})))))",
                "!{x}: ((a OP {x}) & (3{y}: (@{y}: (a OP {y}))))",
                "V{x}: V{y}: ((@{x}: ({x} OP {y})) | (@{y}: ({y} OP {x})))",
            ] {
                fs.push(crate::formulas::f(&t.replace("OP", w), &ctx.user));
            }
        }
        // EW and AW (and EU / AU) over the SAME operands in one formula
        for t in [
            "(a EW (EX a)) & ~ (a AW (EX a))",
            "((~ a) AW (AX a)) | ((~ a) EW (AX a))",
            "!{x}: (((~ {x}) EW a) & ~ ((~ {x}) AW a))",
            "!{x}: ((({x} | a) AW (EX {x})) ^ (({x} | a) EW (EX {x})))",
            "((EF a) EW a) & ((EF a) AW a) & ((EF a) EU a) & ((EF a) AU a)",
            "3{x}: @{x}: ((a AW {x}) & ~ (a EW {x}))",
        ] {
            fs.push(crate::formulas::f(t, &ctx.user));
        }
        if rep.samples.len() < 5 {
            let f = &fs[fs.len() / 2];
            rep.sample(json!({"network": b.name, "formula": f.show(&ctx.user), "expected_states_per_colour": ctx.expected(f).iter().map(|m| format!("{m:b}")).collect::<Vec<_>>()}));
        }
        sem::sweep(&mut rep, &ctx, &fs, Checks { semantic: true, unit: false, entries: Entries::PlainDirty });
        slices.push(json!({"network": b.name, "max_nodes": m, "alphabet": alpha.describe(), "formulae_with_EW_or_AW": fs.len()}));
    }
    // every pair of coloured sets as arguments of EW / AW, and the defining equivalences
    let forms = ["%p% EW %q%", "%p% AW %q%", "(%p% EU %q%) | EG %p%", "~ ((~ %q%) EU ((~ %p%) & (~ %q%)))", "%q% => (%p% EW %q%)", "%q% => (%p% AW %q%)", "EX (%p% AW %q%)", "(%p% EW %q%) AW %p%", "(%p% EW %q%) & ~ (%p% AW %q%)", "(%p% AW %q%) => (%p% EW %q%)", "(%p% AW %q%) ^ (%p% EW %q%)", "(%p% AU %q%) | ((%p% AW %q%) & ~ (%p% EW %q%))"];
    let ck = Checks { semantic: true, unit: false, entries: Entries::Ext2 };
    for name in if tier == "quick" { vec!["tog2"] } else { vec!["tog2", "imp1", "con2"] } {
        let b = by_name(&nets, name);
        sem::ops_sweep(&mut rep, &b, &forms, true, ck);
    }
    // wide models (more than 2^53 states, so that a size-based comparison cannot see a step that adds a handful of
    // states): weak until on arguments made of two / three consecutive states of a deterministic chain, against the
    // defining equivalences and against closed forms; one child process per (model, case)
    {
        use rayon::prelude::*;
        let models = ["synthetic:chain60", "synthetic:chain70", "synthetic:chain58p"];
        let jobs: Vec<serde_json::Value> = models.iter().flat_map(|m| (0..WIDE_CASES).map(move |c| json!({"kind": "c13big", "model": m, "case": c}))).collect();
        let limit = if tier == "quick" { 40.0 } else { 600.0 };
        let results: Vec<(serde_json::Value, crate::jobs::JobResult)> = jobs.par_iter().map(|j| (j.clone(), crate::jobs::run(j, limit))).collect();
        let mut wide = vec![];
        for (j, r) in results {
            match r {
                crate::jobs::JobResult::Done(v) => {
                    if let Some(e) = v.get("error") {
                        return Err(format!("wide model job {j}: {e}"));
                    }
                    rep.evaluations += v["evaluations"].as_u64().unwrap_or(0);
                    rep.add_count("wide_model_cases", 1);
                    for p in v["problems"].as_array().cloned().unwrap_or_default() {
                        rep.violations.push(crate::report::Violation { case: j.clone(), what: format!("on {} ({}): {}", j["model"].as_str().unwrap_or(""), v["describe"].as_str().unwrap_or(""), p.as_str().unwrap_or("")), size: 50 });
                    }
                    wide.push(json!({"model": j["model"], "case": v["describe"], "bdd_variables": v["bdd_variables"]}));
                }
                crate::jobs::JobResult::Timeout => rep.cap(format!("job {j} exceeded {limit}s and was stopped (no verdict)")),
                crate::jobs::JobResult::Crashed(e) => return Err(format!("wide model job {j} crashed: {e}")),
            }
        }
        rep.set("wide_models", json!(wide));
    }
    rep.set("slices", json!(slices));
    rep.rule = "all closed formulae up to max_nodes nodes over all operators that contain EW or AW, plus 6 formulae with EW and AW over the same operands and 18 template formulae in which EW / AW sub-formulae occur twice up to renaming (one / two free variables, mirrored roles, different depths), on the core networks, compared point-wise with the oracle's E[a W b] = E[a U b] or EG a and A[a W b] = not E[not b U (not a and not b)]; plus EW/AW (and their defining right-hand sides) on every pair of coloured sets of tiny networks as wild-card arguments; plus, on shift registers with 58..70 variables (more than 2^53 states; child processes), EW / AW on arguments made of two or three consecutive states of the deterministic chain (with an empty target, the next state as target, a far state as target, the complement as first argument) against the defining equivalences and closed forms".into();
    Ok(rep)
}

pub const WIDE_CASES: usize = 6;

/// Child job: weak until on a shift register `x00 -> x01 -> ...` (x00 frozen) with more than 2^53 states. The state
/// `prefix(k)` (x00..xk true, the rest false) has exactly one successor, `prefix(k+1)`; arguments are built from a few such states.
pub fn job(job: &serde_json::Value) -> serde_json::Value {
    use biodivine_hctl_model_checker::model_checking as mc;
    use biodivine_lib_param_bn::biodivine_std::traits::Set;
    use biodivine_lib_param_bn::symbolic_async_graph::GraphColoredVertices;
    use std::collections::HashMap;
    let model = job["model"].as_str().unwrap_or("");
    let case = job["case"].as_u64().unwrap_or(0) as usize;
    let big = match crate::bigmodels::load(model, 0) {
        Ok(b) => b,
        Err(e) => return json!({"error": e}),
    };
    let g = &big.graph;
    let vars: Vec<_> = g.variables().collect();
    let n = vars.len();
    // on chain58p the last variable has an unknown update function: stay away from it
    let prefix = |k: usize| -> GraphColoredVertices {
        let vals: Vec<_> = vars.iter().enumerate().map(|(i, v)| (*v, i <= k)).collect();
        g.mk_subspace(&vals)
    };
    let empty = g.mk_empty_colored_vertices();
    let unit = g.mk_unit_colored_vertices();
    let k = 20usize;
    assert!(k + 6 < n - 1);
    // (description, p, q, closed form of `p EW q`, closed form of `p AW q`)
    let two = prefix(k).union(&prefix(k + 1));
    let three = two.union(&prefix(k + 2));
    let (describe, p, q, ew, aw): (&str, GraphColoredVertices, GraphColoredVertices, Option<GraphColoredVertices>, Option<GraphColoredVertices>) = match case {
        0 => ("p = two consecutive chain states, q empty", two.clone(), empty.clone(), Some(empty.clone()), Some(empty.clone())),
        1 => ("p = three consecutive chain states, q empty", three.clone(), empty.clone(), Some(empty.clone()), Some(empty.clone())),
        2 => ("p = two consecutive chain states, q = the next one", two.clone(), prefix(k + 2), Some(three.clone()), Some(three.clone())),
        3 => ("p = three consecutive chain states, q = a state two steps further", three.clone(), prefix(k + 4), Some(prefix(k + 4)), Some(prefix(k + 4))),
        4 => ("p = everything but two consecutive chain states, q empty", unit.minus(&two), empty.clone(), None, None),
        _ => ("p = three consecutive chain states, q = everything but five chain states", three.clone(), unit.minus(&three.union(&prefix(k + 3)).union(&prefix(k + 4))), None, None),
    };
    // with an unknown update function of the last variable a chain state has a second successor in some colours: the
    // universal closed forms hold on the fully specified registers only
    let aw = if model.ends_with('p') { None } else { aw };
    let ctx: HashMap<String, GraphColoredVertices> = HashMap::from([("p".to_string(), p.clone()), ("q".to_string(), q.clone())]);
    let mut problems: Vec<String> = vec![];
    let mut evaluations = 0u64;
    let mut eval = |t: &str| -> Option<GraphColoredVertices> {
        evaluations += 1;
        match crate::report::guarded(std::panic::AssertUnwindSafe(|| mc::model_check_extended_formula_dirty(t, g, &ctx))) {
            Ok(Ok(s)) => Some(s),
            Ok(Err(e)) => {
                problems.push(format!("{t}: Err({e})"));
                None
            }
            Err(pn) => {
                problems.push(format!("{t}: panic({pn})"));
                None
            }
        }
    };
    let got_ew = eval("%p% EW %q%");
    let got_aw = eval("%p% AW %q%");
    let def_ew = eval("(%p% EU %q%) | EG %p%");
    let def_aw = eval("~ ((~ %q%) EU ((~ %p%) & (~ %q%)))");
    let dual_ew = eval("~ ((~ %q%) AU ((~ %p%) & (~ %q%)))");
    let au_or_ag = eval("(%p% AU %q%) | AG %p%");
    let mut cmp = |what: &str, a: &Option<GraphColoredVertices>, b: &Option<GraphColoredVertices>| {
        if let (Some(a), Some(b)) = (a, b) {
            if a != b {
                let (x, y) = (a.minus(b), b.minus(a));
                problems.push(format!("{what}: the two sets differ (only in the first: {} elements, only in the second: {})", x.exact_cardinality(), y.exact_cardinality()));
            }
        }
    };
    cmp("`p EW q` vs `(p EU q) | EG p`", &got_ew, &def_ew);
    cmp("`p AW q` vs `~((~q) EU (~p & ~q))`", &got_aw, &def_aw);
    cmp("`p EW q` vs `~((~q) AU (~p & ~q))`", &got_ew, &dual_ew);
    cmp("`p EW q` vs its closed form", &got_ew, &ew);
    cmp("`p AW q` vs its closed form", &got_aw, &aw);
    // on a deterministic chain A[p U q] | AG p is included in A[p W q] (and equals it where every state has one successor)
    if let (Some(a), Some(b)) = (&au_or_ag, &got_aw) {
        if !a.is_subset(b) {
            problems.push("`(p AU q) | AG p` is not included in `p AW q`".to_string());
        }
    }
    if let (Some(a), Some(b)) = (&got_aw, &got_ew) {
        if !a.is_subset(b) {
            problems.push("`p AW q` is not included in `p EW q`".to_string());
        }
    }
    json!({"describe": describe, "problems": problems, "evaluations": evaluations, "bdd_variables": g.symbolic_context().bdd_variable_set().num_vars()})
}

pub fn replay_big(case: &serde_json::Value) -> Option<String> {
    let v = job(case);
    if let Some(e) = v.get("error") {
        return Some(format!("job error: {e}"));
    }
    let p = v["problems"].as_array()?;
    if p.is_empty() {
        None
    } else {
        Some(p.iter().filter_map(|x| x.as_str()).collect::<Vec<_>>().join(" | "))
    }
}
