//! C13 — EW and AW are weak until.

use super::common::*;
use crate::formulas::{Alphabet, Bi, Gen, ALL_BI};
use crate::oracle::Labels;
use crate::report::Report;
use crate::sem::{self, Checks, Entries};
use crate::sweep::NetCtx;
use serde_json::json;

pub fn run(tier: &str) -> Result<Report, String> {
    let mut rep = Report::new("C13", tier, "model_checking");
    std_assumptions(&mut rep);
    let nets = core_nets(3)?;
    let m = if tier == "quick" { 5 } else { 6 };
    let mut slices = vec![];
    for b in &nets {
        if tier == "quick" && b.n > 2 && b.name != "cyc3" {
            continue;
        }
        sem::note_network(&mut rep, b);
        let ctx = NetCtx::new(b.clone(), Labels::default(), "none");
        let mut alpha = Alphabet::plain(ctx.nprops(), 2);
        alpha.bi = ALL_BI.to_vec();
        // both literal constants (a literal False operand is a shape of its own: `a EW False` = EG a)
        alpha.consts = vec![true, false];
        let mut g = Gen::new(alpha.clone());
        let fs: Vec<_> = g.closed_up_to(m).into_iter().filter(|f| f.has_op_bi(Bi::EW) || f.has_op_bi(Bi::AW)).collect();
        // shapes beyond the node bound: EW / AW inside sub-formulae that occur twice up to renaming
        // (one and two free variables, mirrored roles, different depths)
        let mut fs = fs;
        for w in ["EW", "AW"] {
            for t in [
                "3{x}: 3{y}: ((@{x}: (~{y} & (a OP {y}))) & (@{y}: (~{x} & (a OP {x}))))",
                "!{x}: 3{y}: ((@{x}: (a OP {y})) & (@{y}: (a OP {x})))",
                "3{x}: 3{y}: ((@{x}: ({y} OP a)) | (@{y}: ({x} OP a)))",
                "!{x}: ((3{y}: ({x} OP {y})) & (3{y}: ({y} OP {x})))",
                "!{x}: 3{y}: (({x} OP {y}) & ({y} OP {x}))",
                "(!{x}: (a OP {x})) & (!{y}: (a OP {y}))",
                "3{x}: ((@{x}: (!{y}: (a OP {y}))) & (3{y}: (@{y}: (!{z}: (a OP {z})))))",
                "!{x}: ((a OP {x}) & (3{y}: (@{y}: (a OP {y}))))",
                "V{x}: V{y}: ((@{x}: ({x} OP {y})) | (@{y}: ({y} OP {x})))",
            ] {
                fs.push(crate::formulas::f(&t.replace("OP", w), &ctx.user));
            }
        }
        // EW and AW (and EU / AU) over the SAME operands in one formula
        for t in [
            "(a EW (EX a)) & ~ (a AW (EX a))",
            "((~ a) AW (AX a)) | ((~ a) EW (AX a))",
            "!{x}: (((~ {x}) EW a) & ~ ((~ {x}) AW a))",
            "!{x}: ((({x} | a) AW (EX {x})) ^ (({x} | a) EW (EX {x})))",
            "((EF a) EW a) & ((EF a) AW a) & ((EF a) EU a) & ((EF a) AU a)",
            "3{x}: @{x}: ((a AW {x}) & ~ (a EW {x}))",
        ] {
            fs.push(crate::formulas::f(t, &ctx.user));
        }
        if rep.samples.len() < 5 {
            let f = &fs[fs.len() / 2];
            rep.sample(json!({"network": b.name, "formula": f.show(&ctx.user), "expected_states_per_colour": ctx.expected(f).iter().map(|m| format!("{m:b}")).collect::<Vec<_>>()}));
        }
        sem::sweep(&mut rep, &ctx, &fs, Checks { semantic: true, unit: false, entries: Entries::PlainDirty });
        slices.push(json!({"network": b.name, "max_nodes": m, "alphabet": alpha.describe(), "formulae_with_EW_or_AW": fs.len()}));
    }
    // every pair of coloured sets as arguments of EW / AW, and the defining equivalences
    let forms = ["%p% EW %q%", "%p% AW %q%", "(%p% EU %q%) | EG %p%", "~ ((~ %q%) EU ((~ %p%) & (~ %q%)))", "%q% => (%p% EW %q%)", "%q% => (%p% AW %q%)", "EX (%p% AW %q%)", "(%p% EW %q%) AW %p%", "(%p% EW %q%) & ~ (%p% AW %q%)", "(%p% AW %q%) => (%p% EW %q%)", "(%p% AW %q%) ^ (%p% EW %q%)", "(%p% AU %q%) | ((%p% AW %q%) & ~ (%p% EW %q%))"];
    let ck = Checks { semantic: true, unit: false, entries: Entries::Ext2 };
    for name in if tier == "quick" { vec!["tog2"] } else { vec!["tog2", "imp1", "con2"] } {
        let b = by_name(&nets, name);
        sem::ops_sweep(&mut rep, &b, &forms, true, ck);
    }
    rep.set("slices", json!(slices));
    rep.rule = "all closed formulae up to max_nodes nodes over all operators that contain EW or AW, plus 6 formulae with EW and AW over the same operands and 18 template formulae in which EW / AW sub-formulae occur twice up to renaming (one / two free variables, mirrored roles, different depths), on the core networks, compared point-wise with the oracle's E[a W b] = E[a U b] or EG a and A[a W b] = not E[not b U (not a and not b)]; plus EW/AW (and their defining right-hand sides) on every pair of coloured sets of tiny networks as wild-card arguments".into();
    Ok(rep)
}
