//! C07 — preprocessing validates binding and renames variables without changing meaning.

use crate::formulas::{Bi, Hy, Un};
use crate::refparser::T;
use crate::report::{guarded, Report, Violation};
use crate::trees::{TreeAlphabet, TreeGen};
use biodivine_hctl_model_checker::mc_utils::collect_unique_hctl_vars;
use biodivine_hctl_model_checker::preprocessing::parser::{parse_and_minimize_extended_formula, parse_extended_formula};
use biodivine_hctl_model_checker::preprocessing::utils::validate_props_and_rename_vars;
use biodivine_lib_param_bn::symbolic_async_graph::SymbolicContext;
use biodivine_lib_param_bn::BooleanNetwork;
use serde_json::{json, Value};
use std::collections::BTreeSet;

pub fn network_props() -> Vec<String> {
    vec!["a".to_string(), "b".to_string()]
}
/// The context the model checker itself works with: a parametrised network (explicit parameters `p`
/// (zero-arity) and `f`, an implicit one for `b`) with two spare sets of state variables, so that the
/// symbolic variables `a_extra_0`, `p`, `f[0]`, ... exist and are NOT network variables.
fn context() -> SymbolicContext {
    let bn = BooleanNetwork::try_from("a -> b\nb -| a\na -?? a\n$a: (p & a) | f(b)\n").unwrap();
    biodivine_hctl_model_checker::mc_utils::get_extended_symbolic_graph(&bn, 2).unwrap().symbolic_context().clone()
}

/// Names of symbolic variables of the context that are not network variables, each used as a
/// proposition in a few surroundings: preprocessing of the *tree* must fail (and of the text, when the
/// name can be written in the concrete syntax).
fn foreign_symbolic_names(rep: &mut Report, ctx: &SymbolicContext) {
    let names: Vec<String> = ctx.bdd_variable_set().variables().iter().map(|v| ctx.bdd_variable_set().name_of(*v)).filter(|n| !network_props().contains(n)).collect();
    let mut tried = 0u64;
    for n in &names {
        let prop = T::Prop(n.clone());
        let shapes = vec![
            prop.clone(),
            T::un(Un::EF, prop.clone()),
            T::Hy(Hy::Bind, "x".into(), None, Box::new(T::un(Un::AX, T::bin(Bi::And, prop.clone(), T::Var("x".into()))))),
            T::Hy(Hy::Exists, "x".into(), None, Box::new(T::Hy(Hy::Jump, "x".into(), None, Box::new(prop.clone())))),
            T::bin(Bi::And, T::Prop("a".into()), prop.clone()),
        ];
        for t in shapes {
            tried += 1;
            let r = guarded(std::panic::AssertUnwindSafe(|| validate_props_and_rename_vars(t.to_lib(), ctx)));
            let what = match r {
                Ok(Err(_)) => None,
                Ok(Ok(res)) => Some(format!("accepted as {res} although `{n}` is the name of a symbolic variable that is not a network variable")),
                Err(p) => Some(format!("panic: {p}")),
            };
            if let Some(w) = what {
                rep.violations.push(Violation { case: json!({"kind": "prep_tree", "tree": t}), what: format!("tree {}: {w}", t.render()), size: t.size() });
            }
            if n.chars().all(|c| c.is_alphanumeric() || c == '_') {
                tried += 1;
                let text = t.render();
                match guarded(std::panic::AssertUnwindSafe(|| parse_and_minimize_extended_formula(ctx, &text))) {
                    Ok(Err(_)) => {}
                    Ok(Ok(res)) => rep.violations.push(Violation { case: json!({"kind": "prep_tree", "tree": t}), what: format!("text {text}: accepted as {res} although `{n}` is not a network variable"), size: t.size() }),
                    Err(p) => rep.violations.push(Violation { case: json!({"kind": "prep_tree", "tree": t}), what: format!("text {text}: panic: {p}"), size: t.size() }),
                }
            }
        }
    }
    rep.evaluations += tried;
    rep.set("foreign_symbolic_names", json!(names));
}

pub fn replay_tree(case: &Value) -> Option<String> {
    let t: T = serde_json::from_value(case["tree"].clone()).ok()?;
    let ctx = context();
    match guarded(std::panic::AssertUnwindSafe(|| validate_props_and_rename_vars(t.to_lib(), &ctx))) {
        Ok(Err(_)) => None,
        Ok(Ok(res)) => Some(format!("accepted as {res}")),
        Err(p) => Some(format!("panic: {p}")),
    }
}

/// All C07 obligations for one input tree (given as `T`; it is printed, parsed by the library's
/// own parser and then preprocessed, so the input really is a "parsed tree").
pub fn check(t: &T, ctx: &SymbolicContext) -> Option<String> {
    let text = t.render();
    let r = guarded(std::panic::AssertUnwindSafe(|| {
        let parsed = match parse_extended_formula(&text) {
            Ok(p) => p,
            Err(e) => return Some(format!("library parser rejects the canonical text {text:?}: {e}")),
        };
        if &T::from_lib(&parsed) != t {
            return Some("library parser returns a different tree for the canonical text (C06 matter)".to_string());
        }
        let expect_ok = t.scope_ok(&mut vec![], &network_props());
        let out = validate_props_and_rename_vars(parsed.clone(), ctx);
        // the string-level wrapper must agree
        let out2 = parse_and_minimize_extended_formula(ctx, &text);
        match (&out, &out2) {
            (Ok(a), Ok(b)) if a == b => {}
            (Err(_), Err(_)) => {}
            _ => return Some("parse_and_minimize_extended_formula disagrees with parse + validate_props_and_rename_vars".to_string()),
        }
        match out {
            Err(e) => {
                if expect_ok {
                    return Some(format!("rejected ({e}) although every variable occurrence is bound, nothing is re-quantified in scope and all propositions are network variables"));
                }
                None
            }
            Ok(res) => {
                if !expect_ok {
                    return Some(format!("accepted as {} although the binding rules are violated", res));
                }
                let rt = T::from_lib(&res);
                // exact prescribed output
                let want = t.minimized(&mut vec![]);
                if rt != want {
                    return Some(format!("renamed to {} but naming by nesting depth gives {}", rt.render(), want.render()));
                }
                // alpha-equivalence through de-Bruijn levels (independent of the naming scheme)
                if rt.debruijn(&mut vec![]) != t.debruijn(&mut vec![]) {
                    return Some(format!("result {} is not alpha-equivalent to the input", rt.render()));
                }
                let mut q = BTreeSet::new();
                rt.quantified_names(&mut q);
                let depth = t.qdepth();
                let collected = collect_unique_hctl_vars(res.clone()).len();
                if q.len() != depth || collected != depth {
                    return Some(format!("{} distinct quantified names, collect_unique_hctl_vars = {}, maximal nesting depth {}", q.len(), collected, depth));
                }
                // stored text / height of the produced tree
                if res != rt.to_lib() {
                    return Some("produced tree has inconsistent stored text or height".to_string());
                }
                // idempotence
                match validate_props_and_rename_vars(res.clone(), ctx) {
                    Ok(again) if again == res => None,
                    Ok(again) => Some(format!("second preprocessing changes {} to {}", res, again)),
                    Err(e) => Some(format!("second preprocessing rejects its own output: {e}")),
                }
            }
        }
    }));
    match r {
        Ok(v) => v,
        Err(p) => Some(format!("panic: {p}")),
    }
}

pub fn replay(case: &Value) -> Option<String> {
    let t: T = serde_json::from_value(case["tree"].clone()).ok()?;
    check(&t, &context())
}

pub fn alphabet() -> TreeAlphabet {
    let s = |v: &[&str]| v.iter().map(|x| x.to_string()).collect::<Vec<_>>();
    TreeAlphabet {
        consts: vec![true],
        props: s(&["a", "zz"]),
        vars: s(&["x", "xx", "xxx", "y"]),
        wilds: vec![],
        doms: s(&["d"]),
        un: vec![Un::Not, Un::AX],
        bi: vec![Bi::And, Bi::EU],
        quant: vec![Hy::Bind, Hy::Exists, Hy::Forall],
        jump: true,
    }
}

#[derive(Default)]
struct Acc {
    n: u64,
    accepted: u64,
    nbad: u64,
    bad: Vec<Violation>,
}

/// Every tree with `sizes` nodes over `alpha`: all C07 obligations.
fn sweep_alphabet(rep: &mut Report, alpha: &TreeAlphabet, sizes: std::ops::RangeInclusive<usize>, key: &str) {
    let mut g = TreeGen::new(alpha.clone());
    let mut per_size = vec![];
    for size in sizes {
        let acc = g.par_visit_exact(
            size,
            Acc::default,
            |acc, t| {
                thread_local! { static CTX3: SymbolicContext = context(); }
                acc.n += 1;
                if t.scope_ok(&mut vec![], &network_props()) {
                    acc.accepted += 1;
                }
                if let Some(what) = CTX3.with(|ctx| check(t, ctx)) {
                    acc.nbad += 1;
                    if acc.bad.len() < 10 {
                        acc.bad.push(Violation { case: json!({"kind": "prep", "tree": t}), what: format!("input {}: {what}", t.render()), size: t.size() });
                    }
                }
            },
            |mut a, b| {
                a.n += b.n;
                a.accepted += b.accepted;
                a.nbad += b.nbad;
                a.bad.extend(b.bad);
                a
            },
        );
        per_size.push(json!({"nodes": size, "trees": acc.n, "accepted_by_scope_rules": acc.accepted}));
        rep.evaluations += acc.n;
        rep.distinct_nontrivial += acc.accepted;
        rep.add_count("failing_trees", acc.nbad);
        let mut bad = acc.bad;
        bad.sort_by_key(|v| v.size);
        rep.violations.extend(bad.into_iter().take(15));
    }
    rep.set(&format!("{key}_trees_per_size"), json!(per_size));
    rep.set(&format!("{key}_alphabet"), json!(alpha.describe()));
}

pub fn run(tier: &str) -> Result<Report, String> {
    let mut rep = Report::new("C07", tier, "exploration");
    let s_max = if tier == "quick" { 5 } else { 6 };
    let mut alpha = alphabet();
    if tier == "quick" {
        // keep the quick tier small: one domain-less quantifier form per operator is enough at 5 nodes
        alpha.doms = vec![];
    }
    let mut g = TreeGen::new(alpha.clone());
    let mut per_size = vec![];
    for size in 1..=s_max {
        let acc = g.par_visit_exact(
            size,
            Acc::default,
            |acc, t| {
                thread_local! { static CTX: SymbolicContext = context(); }
                acc.n += 1;
                if t.scope_ok(&mut vec![], &network_props()) {
                    acc.accepted += 1;
                }
                if let Some(what) = CTX.with(|ctx| check(t, ctx)) {
                    acc.nbad += 1;
                    if acc.bad.len() < 30 {
                        acc.bad.push(Violation { case: json!({"kind": "prep", "tree": t}), what: format!("input {}: {what}", t.render()), size: t.size() });
                    }
                }
            },
            |mut a, b| {
                a.n += b.n;
                a.accepted += b.accepted;
                a.nbad += b.nbad;
                a.bad.extend(b.bad);
                a
            },
        );
        per_size.push(json!({"nodes": size, "trees": acc.n, "accepted_by_scope_rules": acc.accepted}));
        rep.evaluations += acc.n;
        rep.distinct_nontrivial += acc.accepted;
        rep.add_count("failing_trees", acc.nbad);
        rep.violations.extend(acc.bad);
    }
    rep.set("trees_per_size", json!(per_size));
    // second pass: binder-focused tiny alphabet with a deeper node bound (two names, one unary, one
    // binary operator) — shapes like (!{x}: @{x}: a) & (!{y}: @{x}: a) or
    // (!{x}: 3{y}: AX {x}) & (!{y}: 3{x}: AX {x}) need 7..9 nodes
    let tiny = {
        let s = |v: &[&str]| v.iter().map(|x| x.to_string()).collect::<Vec<_>>();
        TreeAlphabet { consts: vec![], props: s(&["a"]), vars: s(&["x", "y"]), wilds: vec![], doms: vec![], un: vec![Un::AX], bi: vec![Bi::And], quant: vec![Hy::Bind, Hy::Exists], jump: true }
    };
    let t_max = if tier == "quick" { 8 } else { 9 };
    let mut g2 = TreeGen::new(tiny.clone());
    let mut per_size2 = vec![];
    for size in (s_max + 1)..=t_max {
        let acc = g2.par_visit_exact(
            size,
            Acc::default,
            |acc, t| {
                thread_local! { static CTX2: SymbolicContext = context(); }
                acc.n += 1;
                if t.scope_ok(&mut vec![], &network_props()) {
                    acc.accepted += 1;
                }
                if let Some(what) = CTX2.with(|ctx| check(t, ctx)) {
                    acc.nbad += 1;
                    if acc.bad.len() < 10 {
                        acc.bad.push(Violation { case: json!({"kind": "prep", "tree": t}), what: format!("input {}: {what}", t.render()), size: t.size() });
                    }
                }
            },
            |mut a, b| {
                a.n += b.n;
                a.accepted += b.accepted;
                a.nbad += b.nbad;
                a.bad.extend(b.bad);
                a
            },
        );
        per_size2.push(json!({"nodes": size, "trees": acc.n, "accepted_by_scope_rules": acc.accepted}));
        rep.evaluations += acc.n;
        rep.distinct_nontrivial += acc.accepted;
        rep.add_count("failing_trees", acc.nbad);
        let mut bad = acc.bad;
        bad.sort_by_key(|v| v.size);
        rep.violations.extend(bad.into_iter().take(15));
    }
    rep.set("tiny_alphabet_trees_per_size", json!(per_size2));
    rep.set("tiny_alphabet", json!(tiny.describe()));
    // the entry points must EVALUATE what preprocessing returns: every well-scoped closed tree with <= 5 (6) nodes over an
    // alphabet with non-canonical and permuted variable names (y, x, s; EF and & only, so that the self-loop-free entry point is
    // applicable) on a small network: the text as written and the library's own preprocessed text must give the same set through
    // model_check_formula_dirty, model_check_formula and model_check_formula_unsafe_ex
    {
        use biodivine_hctl_model_checker::model_checking as mc;
        use rayon::prelude::*;
        let s = |v: &[&str]| v.iter().map(|x| x.to_string()).collect::<Vec<_>>();
        let alpha = TreeAlphabet { consts: vec![], props: s(&["a"]), vars: s(&["y", "x", "s"]), wilds: vec![], doms: vec![], un: vec![Un::EF], bi: vec![Bi::And], quant: vec![Hy::Bind, Hy::Exists], jump: true };
        let bn = BooleanNetwork::try_from("a -> b\nb -| a\nb -?? b\n").map_err(|e| format!("harness: {e}"))?;
        let graph = biodivine_hctl_model_checker::mc_utils::get_extended_symbolic_graph(&bn, 3)?;
        let mut gen = TreeGen::new(alpha);
        let mut n_sem = 0u64;
        for size in 2..=(if tier == "quick" { 5 } else { 6 }) {
            let trees = gen.exact(size);
            let sel: Vec<&T> = trees.iter().filter(|t| t.scope_ok(&mut vec![], &["a".to_string()])).collect();
            n_sem += sel.len() as u64;
            let bad: Vec<Violation> = sel
                .par_iter()
                .filter_map(|t| {
                    let text = t.render();
                    let pre = match guarded(|| parse_extended_formula(&text).and_then(|tr| validate_props_and_rename_vars(tr, graph.symbolic_context()))) {
                        Ok(Ok(p)) => p.to_string(),
                        other => return Some(Violation { case: json!({"kind": "none"}), what: format!("input {text}: preprocessing of a well-scoped closed formula fails: {:?}", other.map(|r| r.map(|_| "ok"))), size: t.size() }),
                    };
                    let runs: [(&str, Box<dyn Fn(&str) -> Result<Result<biodivine_lib_param_bn::symbolic_async_graph::GraphColoredVertices, String>, String> + Sync>); 3] = [
                        ("model_check_formula_dirty", Box::new(|x: &str| guarded(std::panic::AssertUnwindSafe(|| mc::model_check_formula_dirty(x, &graph))))),
                        ("model_check_formula", Box::new(|x: &str| guarded(std::panic::AssertUnwindSafe(|| mc::model_check_formula(x, &graph))))),
                        ("model_check_formula_unsafe_ex", Box::new(|x: &str| guarded(std::panic::AssertUnwindSafe(|| mc::model_check_formula_unsafe_ex(x, &graph))))),
                    ];
                    for (name, run) in runs.iter() {
                        let what = match (run(&text), run(&pre)) {
                            (Ok(Ok(a)), Ok(Ok(b))) if a == b => None,
                            (Ok(Ok(_)), Ok(Ok(_))) => Some("the text as written and the preprocessed text give different sets".to_string()),
                            (a, b) => Some(format!("as written: {:?}, preprocessed: {:?}", a.map(|r| r.map(|_| "a set")), b.map(|r| r.map(|_| "a set")))),
                        };
                        if let Some(w) = what {
                            return Some(Violation { case: json!({"kind": "none"}), what: format!("input {text} (preprocessed: {pre}) through {name}: {w}"), size: t.size() });
                        }
                    }
                    None
                })
                .collect();
            rep.violations.extend(bad.into_iter().take(10));
            // ... and the number of spare variable sets a formula needs is its QUANTIFIER nesting depth, whatever stands next to it
            // in a batch: after a taller formula without quantifiers, a formula that nests one more quantifier than the graph has
            // spare sets must be refused with an error (all four multi-formula string entry points)
            let tall = "AG (EF (AG (EF (AG (EF (AX a))))))";
            let shallow: Vec<(String, usize)> = sel.iter().map(|t| (t.render(), t.qdepth())).filter(|(_, d)| *d >= 1 && *d <= 3).collect();
            let bad2: Vec<Violation> = shallow
                .par_iter()
                .filter_map(|(text, d)| {
                    let g = biodivine_hctl_model_checker::mc_utils::get_extended_symbolic_graph(&bn, (*d - 1) as u16).ok()?;
                    let none = std::collections::HashMap::new();
                    let runs: Vec<(&str, Result<Result<usize, String>, String>)> = vec![
                        ("model_check_multiple_formulae_dirty", guarded(std::panic::AssertUnwindSafe(|| mc::model_check_multiple_formulae_dirty(vec![tall, text.as_str()], &g).map(|v| v.len())))),
                        ("model_check_multiple_formulae", guarded(std::panic::AssertUnwindSafe(|| mc::model_check_multiple_formulae(vec![tall, text.as_str()], &g).map(|v| v.len())))),
                        ("model_check_multiple_extended_formulae_dirty", guarded(std::panic::AssertUnwindSafe(|| mc::model_check_multiple_extended_formulae_dirty(vec![tall, text.as_str()], &g, &none).map(|v| v.len())))),
                        ("model_check_multiple_extended_formulae", guarded(std::panic::AssertUnwindSafe(|| mc::model_check_multiple_extended_formulae(vec![tall, text.as_str()], &g, &none).map(|v| v.len())))),
                    ];
                    for (name, r) in runs {
                        let what = match r {
                            Ok(Err(_)) => None,
                            Ok(Ok(_)) => Some("returns results".to_string()),
                            Err(p) => Some(format!("panics: {p}")),
                        };
                        if let Some(w) = what {
                            return Some(Violation { case: json!({"kind": "none"}), what: format!("{name}([{tall}, {text}]) on a graph with {} spare variable sets (the second formula nests {d} quantifiers) {w}", d - 1), size: 20 });
                        }
                    }
                    None
                })
                .collect();
            n_sem += shallow.len() as u64;
            rep.violations.extend(bad2.into_iter().take(10));
        }
        rep.evaluations += n_sem * 6;
        rep.set("well_scoped_trees_evaluated_as_written_and_preprocessed", json!(n_sem));
    }
    // third pass: quantifiers WITH domains over two names (re-quantification inside a scope by a quantifier that has
    // a domain, domains on the outer / the inner / both quantifiers, jumps in between): 1..5 (6) nodes
    {
        let s = |v: &[&str]| v.iter().map(|x| x.to_string()).collect::<Vec<_>>();
        let dom_alpha = TreeAlphabet { consts: vec![], props: s(&["a"]), vars: s(&["x", "y"]), wilds: vec![], doms: s(&["d"]), un: vec![Un::AX], bi: vec![Bi::And], quant: vec![Hy::Bind, Hy::Exists, Hy::Forall], jump: true };
        sweep_alphabet(&mut rep, &dom_alpha, 1..=(if tier == "quick" { 5 } else { 6 }), "domain_alphabet");
    }
    // hand-picked shapes beyond the node bound: names equal to the internal ones in permuted order
    let special = [
        "!{xx}: !{x}: !{xxx}: (@{x}: {xx}) & (@{xxx}: {x})",
        "!{xxx}: (3{x}: @{xxx}: {x}) & (V{xx}: @{xx}: AX {xxx})",
        "!{y}: (!{x}: {x} & {y}) & (!{xx}: {xx} & {y}) & (3{x}: !{xx}: {x} & {xx} & {y})",
        "!{x}: !{x}: {x}",
        "(!{x}: a) & {x}",
        "!{x}: @{y}: {x}",
        "@{x}: !{x}: {x}",
        "!{x}: (@{x}: !{y}: {y}) & (!{y}: @{y}: !{x1}: {x1} & {x} & {y})",
        "3{a}: @{a}: a",
        "!{x} in %d%: 3{xx} in %d%: V{x_} in %e%: @{x_}: {x} & {xx}",
        // variable names are "arbitrary": letters and digits of any script, underscores, names spelled like keywords
        "!{č}: {č}",
        "!{č}: AX {č}",
        "3{α}: 3{β}: (@{α}: EF {β}) & (@{β}: AX {α})",
        "!{状態}: (3{x²}: @{状態}: {x²}) & (V{ξ_1}: @{ξ_1}: AX {状態})",
        "!{é}: (!{x}: {x} & {é}) & (!{é2}: {é2} & {é})",
        "V{Ω} in %d%: 3{ω} in %e%: @{Ω}: ({ω} | a)",
        "!{in}: 3{EX}: @{in}: ({EX} & AX {in})",
        "!{_}: 3{__}: @{_}: {__}",
        "!{0}: 3{1}: (@{0}: {1}) | b",
    ];
    let ctx = context();
    foreign_symbolic_names(&mut rep, &ctx);
    for s in special {
        match crate::refparser::parse_str(s, true) {
            Ok(t) => {
                rep.evaluations += 1;
                if let Some(what) = check(&t, &ctx) {
                    rep.violations.push(Violation { case: json!({"kind": "prep", "tree": t}), what: format!("input {s}: {what}"), size: t.size() });
                }
            }
            Err(e) => return Err(format!("hand-picked input {s:?} is not derivable by the reference grammar: {e}")),
        }
    }
    // deterministic deep nests (8..12, 20, 40 quantifiers on one branch, every variable used innermost,
    // jumps to the outermost / middle / innermost variable)
    let mut deep_n = 0u64;
    for d in [7usize, 8, 9, 10, 11, 12, 20, 40] {
        for variant in 0..3 {
            let mut q = String::new();
            for i in 0..d {
                let name = if variant == 1 { format!("{}", "x".repeat(d - i)) } else { format!("v{i}") };
                q.push_str(&format!("{}{{{name}}}: ", ["!", "3", "V"][(i + variant) % 3]));
            }
            let name = |i: usize| if variant == 1 { "x".repeat(d - i) } else { format!("v{i}") };
            let body: Vec<String> = (0..d).map(|i| format!("{{{}}}", name(i))).collect();
            let s = format!("{q}(@{{{}}}: AX {{{}}}) & (@{{{}}}: {{{}}}) & {}", name(0), name(d - 1), name(d / 2), name(d - 2), body.join(" & "));
            if let Ok(t) = crate::refparser::parse_str(&s, true) {
                deep_n += 1;
                rep.evaluations += 1;
                if let Some(what) = check(&t, &ctx) {
                    rep.violations.push(Violation { case: json!({"kind": "prep", "tree": t}), what: format!("deep nest of {d} quantifiers (variant {variant}): {what}"), size: 100 + d });
                }
            } else {
                return Err(format!("harness: deep nest does not parse: {s}"));
            }
        }
    }
    rep.set("deep_nests", json!(deep_n));
    // contexts of networks built programmatically, whose variables are DECLARED in an order that is not the
    // lexicographic one (every lib-param-bn parser sorts names, RegulatoryGraph::new keeps the given order):
    // a proposition is accepted iff it names a network variable, whatever the declaration order
    {
        use biodivine_lib_param_bn::RegulatoryGraph;
        let orders: Vec<Vec<String>> = vec![
            vec!["b".into(), "a".into()],
            vec!["c".into(), "a".into(), "b".into()],
            (0..12).map(|i| format!("v{i}")).collect(),
            vec!["z".into(), "y".into(), "x_1".into(), "A".into(), "a".into()],
            vec!["e".into(), "d".into(), "c".into(), "b".into(), "a".into()],
            vec!["a".into(), "b".into(), "c".into()],
        ];
        let mut n_decl = 0u64;
        // every name that is a variable of SOME network of this family is a candidate for EVERY network (valid in one context,
        // invalid in another), and the family is gone through twice on this thread: in the second pass every name has been
        // accepted for some other context before (acceptance must be a function of (tree, context), not of the call history)
        let mut all_names: Vec<String> = vec![];
        for names in &orders {
            for n in names {
                if !all_names.contains(n) {
                    all_names.push(n.clone());
                }
            }
        }
        for (pass, names) in orders.iter().map(|o| (0, o)).chain(orders.iter().map(|o| (1, o))) {
            let bn = BooleanNetwork::new(RegulatoryGraph::new(names.clone()));
            let mut ctxs = vec![SymbolicContext::new(&bn).map_err(|e| format!("harness: {e}"))?];
            ctxs.push(biodivine_hctl_model_checker::mc_utils::get_extended_symbolic_graph(&bn, 2)?.symbolic_context().clone());
            let mut candidates: Vec<(String, bool)> = names.iter().map(|n| (n.clone(), true)).collect();
            for extra in ["q", "v12", "a_", "ab", "v1_", "x", "v", "aa", "B"].iter().map(|s| s.to_string()).chain(all_names.iter().cloned()) {
                if !names.iter().any(|n| *n == extra) && !candidates.iter().any(|(c, _)| *c == extra) {
                    // in the quick tier the foreign variable names are only combined with the first own name
                    candidates.push((extra, false));
                }
            }
            let _ = pass;
            for (ci, c) in ctxs.iter().enumerate() {
                for (n1, ok1) in &candidates {
                    for (n2, ok2) in &candidates {
                        for shape in ["{1}", "~{1} | EX {2}", "!{x}: ({x} & {1} & AX {2})", "3{y}: @{y}: ({2} EU {1})"] {
                            if !shape.contains("{2}") && n1 != n2 {
                                continue;
                            }
                            let text = shape.replace("{1}", n1).replace("{2}", n2);
                            let expect_ok = *ok1 && (*ok2 || !shape.contains("{2}"));
                            n_decl += 1;
                            let got = guarded(std::panic::AssertUnwindSafe(|| {
                                let tree = parse_extended_formula(&text).map_err(|e| format!("parse: {e}"))?;
                                let a = validate_props_and_rename_vars(tree, c).is_ok();
                                let b = parse_and_minimize_extended_formula(c, &text).is_ok();
                                Ok::<(bool, bool), String>((a, b))
                            }));
                            let what = match got {
                                Ok(Ok((a, b))) if a == expect_ok && b == expect_ok => None,
                                Ok(Ok((a, b))) => Some(format!("validate_props_and_rename_vars accepts: {a}, parse_and_minimize_extended_formula accepts: {b}, expected: {expect_ok}")),
                                Ok(Err(e)) => Some(format!("harness: {e}")),
                                Err(p) => Some(format!("panic: {p}")),
                            };
                            if let Some(w) = what {
                                rep.violations.push(Violation { case: json!({"kind": "none"}), what: format!("network with variables declared as {names:?} (context {ci}, pass {pass} over the family on one thread), formula `{text}`: {w}"), size: 50 + names.len() });
                            }
                        }
                    }
                }
            }
        }
        rep.evaluations += n_decl;
        rep.set("declaration_order_cases", json!(n_decl));
    }
    rep.sample(json!({"input": "(!{xx}: (3{x}: (@{xx}: {x})))", "expected_output": "(!{x}: (3{xx}: (@{x}: {xx})))"}));
    rep.sample(json!({"input": "(!{x}: (@{y}: a))", "expected": "Err (jump target y is free)"}));
    rep.rule = format!("every tree with 1..{s_max} nodes over {} printed, parsed by the library and preprocessed against the extended symbolic context (2 spare variable sets) of a parametrised network with variables a,b: accepted iff the independent scope checker accepts; output must equal the tree renamed by nesting depth, be de-Bruijn-equal to the input, have #quantified names = nesting depth = collect_unique_hctl_vars, consistent stored text, and be a fixed point of preprocessing; then every tree with up to 8 (thorough 9) nodes over the binder-focused tiny alphabet {{a, x, y, AX, &, !, 3, @}}; then every tree with up to 5 (6) nodes over the domain-focused alphabet {{a, x, y, AX, &, @, and ! / 3 / V each without and with the domain %d%}}; plus {} longer hand-written shapes and 24 deep nests (7..12, 20, 40 quantifiers on one branch, fresh names / names equal to the internal ones in reverse order); plus every name of a symbolic variable of that context that is not a network variable (spare state variables, parameter variables) used as a proposition in 5 surroundings, as a tree and (where the syntax can spell it) as text: must be rejected; plus six networks built with RegulatoryGraph::new whose variables are declared in non-lexicographic order (b,a / c,a,b / v0..v11 / ...): every (pair of) variable names and near-miss names in 4 surroundings is accepted iff all are network variables; distinct_nontrivial = number of distinct accepted (well-scoped) trees", alpha.describe(), special.len());
    Ok(rep)
}
