//! C08 — results are invariant under meaning-preserving rewrites of the formula text.

use super::common::*;
use crate::formulas::{templates, Alphabet, Gen, F};
use crate::oracle::Labels;
use crate::report::{Report, Violation};
use crate::style::{self, Style};
use crate::sweep::{Got, NetCtx};
use rayon::prelude::*;
use serde_json::{json, Value};
use std::sync::Arc;

const POOL: [&str; 5] = ["x", "xx", "xxx", "y", "var0"];
const ODD_POOL: [&str; 5] = ["ξ", "č1", "状態", "_x", "X²"];
/// state-variable names spelled like constants, keywords and operators (inside braces they are just names)
const KEYWORD_POOL: [&str; 8] = ["1", "0", "true", "False", "in", "EX", "V", "3"];

/// All rewritten texts of `f` (description, text).
pub fn rewrites(f: &F, ctx: &NetCtx, rich: bool) -> Vec<(String, String)> {
    let names = &ctx.user;
    let base = Style::plain(f, names);
    let mut out: Vec<(String, String)> = vec![];
    // renamings (consistent, scope-respecting assignments of pool names to binders)
    for a in style::binder_assignments(f, &POOL, if rich { 400 } else { 60 }) {
        let mut st = base.clone();
        st.binder_names = a.clone();
        out.push((format!("rename binders to {a:?}"), style::render(f, names, &st)));
    }
    // ... and to names with non-ASCII letters / digits, a leading underscore, capitals
    for a in style::binder_assignments(f, &ODD_POOL, if rich { 60 } else { 12 }) {
        let mut st = base.clone();
        st.binder_names = a.clone();
        out.push((format!("rename binders to {a:?}"), style::render(f, names, &st)));
    }
    // ... and to names that are spelled like a constant, the keyword `in` or an operator
    for a in style::binder_assignments(f, &KEYWORD_POOL, if rich { 80 } else { 24 }) {
        let mut st = base.clone();
        st.binder_names = a.clone();
        out.push((format!("rename binders to {a:?}"), style::render(f, names, &st)));
    }
    // state variables named like NETWORK variables (separate name spaces: {a} is not the proposition a):
    // the outermost binders take a network variable's name, and every binder takes one by level
    {
        let levels = style::binder_levels(f);
        if !levels.is_empty() {
            for (j, pname) in names.props.iter().enumerate() {
                let mut st = base.clone();
                st.binder_names = levels.iter().zip(base.binder_names.iter()).map(|(l, d)| if *l == 0 { pname.clone() } else { d.clone() }).collect();
                out.push((format!("rename outermost binders to the network variable {pname}"), style::render(f, names, &st)));
                if names.props.len() >= 2 {
                    let mut st = base.clone();
                    st.binder_names = levels.iter().zip(base.binder_names.iter()).map(|(l, d)| if (*l as usize) < names.props.len() { names.props[(*l as usize + j) % names.props.len()].clone() } else { d.clone() }).collect();
                    out.push((format!("rename binders by level to network variables (rotation {j})"), style::render(f, names, &st)));
                }
            }
        }
    }
    let toks = style::tokens(f, names, &base);
    // whitespace
    for (wname, ws) in [("none", ""), ("double", "  "), ("tab", "\t"), ("newline", "\n"), ("nbsp", "\u{a0}"), ("mixed", " \t\n ")] {
        out.push((format!("whitespace {wname} everywhere"), style::join(&toks, ws, None)));
        if rich || wname == "none" || wname == "tab" {
            for i in 1..toks.len() {
                out.push((format!("whitespace {wname} at boundary {i}"), style::join(&toks, ws, Some(i))));
            }
        }
    }
    out.push(("leading/trailing whitespace".into(), format!(" \t{}\n ", style::join(&toks, " ", None))));
    // redundant parentheses
    for i in 0..f.size() {
        for extra in [1, 2] {
            let mut st = base.clone();
            st.paren_at = Some(i);
            st.paren_extra = extra;
            out.push((format!("{extra} extra parentheses around sub-formula {i}"), style::render(f, names, &st)));
        }
    }
    let mut st = base.clone();
    st.paren_at = Some(usize::MAX);
    out.push(("extra parentheses around every sub-formula".into(), style::render(f, names, &st)));
    // fewer parentheses: the minimal rendering the grammar allows, and minimal except for one
    // sub-formula that keeps its canonical parentheses (only texts the reference parser maps back to
    // the same tree are used, so every variant is meaning-preserving by the documented grammar)
    let same_tree = |text: &str| -> bool {
        match crate::refparser::parse_str(text, true) {
            Ok(t) => crate::formulas::from_t(&t, names).as_ref() == Some(f),
            Err(_) => false,
        }
    };
    let minimal = style::render_minimal(f, names, &[]);
    if same_tree(&minimal) {
        out.push(("minimal parentheses".into(), minimal));
    } else {
        out.push(("MACHINERY: minimal rendering does not parse back".into(), "(".into()));
    }
    for i in 0..f.size() {
        let t = style::render_minimal(f, names, &[i]);
        if same_tree(&t) {
            out.push((format!("minimal parentheses except sub-formula {i}"), t));
        }
    }
    // long spellings
    let nh = style::count_hybrid(f);
    if nh > 0 {
        let mut st = base.clone();
        st.long_hybrid = Some(usize::MAX);
        out.push(("long spelling of all hybrid operators".into(), style::render(f, names, &st)));
        out.push(("long spelling, no optional whitespace".into(), style::join(&style::tokens(f, names, &st), "", None)));
        for i in 0..nh {
            let mut st = base.clone();
            st.long_hybrid = Some(i);
            out.push((format!("long spelling of hybrid operator {i}"), style::render(f, names, &st)));
        }
    }
    // constants
    if style::has_const(f) {
        for (t, fl) in [("true", "false"), ("1", "0"), ("True", "0"), ("1", "False")] {
            let mut st = base.clone();
            st.true_s = t.into();
            st.false_s = fl.into();
            out.push((format!("constants spelled {t}/{fl}"), style::render(f, names, &st)));
        }
    }
    out
}

fn eval(ctx: &NetCtx, text: &str, ext: bool) -> Got {
    if ext {
        ctx.ext_dirty(text)
    } else {
        ctx.formula(text)
    }
}

pub fn check(ctx: &NetCtx, f: &F, rich: bool) -> (u64, u64, Vec<String>) {
    let ext = f.uses_wild_or_dom();
    let canon = f.show(&ctx.user);
    let base = eval(ctx, &canon, ext);
    let mut bad = vec![];
    let base_set = match &base {
        Got::Set(s) => s.clone(),
        other => return (1, 0, vec![format!("canonical text {canon} does not evaluate: {other:?}")]),
    };
    let rw = rewrites(f, ctx, rich);
    let mut seen = std::collections::HashSet::new();
    seen.insert(canon.clone());
    let mut distinct = 0u64;
    for (desc, text) in &rw {
        if !seen.insert(text.clone()) {
            continue;
        }
        distinct += 1;
        match eval(ctx, text, ext) {
            Got::Set(s) if s == base_set => {}
            Got::Set(_) => bad.push(format!("{desc}: {text:?} gives a different set than {canon}")),
            Got::Err(e) => bad.push(format!("{desc}: {text:?} is rejected: {e}")),
            Got::Panic(p) => bad.push(format!("{desc}: {text:?} panics: {p}")),
        }
        if bad.len() > 3 {
            break;
        }
    }
    // the self-loop-free entry point has its own parse-and-preprocess pipeline: the same rewrites (all of them for small
    // formulae, the renamings for the others) must not change ITS answer either
    let mut extra = 0u64;
    if !ext && bad.is_empty() {
        let unsafe_ex = |t: &str| ctx.run(|| biodivine_hctl_model_checker::model_checking::model_check_formula_unsafe_ex(t, &ctx.b.graph));
        if let Got::Set(ub) = unsafe_ex(&canon) {
            let mut seen2 = std::collections::HashSet::new();
            for (desc, text) in &rw {
                if (f.size() > 3 && !desc.starts_with("rename")) || !seen2.insert(text.clone()) {
                    continue;
                }
                extra += 1;
                match unsafe_ex(text) {
                    Got::Set(s) if s == ub => {}
                    Got::Set(_) => bad.push(format!("{desc}: {text:?} through model_check_formula_unsafe_ex gives a different set than {canon}")),
                    Got::Err(e) => bad.push(format!("{desc}: {text:?} is rejected by model_check_formula_unsafe_ex: {e}")),
                    Got::Panic(p) => bad.push(format!("{desc}: {text:?} through model_check_formula_unsafe_ex panics: {p}")),
                }
                if bad.len() > 3 {
                    break;
                }
            }
        } else {
            bad.push(format!("canonical text {canon} does not evaluate through model_check_formula_unsafe_ex"));
        }
    }
    (distinct + 1 + extra, distinct, bad)
}

pub fn replay(case: &Value) -> Option<String> {
    let spec = serde_json::from_value(case["net"].clone()).ok()?;
    let b = Arc::new(crate::bridge::Bound::new("replay", &spec, 3).ok()?);
    let wild = serde_json::from_value(case["labels"]["wild"].clone()).ok()?;
    let dom = serde_json::from_value(case["labels"]["dom"].clone()).ok()?;
    let ctx = NetCtx::new(b, Labels { wild, dom, props: vec![] }, "replay");
    let f: F = serde_json::from_value(case["formula"].clone()).ok()?;
    let (_, _, bad) = check(&ctx, &f, true);
    if bad.is_empty() {
        None
    } else {
        Some(bad.join(" | "))
    }
}

pub fn run(tier: &str) -> Result<Report, String> {
    let mut rep = Report::new("C08", tier, "exploration");
    let nets = core_nets(3)?;
    let (m, which, rich, pool): (usize, Vec<&str>, bool, usize) = if tier == "quick" { (3, vec!["con2", "asy2", "imp3"], false, 2) } else { (4, vec!["con2", "asy2", "imp3", "unc2"], true, 4) };
    let mut total_rewrites = 0u64;
    let mut distinct_rewrites = 0u64;
    for b in nets.iter().filter(|b| which.contains(&b.name.as_str())) {
        let fams = crate::sweep::label_families(b, 1);
        let ctx = NetCtx::new(b.clone(), fams[0].1.clone(), &fams[0].0);
        let mut g = Gen::new(Alphabet::all_ops(ctx.nprops(), 3));
        let mut fs = g.closed_up_to(m);
        fs.extend(templates(&ctx.user, true, pool));
        // a quantifier whose body starts with a parenthesised quantified group that is not last:
        // Q1{x}: ((Q2{y}: A) op B) — the shape where dropping or adding parentheses moves a scope
        {
            let qs: Vec<&str> = if rich { vec!["!", "3", "V"] } else { vec!["!", "3"] };
            let ops: Vec<&str> = if rich { vec!["&", "|", "^", "=>", "<=>", "EU", "AU", "EW", "AW"] } else { vec!["=>", "^", "EU", "&"] };
            for q1 in &qs {
                for q2 in &qs {
                    for op in &ops {
                        for a in ["{y}", "AX {y}", "{y} & a"] {
                            for b in ["a", "{x}", "AX {x}"] {
                                fs.push(crate::formulas::f(&format!("{q1}{{x}}: (({q2}{{y}}: {a}) {op} {b})"), &ctx.user));
                                if rich {
                                    fs.push(crate::formulas::f(&format!("{q1}{{x}}: ({b} {op} ({q2}{{y}}: {a}))"), &ctx.user));
                                }
                            }
                        }
                    }
                }
            }
            // the same shape with JUMPS: a jump whose body starts with a parenthesised jump / quantifier that is not last
            for op in &ops {
                for a in ["a", "AX {y}", "~ {x}"] {
                    for b in ["a", "{y}", "EX {x}", "~ a"] {
                        fs.push(crate::formulas::f(&format!("3{{x}}: 3{{y}}: (@{{x}}: ((@{{y}}: {a}) {op} {b}))"), &ctx.user));
                        fs.push(crate::formulas::f(&format!("!{{x}}: EX (3{{y}}: (@{{x}}: ((@{{y}}: {a}) {op} {b})))"), &ctx.user));
                        fs.push(crate::formulas::f(&format!("3{{x}}: (@{{x}}: ((!{{y}}: {a}) {op} {}))", b.replace("{y}", "{x}")), &ctx.user));
                        if rich {
                            fs.push(crate::formulas::f(&format!("V{{x}}: 3{{y}}: (@{{y}}: ({b} {op} (@{{x}}: {a})))"), &ctx.user));
                        }
                    }
                }
            }
            fs.extend(crate::formulas::duplicate_templates(ctx.nprops(), 3, true, false).into_iter().step_by(if rich { 1 } else { 4 }));
            // chains of two binary operators in both association orders (precedence / associativity
            // is what decides where parentheses are redundant)
            let all_ops = ["&", "|", "^", "=>", "<=>", "EU", "AU", "EW", "AW"];
            let p2 = ctx.user.props[ctx.user.props.len() - 1].clone();
            for o1 in all_ops {
                for o2 in all_ops {
                    fs.push(crate::formulas::f(&format!("a {o1} (({p2}) {o2} (~ a))"), &ctx.user));
                    fs.push(crate::formulas::f(&format!("(a {o1} ({p2})) {o2} (~ a)"), &ctx.user));
                    if rich {
                        fs.push(crate::formulas::f(&format!("!{{x}}: (a {o1} ((EX {{x}}) {o2} (~ {{x}})))"), &ctx.user));
                        fs.push(crate::formulas::f(&format!("EX (a {o1} ({p2})) {o2} AG a"), &ctx.user));
                    }
                }
            }
        }
        // a unary operator as (first token of) an operand of a binary operator: the minimal rendering drops the parentheses
        // around it (`AX a EU b`, `a & EF b`), so the documented priorities decide
        for u in ["~", "EX", "AX", "EF", "AF", "EG", "AG"] {
            for o in ["&", "|", "^", "=>", "<=>", "EU", "AU", "EW", "AW"] {
                for t in [format!("({u} a) {o} a"), format!("a {o} ({u} a)"), format!("({u} a) {o} ({u} (~ a))"), format!("!{{x}}: (({u} {{x}}) {o} a)")] {
                    fs.push(crate::formulas::f(&t, &ctx.user));
                }
            }
        }
        let mut ge = Gen::new(Alphabet::extended(1, 2, 1, 1));
        fs.extend(ge.closed_up_to(3).into_iter().filter(|f| f.uses_wild_or_dom()));
        let res: Vec<(u64, u64, Option<Violation>)> = fs
            .par_iter()
            .map(|f| {
                let (n, d, bad) = check(&ctx, f, rich);
                let v = if bad.is_empty() {
                    None
                } else {
                    Some(Violation {
                        case: json!({"kind": "rewrite", "net": ctx.b.spec, "aeon": ctx.b.aeon, "labels": {"wild": ctx.labels.wild, "dom": ctx.labels.dom}, "formula": f, "text": f.show(&ctx.user)}),
                        what: format!("formula {} on {}: {}", f.show(&ctx.user), ctx.b.name, bad.join(" | ")),
                        size: f.size(),
                    })
                };
                (n, d, v)
            })
            .collect();
        for (n, d, v) in res {
            total_rewrites += n;
            distinct_rewrites += d;
            if let Some(v) = v {
                rep.add_count("failing_formulae", 1);
                if rep.violations.len() < 100 {
                    rep.violations.push(v);
                }
            }
        }
        rep.add_count("formulae_x_networks", fs.len() as u64);
        if rep.samples.len() < 2 {
            let f = crate::formulas::f("!{x}: 3{y}: (@{x}: ~{y} & AX {x}) & (@{y}: AX {y})", &ctx.user);
            let rw = rewrites(&f, &ctx, false);
            rep.sample(json!({"formula": f.show(&ctx.user), "rewrites": rw.len(), "examples": [rw[7].1, rw[rw.len() / 2].1, rw[rw.len() - 3].1]}));
        }
    }
    // networks whose variable NAMES interact with the tokenizer (operator look-alikes EF1 / TRUE, spare-variable-like names, a
    // name that is a prefix of another, HCTL-variable-like names): what a rewrite does to the text next to such a name (no white
    // space where legal, parentheses directly around it) must not change the meaning either
    {
        let mut named = name_nets(3)?;
        named.push(Arc::new(bind("opn3", &crate::nets::spec("EGFR -> AXIN; AXIN -| EGFR; EGFR -?? AUX1; AUX1 -?? AUX1"), 3)?));
        for b in named {
            let fams = crate::sweep::label_families(&b, 1);
            let ctx = NetCtx::new(b.clone(), fams[0].1.clone(), &fams[0].0);
            let fs = Gen::new(Alphabet::all_ops(ctx.nprops(), 2)).closed_up_to(if tier == "quick" { 3 } else { 4 });
            let res: Vec<(u64, u64, Option<Violation>)> = fs
                .par_iter()
                .map(|f| {
                    let (n, d, bad) = check(&ctx, f, rich);
                    let v = if bad.is_empty() {
                        None
                    } else {
                        Some(Violation {
                            case: json!({"kind": "rewrite", "net": ctx.b.spec, "aeon": ctx.b.aeon, "labels": {"wild": ctx.labels.wild, "dom": ctx.labels.dom}, "formula": f, "text": f.show(&ctx.user)}),
                            what: format!("formula {} on {} [{}]: {}", f.show(&ctx.user), ctx.b.name, ctx.b.aeon.replace('\n', "; "), bad.join(" | ")),
                            size: f.size(),
                        })
                    };
                    (n, d, v)
                })
                .collect();
            for (n, d, v) in res {
                total_rewrites += n;
                distinct_rewrites += d;
                if let Some(v) = v {
                    rep.add_count("failing_formulae", 1);
                    if rep.violations.len() < 100 {
                        rep.violations.push(v);
                    }
                }
            }
            rep.add_count("formulae_x_networks_with_unusual_names", fs.len() as u64);
        }
    }
    rep.evaluations = total_rewrites;
    rep.distinct_nontrivial = distinct_rewrites;
    rep.rule = format!("for every closed plain formula with <= {m} nodes, every template formula, the family Q1{{x}}: ((Q2{{y}}: A) op B) and its jump version @{{x}}: ((@{{y}}: A) op B), all chains of two binary operators in both association orders, duplicate templates and every extended formula with <= 3 nodes, on {which:?} (and every closed formula with <= 3 (4) nodes on seven networks whose variable names look like operators / constants / spare variables / each other's prefixes: EF1, TRUE, EGFR, AXIN, AUX1, Ca_extra_cell, x / xx, a / ab): all scope-respecting assignments of the names {POOL:?} to its binders (consistent renaming incl. permutations of the internal names x, xx, xxx) and of the names {ODD_POOL:?} and {KEYWORD_POOL:?}, renamings of binders to the names of network variables, whitespace patterns (none where legal, double, tab, newline, NBSP, mixed; everywhere and at each single token boundary), 1-2 redundant parentheses around each sub-formula and around all, the minimal-parentheses rendering and the minimal rendering with one sub-formula keeping its parentheses, long spellings of each/all hybrid operators, constant spellings; the rewritten text must evaluate (model_check_formula / model_check_extended_formula_dirty, and for plain formulae also model_check_formula_unsafe_ex compared with itself) to the same set as the canonical text. distinct_nontrivial = number of rewritten texts that differ from the canonical text and from each other (per formula and network), counted with a hash set; evaluations additionally counts the canonical text");
    rep.assumptions.push("the rewrite generator only produces meaning-preserving variants by construction (consistent renaming respecting scopes, whitespace only between tokens, balanced extra parentheses)".into());
    Ok(rep)
}
