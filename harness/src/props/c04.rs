//! C04 — sub-formula caching and batch evaluation are observationally transparent.

use super::common::*;
use crate::bridge::Bound;
use crate::cachemc::{self, Env};
use crate::formulas::{collision_alphabet, duplicate_templates, pair_family, templates, Alphabet, Gen, F};
use crate::nets::NetSpec;
use crate::oracle::Labels;
use crate::report::{guarded, Report, Violation};
use biodivine_lib_param_bn::symbolic_async_graph::GraphColoredVertices;
use std::panic::AssertUnwindSafe;
use crate::sem;
use crate::sweep::{label_families, NetCtx};
use rayon::prelude::*;
use serde_json::{json, Value};
use std::sync::Arc;

fn case(ctx: &NetCtx, batch: &[F], order: &[usize]) -> Value {
    json!({
        "kind": "cache",
        "net_name": ctx.b.name,
        "net": ctx.b.spec,
        "aeon": ctx.b.aeon,
        "k": ctx.b.k,
        "labels": {"wild": ctx.labels.wild, "dom": ctx.labels.dom, "desc": ctx.label_desc},
        "batch": batch,
        "batch_texts": batch.iter().map(|f| f.show(&ctx.user)).collect::<Vec<_>>(),
        "order": order,
    })
}

/// Re-execute one history: the batch is marked as a whole, positions are evaluated in `order`
/// with the real `eval_node`, and the public entry points are run on the list in that order.
pub fn replay(case: &Value) -> Option<String> {
    let spec: NetSpec = serde_json::from_value(case["net"].clone()).ok()?;
    let k = case["k"].as_u64()? as u16;
    let b = Arc::new(Bound::new("replay", &spec, k).ok()?);
    let wild = serde_json::from_value(case["labels"]["wild"].clone()).ok()?;
    let dom = serde_json::from_value(case["labels"]["dom"].clone()).ok()?;
    let ctx = Arc::new(NetCtx::new(b, Labels { wild, dom, props: vec![] }, "replay"));
    let batch: Vec<F> = serde_json::from_value(case["batch"].clone()).ok()?;
    let order: Vec<usize> = serde_json::from_value(case["order"].clone()).ok()?;
    let env = Arc::new(Env::new(ctx, &batch));
    let idx: Vec<usize> = (0..batch.len()).collect();
    // within-formula sharing
    for i in 0..batch.len() {
        match &env.entries[i].alone {
            Ok(a) => {
                if let Some(w) = env.judge(i, a) {
                    return Some(w);
                }
            }
            Err(p) => return Some(format!("evaluating `{}` alone panics: {p}", env.entries[i].text)),
        }
    }
    let stats = cachemc::explore(env.clone(), vec![idx], 1);
    let _ = stats;
    let v = env.violations.lock().unwrap();
    // only histories that are a prefix-compatible with the recorded order are relevant, but any
    // violation within this batch is a violation of the property
    let _ = order;
    v.first().map(|(_, o, w)| format!("order {o:?}: {w}"))
}

fn run_model(rep: &mut Report, ctx: Arc<NetCtx>, alphabet: &[F], max_len: usize, tag: &str) {
    let env = Arc::new(Env::new(ctx.clone(), alphabet));
    // sharing inside a single formula: alone vs unshared vs oracle
    for i in 0..alphabet.len() {
        rep.evaluations += 1;
        let w = match &env.entries[i].alone {
            Ok(a) => env.judge(i, a),
            Err(p) => Some(format!("evaluating `{}` alone panics: {p}", env.entries[i].text)),
        };
        if let Some(w) = w {
            rep.violations.push(Violation { case: case(&ctx, &[alphabet[i].clone()], &[0]), what: format!("[{} on {} labels={}] {w}", tag, ctx.b.name, ctx.label_desc), size: alphabet[i].size() });
        }
    }
    let batches = cachemc::multisets(alphabet.len(), max_len);
    let stats = cachemc::explore(env.clone(), batches, 16);
    // every ordered list through the public entry points (trace validation against the implementation)
    let n = alphabet.len();
    let mut lists: Vec<Vec<usize>> = vec![];
    for l in 1..=max_len {
        let total = n.pow(l as u32);
        for mut code in 0..total {
            let mut v = vec![];
            for _ in 0..l {
                v.push(code % n);
                code /= n;
            }
            lists.push(v);
        }
    }
    let before = env.complete_orders.load(std::sync::atomic::Ordering::Relaxed);
    lists.par_iter().for_each(|l| {
        let order: Vec<usize> = (0..l.len()).collect();
        env.check_entry_points_pub(l, &order);
    });
    let validated = env.complete_orders.load(std::sync::atomic::Ordering::Relaxed) - before;
    rep.states += stats.unique_states as u64;
    rep.transitions += stats.transitions;
    rep.traces_validated += validated + stats.complete_orders;
    rep.evaluations += stats.transitions + lists.len() as u64 * 5;
    rep.distinct_nontrivial += stats.digests as u64;
    let mut runs = rep.extra.get("model_runs").cloned().unwrap_or(json!([]));
    runs.as_array_mut().unwrap().push(json!({
        "network": ctx.b.name, "labels": ctx.label_desc, "alphabet": tag, "alphabet_size": n, "max_batch_len": max_len,
        "initial_states_(multisets)": stats.init_states, "unique_states": stats.unique_states, "transitions": stats.transitions,
        "max_depth": stats.max_depth, "distinct_context_digests": stats.digests, "ordered_lists_through_entry_points": lists.len(),
        "states_with_stale_free_var_domains": env.stale_free_var_domains.load(std::sync::atomic::Ordering::Relaxed),
        "cache_entries_left_after_complete_batches": env.leftover_cache_entries.load(std::sync::atomic::Ordering::Relaxed),
    }));
    rep.set("model_runs", runs);
    let v = env.violations.lock().unwrap();
    rep.add_count("violating_histories", v.len() as u64);
    let mut seen = std::collections::HashSet::new();
    for (batch, order, what) in v.iter() {
        let fs: Vec<F> = batch.iter().map(|i| alphabet[*i].clone()).collect();
        let key = (batch.clone(), order.clone());
        if !seen.insert(key) {
            continue;
        }
        if rep.violations.len() < 400 {
            rep.violations.push(Violation {
                case: case(&ctx, &fs, order),
                what: format!("[{} on {} labels={}] batch {:?} evaluated in order {:?}: {}", tag, ctx.b.name, ctx.label_desc, fs.iter().map(|f| f.show(&ctx.user)).collect::<Vec<_>>(), order, what),
                size: fs.iter().map(|f| f.size()).sum::<usize>() * 10 + order.len(),
            });
        }
    }
}

pub fn run(tier: &str) -> Result<Report, String> {
    let mut rep = Report::new("C04", tier, "model_checking");
    std_assumptions(&mut rep);
    let nets = core_nets(3)?;
    let (which, a_size, max_len, fam_n): (Vec<&str>, usize, usize, usize) = if tier == "quick" { (vec!["con2", "asy2", "imp1"], 14, 3, 2) } else { (vec!["con2", "asy2", "imp1", "unc2", "tog2", "inp2"], 28, 3, 3) };
    for b in nets.iter().filter(|b| which.contains(&b.name.as_str())) {
        sem::note_network(&mut rep, b);
        let fams = label_families(b, 4);
        // mixed, empty, disjoint
        for (desc, labels) in [fams[0].clone(), fams[1].clone(), fams[3].clone()].into_iter().take(fam_n) {
            let ctx = Arc::new(NetCtx::new(b.clone(), labels, &desc));
            let mut alpha = collision_alphabet(&ctx.user);
            alpha.truncate(a_size);
            // a jump to the restricted variable evaluated BEFORE a closed duplicate in the same restricted scope
            alpha.push(crate::formulas::f("!{x} in %d%: ((@{x}: AX a) & EF (~ a))", &ctx.user));
            alpha.push(crate::formulas::f("3{x} in %d%: ((@{x}: EX a) | (!{y}: AX ({y} & a)))", &ctx.user));
            if rep.samples.len() < 3 {
                rep.sample(json!({"network": b.name, "labels": desc, "history": [alpha[2].show(&ctx.user), alpha[3].show(&ctx.user)], "meaning": "batch {f2,f3}: eval_node(f2) then eval_node(f3) on the shared context; every result compared with alone / unshared / oracle"}));
            }
            run_model(&mut rep, ctx.clone(), &alpha, max_len, "collision");
            if b.name == "con2" && desc == "mixed" {
                // repetition patterns: every ordered list of up to 5 (6) formulae over three formulae
                // ([A, A, B, B], [A, A, B, C, C], ...): repeating a formula repeats its result
                let rep3: Vec<F> = [0usize, 4, 10].iter().map(|i| alpha[*i].clone()).collect();
                run_model(&mut rep, ctx.clone(), &rep3, if tier == "quick" { 5 } else { 6 }, "repeat3");
            }
            if tier != "quick" && b.name == "con2" && desc == "mixed" {
                // deeper batches over a 6-formula core alphabet
                let core: Vec<F> = [0usize, 2, 3, 7, 11, 5, 15].iter().map(|i| alpha[*i].clone()).collect();
                run_model(&mut rep, ctx.clone(), &core, 4, "core7-len4");
            }
        }
    }
    // long batches (48 / 96 formulae, many of equal height, in three deterministic orders) through every
    // multi-formula entry point: every position carries the result of ITS formula
    {
        use biodivine_hctl_model_checker::model_checking as mc;
        let b = by_name(&nets, "con2");
        let ctx = NetCtx::new(b.clone(), Labels::default(), "none");
        let all: Vec<F> = Gen::new(Alphabet::all_ops(2, 2)).closed_up_to(3);
        let n = if tier == "quick" { 48 } else { 96 };
        let mut n_long = 0u64;
        for (oi, stride) in [7usize, 13, 1].iter().enumerate() {
            let idx: Vec<usize> = (0..n).map(|i| (i * stride * 5 + oi * 11) % all.len()).collect();
            let texts: Vec<String> = idx.iter().map(|i| all[*i].show(&ctx.user)).collect();
            let ts: Vec<&str> = texts.iter().map(|s| s.as_str()).collect();
            let single: Vec<Result<GraphColoredVertices, String>> = texts.iter().map(|t| mc::model_check_formula_dirty(t, &b.graph)).collect();
            let trees: Vec<_> = idx.iter().map(|i| all[*i].to_tree(&ctx.mini)).collect();
            let empty = std::collections::HashMap::new();
            let runs: Vec<(&str, Result<Result<Vec<GraphColoredVertices>, String>, String>)> = vec![
                ("model_check_multiple_formulae_dirty", guarded(AssertUnwindSafe(|| mc::model_check_multiple_formulae_dirty(ts.clone(), &b.graph)))),
                ("model_check_multiple_extended_formulae_dirty", guarded(AssertUnwindSafe(|| mc::model_check_multiple_extended_formulae_dirty(ts.clone(), &b.graph, &empty)))),
                ("model_check_multiple_trees_dirty", guarded(AssertUnwindSafe(|| mc::model_check_multiple_trees_dirty(trees.clone(), &b.graph)))),
            ];
            for (name, r) in runs {
                n_long += 1;
                let what = match r {
                    Ok(Ok(v)) if v.len() == n => (0..n).find(|i| single[*i].as_ref().map(|s| s != &v[*i]).unwrap_or(true)).map(|i| format!("position {i} ({}) does not carry the result of its formula", texts[i])),
                    Ok(Ok(v)) => Some(format!("{} results for {n} formulae", v.len())),
                    Ok(Err(e)) => Some(format!("Err: {e}")),
                    Err(p) => Some(format!("panic: {p}")),
                };
                if let Some(w) = what {
                    rep.violations.push(Violation { case: json!({"kind": "none"}), what: format!("{name} on a batch of {n} formulae (order {oi}) on con2: {w}"), size: 900 });
                }
            }
        }
        // long EXTENDED batches: wild-cards and restricted domains mixed with plain formulae
        let (desc, labels) = crate::sweep::label_families(&b, 1).remove(0);
        let ectx = NetCtx::new(b.clone(), labels, &desc);
        let mut ext: Vec<F> = Gen::new(Alphabet::extended(2, 2, 1, 2)).closed_up_to(3);
        ext.retain(|f| f.size() >= 2);
        for (oi, stride) in [7usize, 13, 1].iter().enumerate() {
            let idx: Vec<usize> = (0..n).map(|i| (i * stride * 5 + oi * 11) % ext.len()).collect();
            let texts: Vec<String> = idx.iter().map(|i| ext[*i].show(&ectx.user)).collect();
            let ts: Vec<&str> = texts.iter().map(|s| s.as_str()).collect();
            let single: Vec<Result<GraphColoredVertices, String>> = texts.iter().map(|t| mc::model_check_extended_formula_dirty(t, &b.graph, &ectx.sets)).collect();
            let single_clean: Vec<Result<GraphColoredVertices, String>> = texts.iter().map(|t| mc::model_check_extended_formula(t, &b.graph, &ectx.sets)).collect();
            let runs: Vec<(&str, &Vec<Result<GraphColoredVertices, String>>, Result<Result<Vec<GraphColoredVertices>, String>, String>)> = vec![
                ("model_check_multiple_extended_formulae_dirty", &single, guarded(AssertUnwindSafe(|| mc::model_check_multiple_extended_formulae_dirty(ts.clone(), &b.graph, &ectx.sets)))),
                ("model_check_multiple_extended_formulae", &single_clean, guarded(AssertUnwindSafe(|| mc::model_check_multiple_extended_formulae(ts.clone(), &b.graph, &ectx.sets)))),
            ];
            for (name, reference, r) in runs {
                n_long += 1;
                let what = match r {
                    Ok(Ok(v)) if v.len() == n => (0..n).find(|i| reference[*i].as_ref().map(|s| s != &v[*i]).unwrap_or(true)).map(|i| format!("position {i} ({}) does not carry the result of its formula", texts[i])),
                    Ok(Ok(v)) => Some(format!("{} results for {n} formulae", v.len())),
                    Ok(Err(e)) => Some(format!("Err: {e}")),
                    Err(p) => Some(format!("panic: {p}")),
                };
                if let Some(w) = what {
                    rep.violations.push(Violation { case: json!({"kind": "none"}), what: format!("{name} on a batch of {n} extended formulae (order {oi}, labels {desc}) on con2: {w}"), size: 901 });
                }
            }
        }
        rep.evaluations += n_long * n as u64;
        rep.set("long_batches", json!({"formulae_per_batch": n, "orders": 3, "entry_points": 5}));
    }
    // operator pairs over the SAME operands in one batch / one formula: cache keys are built from printed text, so two
    // operators must never share a key (every ordered pair of unary operators, of binary operators, of quantifiers)
    {
        use biodivine_hctl_model_checker::model_checking as mc;
        let mut n_pairs = 0u64;
        let (mut n_distinct, mut n_weak_distinct) = (0u64, 0u64);
        for b in nets.iter().filter(|b| b.n >= 2 && b.spec.vars[0] == "a" && b.spec.vars[1] == "b" && (tier != "quick" || ["con2", "asy2", "unc2", "cyc3", "tog2"].contains(&b.name.as_str()))) {
            let name = b.name.as_str();
            let mut forms: Vec<Vec<String>> = vec![];
            forms.push(["~", "EX", "AX", "EF", "AF", "EG", "AG"].iter().map(|u| format!("{u} (a & ~b)")).collect());
            for (l, r) in [("a", "b"), ("(~a)", "b"), ("a", "(~b)"), ("(a | b)", "(~a)"), ("b", "a"), ("(~a)", "(a & b)"), ("(a | ~b)", "(~a & b)"), ("(~b)", "(a & ~b)")] {
                forms.push(["&", "|", "^", "=>", "<=>", "EU", "AU", "EW", "AW"].iter().map(|o| format!("{l} {o} {r}")).collect());
                // ... the same one level down (sub-formulae, not whole formulae, are what the cache holds)
                forms.push(["&", "|", "^", "=>", "<=>", "EU", "AU", "EW", "AW"].iter().map(|o| format!("EX ({l} {o} {r})")).collect());
            }
            forms.push(["~", "EX", "AX", "EF", "AF", "EG", "AG"].iter().map(|u| format!("EF ({u} (a & ~b))")).collect());
            forms.push(["&", "|", "^", "=>", "<=>", "EU", "AU", "EW", "AW"].iter().map(|o| format!("!{{x}}: EX (({{x}} | a) {o} b)")).collect());
            forms.push(["!{x}:", "3{x}:", "V{x}:"].iter().map(|q| format!("{q} (AX ({{x}} | a))")).collect());
            for group in &forms {
                let single: Vec<Result<GraphColoredVertices, String>> = group.iter().map(|t| mc::model_check_formula_dirty(t, &b.graph)).collect();
                for i in 0..group.len() {
                    for j in 0..group.len() {
                        if i == j {
                            continue;
                        }
                        n_pairs += 1;
                        if let (Ok(x), Ok(y)) = (&single[i], &single[j]) {
                            if x != y {
                                n_distinct += 1;
                                if group[i].contains("EW") && group[j].contains("AW") {
                                    n_weak_distinct += 1;
                                }
                            }
                        }
                        let both = format!("({}) & ~({})", group[i], group[j]);
                        let batch = guarded(AssertUnwindSafe(|| mc::model_check_multiple_formulae_dirty(vec![group[i].as_str(), group[j].as_str(), both.as_str()], &b.graph)));
                        let what = match (batch, &single[i], &single[j]) {
                            (Ok(Ok(v)), Ok(si), Ok(sj)) if v.len() == 3 => {
                                use biodivine_lib_param_bn::biodivine_std::traits::Set;
                                if &v[0] != si {
                                    Some(format!("position 0 (`{}`) differs from evaluating it alone", group[i]))
                                } else if &v[1] != sj {
                                    Some(format!("position 1 (`{}`) differs from evaluating it alone", group[j]))
                                } else if v[2] != si.minus(sj) {
                                    Some(format!("`{both}` differs from the difference of the two sets evaluated alone"))
                                } else {
                                    None
                                }
                            }
                            (Ok(Ok(v)), _, _) => Some(format!("{} results / single evaluation failed", v.len())),
                            (Ok(Err(e)), _, _) => Some(format!("Err: {e}")),
                            (Err(p), _, _) => Some(format!("panic: {p}")),
                        };
                        if let Some(w) = what {
                            rep.violations.push(Violation { case: json!({"kind": "none"}), what: format!("operator pair batch [`{}`, `{}`, both] on {name}: {w}", group[i], group[j]), size: 700 });
                        }
                    }
                }
            }
        }
        if n_weak_distinct == 0 {
            return Err("operator-pair batches are vacuous: EW and AW never differ on the chosen operands".into());
        }
        rep.evaluations += n_pairs * 3;
        rep.set("operator_pair_batches", json!({"batches": n_pairs, "pairs_with_different_results": n_distinct, "EW_AW_pairs_with_different_results": n_weak_distinct}));
    }
    // sharing inside one formula on the template families and on all small extended formulae
    let mut n_single = 0u64;
    for b in nets.iter().filter(|b| ["con2", "asy2"].contains(&b.name.as_str()) || (tier != "quick" && ["imp1", "unc2", "cyc3"].contains(&b.name.as_str()))) {
        let fams = label_families(b, 4);
        for (desc, labels) in [fams[0].clone(), fams[3].clone()] {
            let ctx = Arc::new(NetCtx::new(b.clone(), labels, &desc));
            let mut fs = templates(&ctx.user, true, if tier == "quick" { 3 } else { 8 });
            let mut g = Gen::new(Alphabet::extended(ctx.nprops(), 2, 1, 2));
            fs.extend(g.closed_up_to(if tier == "quick" { 3 } else { 4 }));
            fs.extend(duplicate_templates(ctx.nprops(), if tier == "quick" { 4 } else { 5 }, true, true));
            // closed duplicates inside / outside restricted scopes (also next to a nested quantifier with an empty domain), wild-cards
            // counted across scopes
            fs.extend(crate::formulas::restricted_scope_duplicates(&ctx.user));
            fs.extend(crate::formulas::wildcard_count_texts().iter().map(|t| crate::formulas::f(&crate::formulas::with_props_of(t, &ctx.user), &ctx.user)));
            if ctx.b.n >= 2 {
                let pool: Vec<F> = collision_alphabet(&ctx.user).into_iter().take(if tier == "quick" { 14 } else { 28 }).collect();
                fs.extend(pair_family(&pool, if tier == "quick" { 6 } else { 12 }, true));
            }
            n_single += fs.len() as u64;
            let bad: Vec<Violation> = fs
                .par_chunks(256)
                .flat_map(|chunk| {
                    let env = Env::new(ctx.clone(), chunk);
                    let mut out = vec![];
                    for i in 0..chunk.len() {
                        let w = match &env.entries[i].alone {
                            Ok(a) => env.judge(i, a),
                            Err(p) => Some(format!("evaluating `{}` alone panics: {p}", env.entries[i].text)),
                        };
                        if let Some(w) = w {
                            out.push(Violation { case: case(&ctx, &[chunk[i].clone()], &[0]), what: format!("[single formula on {} labels={}] {w}", ctx.b.name, ctx.label_desc), size: chunk[i].size() });
                        }
                    }
                    out
                })
                .collect();
            rep.evaluations += fs.len() as u64 * 2;
            rep.violations.extend(bad.into_iter().take(100));
        }
    }
    rep.set("single_formula_shared_vs_unshared_cases", json!(n_single));
    // cache hits that need a renaming, on graphs whose network variables have different numbers of spare variables: formulae with
    // one-free-variable sub-formulae duplicated under different names (duplicate templates, benchmark shapes) must give the result
    // of the uniform graph (which the other parts hold against single / unshared evaluation and the oracle)
    {
        let mut n_non = 0u64;
        for b in nets.iter().filter(|b| ["con2", "asy2", "cyc3"].contains(&b.name.as_str())) {
            let nm = crate::formulas::Names::user(&[b.spec.vars[0].clone(), b.spec.vars[b.n - 1].clone()]);
            let mut fs = templates(&nm, false, if tier == "quick" { 4 } else { 8 });
            fs.extend(duplicate_templates(2, if tier == "quick" { 3 } else { 4 }, true, false));
            let texts: Vec<String> = fs.iter().filter(|f| f.qdepth() >= 2).map(|f| f.show(&nm)).collect();
            let depth = |t: &str| crate::refparser::parse_str(t, false).map(|x| x.qdepth()).unwrap_or(99);
            n_non += texts.len() as u64;
            for w in nonuniform_check(b, &texts, &depth) {
                if w.starts_with("harness:") {
                    return Err(w);
                }
                rep.violations.push(Violation { case: json!({"kind": "none"}), what: format!("on {}: {w}", b.name), size: 30 });
            }
        }
        rep.evaluations += n_non * 4 * 3;
        rep.add_count("renaming_cache_hits_on_graphs_with_per_variable_spare_counts", n_non);
    }
    // caches that outlive a call: two-step histories over look-alike graphs, plain and extended probes
    {
        let units: Vec<_> = nets.iter().filter(|b| b.name == "con2").cloned().collect();
        let fam = crate::history::family(tier, 3, &units);
        crate::history::run(&mut rep, &fam, crate::history::WARM_PLAIN, crate::history::PROBE_PLAIN, sem::Checks { semantic: true, unit: true, entries: sem::Entries::Plain4 }, 0)?;
        crate::history::run(&mut rep, &fam, crate::history::WARM_EXT, crate::history::PROBE_EXT, sem::Checks { semantic: true, unit: true, entries: sem::Entries::Ext2 }, 0)?;
    }
    rep.rule = "plus two-step histories: ordered pairs of look-alike graphs (networks over a, b with identical symbolic encoding but other update functions, with and without a shared function symbol; the same network with the unit set restricted to every second / the last colour) - warm-up formulae on the first graph, then probe formulae on the second on one fresh OS thread, every probe result against the explicit-state oracle and the unit set; (also: every ordered pair of different unary operators / binary operators / quantifiers applied to the SAME operands as one batch [A, B, A & ~B] against single evaluation - cache keys are printed text; three long batches of 48 / 96 node-bounded formulae (tied heights, three orders) through model_check_multiple_formulae_dirty / _extended_formulae_dirty / _trees_dirty, and of extended formulae (wild-cards, restricted domains mixed with plain ones) through model_check_multiple_extended_formulae(_dirty), position by position against single evaluation; the same exploration and every ordered list of up to 5 (thorough 6) formulae over a three-formula alphabet - repetition patterns such as [A, A, B, B]) stateright BFS over the real EvalContext: initial states = every multiset of size <= max_batch_len over the collision alphabet (marked as a batch exactly as the entry points do), transitions = real eval_node on any not-yet-evaluated position, states merged by (batch, set of evaluated positions, sha256 digest of the context). In every reached state the new result must equal (BDD equality) the result of the formula evaluated alone and with sharing disabled, and the explicit-state oracle; no panic. Every ordered list of length <= max_batch_len additionally goes through model_check_multiple_extended_formulae_dirty (twice, and with an observer), model_check_multiple_extended_formulae and, for plain lists, model_check_multiple_formulae_dirty. Plus alone-vs-unshared-vs-oracle for every template formula and small extended formula. distinct_nontrivial = number of distinct context digests reached".into();
    Ok(rep)
}
