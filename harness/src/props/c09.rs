//! C09 — canonical forms identify exactly the sub-formulae equal up to renaming; duplicate
//! marking only reports sub-formulae that really occur that often (with identical domains).

use crate::formulas::{collision_alphabet, Bi, Hy, Names, Un};
use crate::refparser::{self as rp, alpha_eq, T};
use crate::report::{guarded, Report, Violation};
use crate::trees::{TreeAlphabet, TreeGen};
use biodivine_hctl_model_checker::evaluation::mark_duplicates::{mark_duplicates_canonized_multiple, mark_duplicates_canonized_single};
use biodivine_hctl_model_checker::evaluation::verif_hooks::{get_canonical, get_canonical_and_renaming};
use rayon::prelude::*;
use serde_json::{json, Value};
use std::collections::{BTreeMap, BTreeSet, HashMap, HashSet};

/// Independent normal form: bound variables by binder level (relative to the sub-tree root), free
/// variables numbered by first occurrence.
pub fn normal_form(t: &T) -> T {
    let mut free = vec![];
    t.free_vars(&mut vec![], &mut free);
    fn go(t: &T, scope: &mut Vec<String>, free: &[String]) -> T {
        let name = |scope: &Vec<String>, v: &String| match scope.iter().rposition(|x| x == v) {
            Some(i) => format!("#{i}"),
            None => format!("?{}", free.iter().position(|x| x == v).unwrap()),
        };
        match t {
            T::Var(v) => T::Var(name(scope, v)),
            T::Un(o, c) => T::Un(*o, Box::new(go(c, scope, free))),
            T::Bin(o, l, r) => T::Bin(*o, Box::new(go(l, scope, free)), Box::new(go(r, scope, free))),
            T::Hy(Hy::Jump, v, d, c) => T::Hy(Hy::Jump, name(scope, v), d.clone(), Box::new(go(c, scope, free))),
            T::Hy(o, v, d, c) => {
                let n = format!("#{}", scope.len());
                scope.push(v.clone());
                let c = go(c, scope, free);
                scope.pop();
                T::Hy(*o, n, d.clone(), Box::new(c))
            }
            other => other.clone(),
        }
    }
    go(t, &mut vec![], &free)
}

fn rename_free(t: &T, scope: &mut Vec<String>, map: &HashMap<String, String>) -> Option<T> {
    let nm = |scope: &Vec<String>, v: &String| -> Option<String> {
        if scope.contains(v) {
            Some(v.clone())
        } else {
            map.get(v).cloned()
        }
    };
    Some(match t {
        T::Var(v) => T::Var(nm(scope, v)?),
        T::Un(o, c) => T::Un(*o, Box::new(rename_free(c, scope, map)?)),
        T::Bin(o, l, r) => T::Bin(*o, Box::new(rename_free(l, scope, map)?), Box::new(rename_free(r, scope, map)?)),
        T::Hy(Hy::Jump, v, d, c) => T::Hy(Hy::Jump, nm(scope, v)?, d.clone(), Box::new(rename_free(c, scope, map)?)),
        T::Hy(o, v, d, c) => {
            scope.push(v.clone());
            let c = rename_free(c, scope, map);
            scope.pop();
            T::Hy(*o, v.clone(), d.clone(), Box::new(c?))
        }
        other => other.clone(),
    })
}

/// Obligations for one sub-tree: renaming total + injective on free variables and consistent with
/// the canonical text; canonising the canonical form changes nothing.
/// The text the library stores for this sub-tree (what evaluation and marking really canonise).
fn lib_text(t: &T) -> String {
    t.to_lib().to_string()
}

pub fn check_one(t: &T) -> Option<String> {
    let text = lib_text(t);
    let r = guarded(|| {
        let (canon, renaming) = get_canonical_and_renaming(text.clone());
        if get_canonical(text.clone()) != canon {
            return Some("get_canonical and get_canonical_and_renaming disagree".to_string());
        }
        let again = get_canonical(canon.clone());
        if again != canon {
            return Some(format!("canonising the canonical form {canon:?} gives {again:?}"));
        }
        let ct = match rp::parse_str(&canon, true) {
            Ok(c) => c,
            Err(e) => return Some(format!("canonical form {canon:?} is not a formula: {e}")),
        };
        let mut free = vec![];
        t.free_vars(&mut vec![], &mut free);
        let mut images = BTreeSet::new();
        for v in &free {
            match renaming.get(v) {
                None => return Some(format!("renaming lacks the free variable {v}")),
                Some(c) => {
                    if !images.insert(c.clone()) {
                        return Some(format!("renaming is not injective on free variables: {renaming:?}"));
                    }
                }
            }
        }
        // the canonical form must be the sub-formula with its free variables renamed by the map
        // (bound variables up to alpha-renaming)
        match rename_free(t, &mut vec![], &renaming) {
            None => return Some("renaming is not total on the free variables".to_string()),
            Some(t2) => {
                if t2.debruijn(&mut vec![]) != ct.debruijn(&mut vec![]) {
                    return Some(format!("canonical form {canon} is not the sub-formula renamed by {renaming:?}"));
                }
            }
        }
        if !alpha_eq(t, &ct) {
            return Some(format!("canonical form {canon} is not alpha-equivalent to the sub-formula"));
        }
        None
    });
    match r {
        Ok(v) => v,
        Err(p) => Some(format!("panic: {p}")),
    }
}

/// All occurrences of sub-trees with the domains of their free variables (from enclosing binders).
fn occurrences<'a>(t: &'a T, scope: &mut Vec<(String, Option<String>)>, out: &mut Vec<(&'a T, Vec<(String, Option<String>)>)>) {
    out.push((t, scope.clone()));
    match t {
        T::Un(_, c) => occurrences(c, scope, out),
        T::Bin(_, l, r) => {
            occurrences(l, scope, out);
            occurrences(r, scope, out)
        }
        T::Hy(Hy::Jump, _, _, c) => occurrences(c, scope, out),
        T::Hy(_, v, d, c) => {
            scope.push((v.clone(), d.clone()));
            occurrences(c, scope, out);
            scope.pop();
        }
        _ => {}
    }
}

/// (normal form, domains of the free variables in normal-form numbering)
fn occurrence_key(t: &T, scope: &[(String, Option<String>)]) -> (T, Vec<Option<String>>) {
    let mut free = vec![];
    t.free_vars(&mut vec![], &mut free);
    let doms = free
        .iter()
        .map(|v| scope.iter().rev().find(|(n, _)| n == v).map(|(_, d)| d.clone()).unwrap_or(Some("<unbound>".into())))
        .collect();
    (normal_form(t), doms)
}

/// Check the duplicate marking of a list of (preprocessed) formulae.
pub fn check_marking(list: &[T]) -> Option<String> {
    let trees: Vec<_> = list.iter().map(|t| t.to_lib()).collect();
    let r = guarded(std::panic::AssertUnwindSafe(|| {
        let marked = mark_duplicates_canonized_multiple(&trees);
        if list.len() == 1 {
            let single = mark_duplicates_canonized_single(&trees[0]);
            if single != marked {
                return Some(format!("mark_duplicates_canonized_single gives {single:?}, _multiple on the singleton list {marked:?}"));
            }
        }
        // independent occurrence counts
        let mut counts: HashMap<(T, Vec<Option<String>>), i32> = HashMap::new();
        for t in list {
            let mut occ = vec![];
            occurrences(t, &mut vec![], &mut occ);
            for (s, scope) in occ {
                *counts.entry(occurrence_key(s, &scope)).or_insert(0) += 1;
            }
        }
        for ((canon, domains), n) in &marked {
            let ct = match rp::parse_str(canon, true) {
                Ok(c) => c,
                Err(e) => return Some(format!("reported duplicate {canon:?} is not a formula: {e}")),
            };
            let mut free = vec![];
            ct.free_vars(&mut vec![], &mut free);
            let mut doms = vec![];
            for v in &free {
                match domains.get(v) {
                    Some(d) => doms.push(d.clone()),
                    None => return Some(format!("reported duplicate {canon} lacks the domain of its free variable {v}: {domains:?}")),
                }
            }
            if domains.len() != free.len() {
                return Some(format!("reported duplicate {canon} lists domains {domains:?} but has free variables {free:?}"));
            }
            let have = counts.get(&(normal_form(&ct), doms.clone())).copied().unwrap_or(0);
            if *n < 1 {
                return Some(format!("reported duplicate {canon} has counter {n}"));
            }
            if have < n + 1 {
                return Some(format!(
                    "{canon} with domains {domains:?} is reported with counter {n} but occurs only {have} time(s) up to renaming with identical domains of its free variables"
                ));
            }
        }
        None
    }));
    match r {
        Ok(v) => v,
        Err(p) => Some(format!("panic: {p}")),
    }
}

pub fn replay(case: &Value) -> Option<String> {
    if let Some(l) = case.get("list") {
        let list: Vec<T> = serde_json::from_value(l.clone()).ok()?;
        return check_marking(&list);
    }
    if let Some(p) = case.get("pair") {
        let pair: Vec<T> = serde_json::from_value(p.clone()).ok()?;
        let (ca, cb) = (get_canonical(lib_text(&pair[0])), get_canonical(lib_text(&pair[1])));
        let ae = alpha_eq(&pair[0], &pair[1]);
        if (ca == cb) != ae {
            return Some(format!("canonical forms {} / {} but alpha_eq = {ae}", ca, cb));
        }
        return None;
    }
    let t: T = serde_json::from_value(case["tree"].clone()).ok()?;
    check_one(&t)
}

fn alphabet(ext: bool) -> TreeAlphabet {
    let s = |v: &[&str]| v.iter().map(|x| x.to_string()).collect::<Vec<_>>();
    TreeAlphabet {
        consts: vec![true],
        props: s(&["a"]),
        vars: s(&["x", "y", "z"]),
        wilds: if ext { s(&["p"]) } else { vec![] },
        doms: if ext { s(&["d", "e"]) } else { vec![] },
        un: vec![Un::Not, Un::AX],
        bi: crate::formulas::ALL_BI.to_vec(),
        quant: vec![Hy::Bind, Hy::Forall],
        jump: true,
    }
}

pub fn run(tier: &str) -> Result<Report, String> {
    let mut rep = Report::new("C09", tier, "exploration");
    let s_max = 6; // 7 needs more than 40 GB for the set of distinct sub-trees
    // 1. sub-trees of all preprocessed formulae up to s_max nodes
    let props = vec!["a".to_string()];
    let mut subs: BTreeSet<T> = BTreeSet::new();
    let mut formulas: Vec<T> = vec![];
    let mut deep_marking: Vec<T> = vec![];
    for ext in [false, true] {
        let mut g = TreeGen::new(alphabet(ext));
        let top = if ext { s_max.min(4) } else { s_max };
        for size in 1..=top {
            for t in g.exact(size).iter() {
                if t.scope_ok(&mut vec![], &props) {
                    let m = t.minimized(&mut vec![]);
                    let mut v = vec![];
                    m.subtrees(&mut v);
                    for s in v {
                        subs.insert(s.clone());
                    }
                    formulas.push(m);
                }
            }
        }
    }
    // deeper shapes over a tiny alphabet (sibling quantifiers re-using a depth name, free variables
    // first occurring after them, jumps), and the template families
    {
        use crate::formulas::{duplicate_templates, templates, Alphabet, Gen};
        let nm = Names::minimized(&["a".to_string(), "b".to_string()]);
        let alpha = Alphabet { consts: vec![], nprops: 1, nwilds: 0, ndoms: 0, un: vec![Un::AX], bi: vec![Bi::And], quant: vec![Hy::Exists], jump: true, maxdepth: 3 };
        let mut g = Gen::new(alpha);
        let mut deep: Vec<crate::formulas::F> = g.closed_up_to(if tier == "quick" { 7 } else { 8 });
        let n_deep = deep.len();
        deep.extend(templates(&Names::user(&["a".to_string(), "b".to_string()]), true, if tier == "quick" { 3 } else { 8 }));
        deep.extend(duplicate_templates(1, if tier == "quick" { 4 } else { 5 }, false, true));
        // nests of 4..12 quantifiers: canonical names var0..var11 (var1 is a prefix of var10, var11)
        deep.extend(crate::formulas::deep_nests(&Names::user(&["a".to_string(), "b".to_string()]), 12));
        rep.set("deep_tiny_alphabet_formulae", json!(n_deep));
        rep.set("template_formulae", json!(deep.len() - n_deep));
        for f in &deep {
            let t = T::from_lib(&f.to_tree(&nm));
            if f.size() >= 6 {
                deep_marking.push(t.clone());
            }
            let mut v = vec![];
            t.subtrees(&mut v);
            for s in v {
                subs.insert(s.clone());
            }
        }
    }
    // nests of 13..24 and 33 quantifiers (canonical names var12.. : two-digit indices, more names than any
    // prepared table), names by nesting depth; every sub-formula (1..d free variables) goes to the set
    {
        let mut n_wide = 0u64;
        for d in [13usize, 14, 15, 16, 17, 18, 20, 24, 33] {
            for variant in 0..3 {
                let name = |i: usize| "x".repeat(i + 1);
                let mut q = String::new();
                for i in 0..d {
                    q.push_str(&format!("{}{{{}}}: ", ["!", "3", "V"][(i + variant) % 3], name(i)));
                }
                let body: Vec<String> = match variant {
                    0 => (0..d).map(|i| format!("{{{}}}", name(i))).collect(),
                    1 => (0..d).rev().map(|i| format!("AX {{{}}}", name(i))).collect(),
                    _ => (0..d).map(|i| format!("(@{{{}}}: {{{}}})", name(i), name((i * 5 + 3) % d))).collect(),
                };
                // right-nested conjunction: the innermost pair is the last two variables
                let mut b = body[d - 1].clone();
                for i in (0..d - 1).rev() {
                    b = format!("({} & {})", body[i], b);
                }
                let text = format!("{q}(EF {b})");
                let t = rp::parse_str(&text, true).map_err(|e| format!("harness: wide nest does not parse: {e}"))?;
                let mut v = vec![];
                t.subtrees(&mut v);
                for s in v {
                    subs.insert(s.clone());
                }
                n_wide += 1;
            }
        }
        rep.set("wide_nests", json!(n_wide));
    }
    // identifier shapes: the canoniser works on the characters of the stored text, so names that end in
    // / consist of the quantifier symbols (p53, HIV, V, 3x, ...), names of canonical variables (var0) and
    // such labels, in every operand position
    {
        let names = ["p53", "HIV", "V", "3x", "a3", "x", "V3", "EXa", "A", "E", "var0", "var1", "in", "é", "stabilní", "細胞", "𝔸b"];
        let labels = ["3", "V", "d3", "dV", "var0", "x", "é_2", "細胞"];
        let shapes = [
            "(N & a)", "(a & N)", "(N EU {x})", "({x} AW N)", "(~ N)", "(N => (AX N))", "(!{x}: (N & {x}))", "(!{x}: ({x} | N))", "(3{x} in %L%: (@{x}: (N ^ {x})))",
            "(%L% & N)", "(N <=> %L%)", "(V{x} in %L%: (N AU {x}))", "(!{x}: (!{xx}: ((N & {xx}) EW {x})))",
        ];
        let mut n_shapes = 0u64;
        for sh in shapes {
            for n in names {
                for l in labels {
                    if !sh.contains('L') && l != labels[0] {
                        continue;
                    }
                    let text = sh.replace('N', n).replace('L', l);
                    match rp::parse_str(&text, true) {
                        Ok(t) => {
                            n_shapes += 1;
                            let mut v = vec![];
                            t.subtrees(&mut v);
                            for x in v {
                                subs.insert(x.clone());
                            }
                        }
                        // a few names are no propositions by the grammar (a lone V or 3): not part of the family
                        Err(_) => {}
                    }
                }
            }
        }
        rep.set("identifier_shape_formulae", json!(n_shapes));
    }
    formulas.sort();
    formulas.dedup();
    let subs: Vec<T> = subs.into_iter().collect();
    rep.set("preprocessed_formulae", json!(formulas.len()));
    rep.set("distinct_subtrees", json!(subs.len()));
    // per-sub-tree obligations
    let bad: Vec<Violation> = subs
        .par_iter()
        .filter_map(|t| check_one(t).map(|w| Violation { case: json!({"kind": "canon", "tree": t}), what: format!("sub-formula {}: {w}", t.render()), size: t.size() }))
        .collect();
    rep.evaluations += subs.len() as u64;
    rep.violations.extend(bad.into_iter().take(50));
    // partition check (equivalent to all pairs): canonical text <-> independent normal form
    let canon: Vec<String> = subs.par_iter().map(|t| guarded(|| get_canonical(lib_text(t))).unwrap_or_else(|p| format!("<panic {p}>"))).collect();
    let nf: Vec<T> = subs.par_iter().map(normal_form).collect();
    let mut by_canon: HashMap<&String, usize> = HashMap::new();
    let mut by_nf: HashMap<&T, usize> = HashMap::new();
    for i in 0..subs.len() {
        let a = *by_canon.entry(&canon[i]).or_insert(i);
        let b = *by_nf.entry(&nf[i]).or_insert(i);
        if nf[a] != nf[i] {
            rep.violations.push(Violation {
                case: json!({"kind": "canon", "pair": [subs[a], subs[i]]}),
                what: format!("{} and {} get the same canonical form {} but are not equal up to renaming", subs[a].render(), subs[i].render(), canon[i]),
                size: subs[i].size(),
            });
        }
        if canon[b] != canon[i] {
            rep.violations.push(Violation {
                case: json!({"kind": "canon", "pair": [subs[b], subs[i]]}),
                what: format!("{} and {} are equal up to renaming but get canonical forms {} / {}", subs[b].render(), subs[i].render(), canon[b], canon[i]),
                size: subs[i].size(),
            });
        }
    }
    rep.set("canonical_classes", json!(by_canon.len()));
    rep.set("alpha_equivalence_classes", json!(by_nf.len()));
    rep.distinct_nontrivial += by_nf.len() as u64;
    // explicit all-pairs check with the structural alpha-equivalence decision (bounded number of sub-trees)
    let cap = if tier == "quick" { 2500 } else { 6000 };
    let step = (subs.len() / cap).max(1);
    let sel: Vec<usize> = (0..subs.len()).step_by(step).collect();
    let pair_bad: Vec<Violation> = sel
        .par_iter()
        .flat_map(|&i| {
            let mut out = vec![];
            for &j in &sel {
                if j <= i {
                    continue;
                }
                let ae = alpha_eq(&subs[i], &subs[j]);
                if ae != (canon[i] == canon[j]) && out.len() < 3 {
                    out.push(Violation {
                        case: json!({"kind": "canon", "pair": [subs[i], subs[j]]}),
                        what: format!("{} vs {}: canonical forms {} / {}, alpha-equivalent: {ae}", subs[i].render(), subs[j].render(), canon[i], canon[j]),
                        size: subs[i].size() + subs[j].size(),
                    });
                }
            }
            out
        })
        .collect();
    let npairs = (sel.len() * (sel.len().saturating_sub(1)) / 2) as u64;
    rep.set("explicit_pairs_checked", json!(npairs));
    if step > 1 {
        rep.set("explicit_pairs_note", json!(format!("all-pairs traversal on every {step}-th sub-tree; the partition check above covers all pairs")));
    }
    rep.evaluations += npairs;
    rep.violations.extend(pair_bad.into_iter().take(50));
    // 1b. volume on ONE thread: several hundred thousand distinct sub-formulae of the same length, canonised one after the other
    //     on this thread, each against its closed form (anything that remembers earlier inputs under a short fingerprint - a
    //     32-bit hash has a collision among ~80 000 strings - shows here and nowhere else)
    {
        let n_vol: usize = if tier == "quick" { 1_000_000 } else { 5_000_000 };
        let mut n_bad = 0;
        for i in 0..n_vol {
            // names g<i> without padding: 900 000 names of six digits share one length
            let shapes: Vec<(String, String, Vec<(&str, &str)>)> = {
                let mut v = vec![(format!("(AX g{i})"), format!("(AX g{i})"), vec![])];
                match i % 3 {
                    1 => v.push((format!("(EF ({{x}} & g{i}))"), format!("(EF ({{var0}} & g{i}))"), vec![("x", "var0")])),
                    2 => v.push((format!("(!{{xx}}: ({{x}} EU ({{xx}} | g{i})))"), format!("(!{{var0}}: ({{var1}} EU ({{var0}} | g{i})))"), vec![("x", "var1")])),
                    _ => {}
                }
                v
            };
            for (text, want_c, want_r) in shapes {
            let got = guarded(|| get_canonical_and_renaming(text.clone()));
            let what = match got {
                Ok((c, r)) => {
                    if c != want_c {
                        Some(format!("canonical form {c:?}, expected {want_c:?}"))
                    } else if want_r.iter().any(|(k, v)| r.get(*k).map(|x| x.as_str()) != Some(*v)) {
                        Some(format!("renaming {r:?}, expected at least {want_r:?}"))
                    } else {
                        None
                    }
                }
                Err(p) => Some(format!("panic: {p}")),
            };
            if let Some(w) = what {
                n_bad += 1;
                if n_bad <= 5 {
                    rep.violations.push(Violation { case: json!({"kind": "none"}), what: format!("sub-formula {text} canonised as number {i} of a long sequence on one thread: {w}"), size: 40 });
                }
            }
            }
        }
        rep.evaluations += n_vol as u64 * 5 / 3;
        rep.set("same_length_subformulae_canonised_in_sequence_on_one_thread", json!(n_vol));
    }
    // 2. duplicate marking: every single preprocessed formula, all pairs of a subset, all lists <= 3 of the collision alphabet
    let single_bad: Vec<Violation> = formulas
        .par_iter()
        .filter_map(|t| check_marking(std::slice::from_ref(t)).map(|w| Violation { case: json!({"kind": "canon", "list": [t]}), what: format!("marking of [{}]: {w}", t.render()), size: t.size() }))
        .collect();
    rep.evaluations += formulas.len() as u64;
    rep.violations.extend(single_bad.into_iter().take(50));
    // marking of every larger template / tiny-alphabet formula (they contain duplicates by construction)
    let deep_bad: Vec<Violation> = deep_marking
        .par_iter()
        .filter_map(|t| check_marking(std::slice::from_ref(t)).map(|w| Violation { case: json!({"kind": "canon", "list": [t]}), what: format!("marking of [{}]: {w}", t.render()), size: t.size() }))
        .collect();
    rep.evaluations += deep_marking.len() as u64;
    rep.set("marking_of_template_and_deep_formulae", json!(deep_marking.len()));
    rep.violations.extend(deep_bad.into_iter().take(40));
    let nm = Names::user(&["a".to_string(), "b".to_string()]);
    let mut pool: Vec<T> = collision_alphabet(&nm)
        .iter()
        .map(|f| rp::parse_str(&f.show(&nm), true).unwrap().minimized(&mut vec![]))
        .collect();
    // add formulae with duplicated one-variable sub-formulae under jumps inside domain scopes
    for s in [
        "!{x} in %d%: ((@{x}: AX {x}) & (!{y}: (a & AX {y})))",
        "!{x} in %d%: !{y} in %e%: ((@{x}: AX {x}) & (@{y}: AX {y}))",
        "3{x}: (@{x}: %p% & AX {x}) | (!{y} in %d%: %p% & AX {y})",
        "!{x}: 3{y} in %d%: (AX {x}) & (@{y}: AX {y}) & (!{z} in %d%: AX {z})",
        "(!{x}: AX (AX {x})) & (!{y} in %d%: AX (AX {y})) & (!{z}: AX (AX {z}))",
        "(V{x} in %d%: AG EF {x}) & AX (V{x} in %e%: AG EF {x})",
        "V{x}: (AX {x} & EX (AX {x}))",
        "(V{x}: AX (EX {x})) | (!{y}: AX (EX {y})) | (V{z} in %d%: AX (EX {z}))",
    ] {
        pool.push(rp::parse_str(s, true).unwrap().minimized(&mut vec![]));
    }
    if tier == "quick" {
        pool.truncate(14);
        pool.extend(
            ["!{x} in %d%: ((@{x}: AX {x}) & (!{y}: (a & AX {y})))", "!{x} in %d%: !{y} in %e%: ((@{x}: AX {x}) & (@{y}: AX {y}))", "(V{x} in %d%: AG EF {x}) & AX (V{x} in %e%: AG EF {x})", "V{x}: (AX {x} & EX (AX {x}))"]
                .iter()
                .map(|s| rp::parse_str(s, true).unwrap().minimized(&mut vec![])),
        );
    }
    let n = pool.len();
    let mut lists: Vec<Vec<usize>> = vec![];
    for l in 1..=3usize {
        for mut code in 0..n.pow(l as u32) {
            let mut v = vec![];
            for _ in 0..l {
                v.push(code % n);
                code /= n;
            }
            lists.push(v);
        }
    }
    let list_bad: Vec<Violation> = lists
        .par_iter()
        .filter_map(|l| {
            let ts: Vec<T> = l.iter().map(|i| pool[*i].clone()).collect();
            check_marking(&ts).map(|w| Violation {
                case: json!({"kind": "canon", "list": ts}),
                what: format!("marking of {:?}: {w}", ts.iter().map(|t| t.render()).collect::<Vec<_>>()),
                size: ts.iter().map(|t| t.size()).sum(),
            })
        })
        .collect();
    rep.set("marking_lists_checked", json!(lists.len()));
    rep.evaluations += lists.len() as u64;
    rep.add_count("failing_marking_lists", list_bad.len() as u64);
    let mut lb = list_bad;
    lb.sort_by_key(|v| v.size);
    rep.violations.extend(lb.into_iter().take(40));
    rep.sample(json!({"subtree": "(AX {xx})", "canonical": get_canonical("(AX {xx})".to_string())}));
    rep.sample(json!({"marking_list": [pool[1].render(), pool[5].render()]}));
    rep.rule = format!("every distinct sub-tree of every well-scoped, preprocessed formula with <= {s_max} nodes (plain alphabet) / <= 4 nodes (with wild-cards and two domain labels), of every closed formula with <= 7 (thorough 8) nodes over the tiny alphabet {{a, AX, &, 3, @}} (sibling quantifiers sharing a depth name), of the template families, of 27 nests of 13..24 and 33 quantifiers (canonical names var12 and beyond; every sub-formula with 1..d free variables) and of 13 operand-position shapes x 17 identifier shapes (p53, HIV, V, 3x, var0, non-ASCII names, ...) x 8 label shapes: canonical form vs independent normal form as a partition (= all pairs), explicit all-pairs structural alpha-equivalence on up to {cap} sub-trees, renaming total/injective/consistent on free variables, idempotence; duplicate marking of every single formula and of every list of <= 3 formulae over a {n}-formula pool (collision alphabet + jump/domain shapes) against an independent occurrence count with domains of free variables; distinct_nontrivial = number of alpha-equivalence classes");
    Ok(rep)
}
