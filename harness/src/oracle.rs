//! Explicit-state HCTL model checker: the reference semantics (DESIGN §2.3).
//! Works on one colour's transition system at a time, on explicit state sets (bit masks) and
//! explicit successor / predecessor lists. Knows nothing about BDDs, caching, canonisation or
//! the shortcut patterns of the implementation.

use crate::bridge::{full_mask, Mask};
use crate::formulas::{Bi, Hy, Un, F};
use crate::nets::ColourTs;

/// Interpretation of the wild-card and domain labels: label index -> per-colour mask.
#[derive(Clone, Debug, Default)]
pub struct Labels {
    pub wild: Vec<Vec<Mask>>,
    pub dom: Vec<Vec<Mask>>,
    /// network-variable index of proposition `i` (empty = identity)
    pub props: Vec<usize>,
}

pub struct Oracle<'a> {
    pub n: usize,
    pub ts: &'a ColourTs,
    pub ci: usize,
    pub labels: &'a Labels,
    pub u: Mask,
}

impl<'a> Oracle<'a> {
    pub fn new(n: usize, ts: &'a ColourTs, ci: usize, labels: &'a Labels) -> Oracle<'a> {
        Oracle { n, ts, ci, labels, u: full_mask(n) }
    }
    fn ns(&self) -> usize {
        1 << self.n
    }
    pub fn neg(&self, m: Mask) -> Mask {
        self.u & !m
    }
    /// states with at least one successor in `m`
    pub fn ex(&self, m: Mask) -> Mask {
        let mut r = 0;
        for s in 0..self.ns() {
            if self.ts.succ[s].iter().any(|t| m >> t & 1 == 1) {
                r |= 1 << s;
            }
        }
        r
    }
    /// states all of whose successors are in `m`
    pub fn ax(&self, m: Mask) -> Mask {
        let mut r = 0;
        for s in 0..self.ns() {
            if self.ts.succ[s].iter().all(|t| m >> t & 1 == 1) {
                r |= 1 << s;
            }
        }
        r
    }
    /// E[a U b]: backward search from `b` through predecessors inside `a` (work-list).
    pub fn eu(&self, a: Mask, b: Mask) -> Mask {
        let mut r = b & self.u;
        let mut work: Vec<usize> = (0..self.ns()).filter(|s| r >> s & 1 == 1).collect();
        while let Some(t) = work.pop() {
            for &s in &self.ts.pred[t] {
                if r >> s & 1 == 0 && a >> s & 1 == 1 {
                    r |= 1 << s;
                    work.push(s);
                }
            }
        }
        r
    }
    /// EG a: remove states of `a` without a successor inside the candidate set until stable.
    pub fn eg(&self, a: Mask) -> Mask {
        let mut r = a & self.u;
        loop {
            let mut changed = false;
            for s in 0..self.ns() {
                if r >> s & 1 == 1 && !self.ts.succ[s].iter().any(|t| r >> t & 1 == 1) {
                    r &= !(1 << s);
                    changed = true;
                }
            }
            if !changed {
                return r;
            }
        }
    }
    /// A[a U b] as a least fixed point computed directly: add a state of `a` once all its
    /// successors are in the set.
    pub fn au(&self, a: Mask, b: Mask) -> Mask {
        let mut r = b & self.u;
        loop {
            let mut changed = false;
            for s in 0..self.ns() {
                if r >> s & 1 == 0 && a >> s & 1 == 1 && self.ts.succ[s].iter().all(|t| r >> t & 1 == 1) {
                    r |= 1 << s;
                    changed = true;
                }
            }
            if !changed {
                return r;
            }
        }
    }
    pub fn ef(&self, m: Mask) -> Mask {
        self.eu(self.u, m)
    }
    pub fn af(&self, m: Mask) -> Mask {
        self.au(self.u, m)
    }
    pub fn ag(&self, m: Mask) -> Mask {
        self.neg(self.ef(self.neg(m)))
    }
    /// E[a W b] = E[a U b] or EG a
    pub fn ew(&self, a: Mask, b: Mask) -> Mask {
        self.eu(a, b) | self.eg(a)
    }
    /// A[a W b] = not E[not b U (not a and not b)]
    pub fn aw(&self, a: Mask, b: Mask) -> Mask {
        self.neg(self.eu(self.neg(b), self.neg(a) & self.neg(b)))
    }

    pub fn apply_un(&self, o: Un, m: Mask) -> Mask {
        match o {
            Un::Not => self.neg(m),
            Un::EX => self.ex(m),
            Un::AX => self.ax(m),
            Un::EF => self.ef(m),
            Un::AF => self.af(m),
            Un::EG => self.eg(m),
            Un::AG => self.ag(m),
        }
    }
    pub fn apply_bi(&self, o: Bi, a: Mask, b: Mask) -> Mask {
        match o {
            Bi::And => a & b,
            Bi::Or => a | b,
            Bi::Xor => (a ^ b) & self.u,
            Bi::Imp => self.neg(a) | b,
            Bi::Iff => self.neg(a ^ b),
            Bi::EU => self.eu(a, b),
            Bi::AU => self.au(a, b),
            Bi::EW => self.ew(a, b),
            Bi::AW => self.aw(a, b),
        }
    }

    /// Set of states satisfying `f` under the variable assignment `env` (level -> state).
    pub fn eval(&self, f: &F, env: &mut Vec<usize>) -> Mask {
        match f {
            F::Const(true) => self.u,
            F::Const(false) => 0,
            F::Prop(i) => {
                let i = if self.labels.props.is_empty() { *i as usize } else { self.labels.props[*i as usize] };
                let mut r = 0;
                for s in 0..self.ns() {
                    if s >> i & 1 == 1 {
                        r |= 1 << s;
                    }
                }
                r
            }
            F::Var(i) => 1 << env[*i as usize],
            F::Wild(i) => self.labels.wild[*i as usize][self.ci] & self.u,
            F::Un(o, c) => {
                let m = self.eval(c, env);
                self.apply_un(*o, m)
            }
            F::Bin(o, l, r) => {
                let a = self.eval(l, env);
                let b = self.eval(r, env);
                self.apply_bi(*o, a, b)
            }
            F::Hy(Hy::Jump, v, _, c) => {
                let m = self.eval(c, env);
                if m >> env[*v as usize] & 1 == 1 {
                    self.u
                } else {
                    0
                }
            }
            F::Hy(o, v, d, c) => {
                debug_assert_eq!(*v as usize, env.len(), "binder level must equal scope depth");
                let dm = match d {
                    None => self.u,
                    Some(d) => self.labels.dom[*d as usize][self.ci] & self.u,
                };
                let mut res = if *o == Hy::Forall { self.u } else { 0 };
                for t in 0..self.ns() {
                    if dm >> t & 1 == 0 {
                        continue;
                    }
                    env.push(t);
                    let m = self.eval(c, env);
                    env.pop();
                    match o {
                        Hy::Bind => {
                            if m >> t & 1 == 1 {
                                res |= 1 << t
                            }
                        }
                        Hy::Exists => res |= m,
                        Hy::Forall => res &= m,
                        Hy::Jump => unreachable!(),
                    }
                }
                res
            }
        }
    }

    pub fn eval_closed(&self, f: &F) -> Mask {
        self.eval(f, &mut vec![])
    }

    /// Self-check of the oracle's own operators on given argument sets (dualities and
    /// fixed-point equations). Returns a description of the first law that fails.
    pub fn self_laws(&self, sets: &[Mask]) -> Result<usize, String> {
        let mut checked = 0;
        for &a in sets {
            let na = self.neg(a);
            let laws: [(&str, Mask, Mask); 8] = [
                ("AX=~EX~", self.ax(a), self.neg(self.ex(na))),
                ("EF=a|EX EF", self.ef(a), a | self.ex(self.ef(a))),
                ("EG=a&EX EG", self.eg(a), a & self.ex(self.eg(a))),
                ("AF=~EG~", self.af(a), self.neg(self.eg(na))),
                ("AF=a|AX AF", self.af(a), a | self.ax(self.af(a))),
                ("AG=a&AX AG", self.ag(a), a & self.ax(self.ag(a))),
                ("EG sub a", self.eg(a) & na, 0),
                ("EX total", self.ex(self.u), self.u),
            ];
            for (n, l, r) in laws {
                checked += 1;
                if l != r {
                    return Err(format!("oracle law {n} fails on set {a:b}"));
                }
            }
            for &b in sets {
                let nb = self.neg(b);
                let laws: [(&str, Mask, Mask); 6] = [
                    ("EU=b|(a&EX EU)", self.eu(a, b), b | (a & self.ex(self.eu(a, b)))),
                    ("AU=b|(a&AX AU)", self.au(a, b), b | (a & self.ax(self.au(a, b)))),
                    ("AU dual", self.au(a, b), self.neg(self.eu(nb, na & nb) | self.eg(nb))),
                    ("EW=~AU dual", self.ew(a, b), self.neg(self.au(nb, na & nb))),
                    ("AW=b|(a&AX AW)", self.aw(a, b), b | (a & self.ax(self.aw(a, b)))),
                    ("b sub EW,AW", b & self.neg(self.ew(a, b) & self.aw(a, b)), 0),
                ];
                for (n, l, r) in laws {
                    checked += 1;
                    if l != r {
                        return Err(format!("oracle law {n} fails on sets {a:b},{b:b}"));
                    }
                }
            }
        }
        Ok(checked)
    }
}
