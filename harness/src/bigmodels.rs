//! The declared finite family of bundled (benchmark-size) models used by C10, C11, C20 where no
//! explicit-state oracle is possible. Files are read from /repo/benchmark_models at run time.

use biodivine_hctl_model_checker::mc_utils::get_extended_symbolic_graph;
use biodivine_lib_param_bn::symbolic_async_graph::SymbolicAsyncGraph;
use biodivine_lib_param_bn::BooleanNetwork;

pub const MODEL_CELL_DIVISION: &str = r"
DivJ -?? DivK
PleC -?? DivK
DivK -?? DivL
DivL -?? CckA
CckA -?? ChpT
ChpT -?? CpdR
CpdR -?? ClpXP_RcdA
ChpT -?? CtrAb
ClpXP_RcdA -?? CtrAb
DivK -?? DivJ
PleC -?? DivJ
DivK -?? PleC
$CckA: DivL
$ChpT: CckA
$DivK: (!PleC & DivJ)
";

pub struct Big {
    pub name: String,
    pub bn: BooleanNetwork,
    pub graph: SymbolicAsyncGraph,
    pub k: u16,
}

impl Big {
    pub fn var_names(&self) -> Vec<String> {
        self.graph.variables().map(|v| self.graph.get_variable_name(v)).collect()
    }
    pub fn colours(&self) -> f64 {
        self.graph.unit_colors().approx_cardinality()
    }
}

pub fn load(name: &str, k: u16) -> Result<Big, String> {
    let bn = match name {
        "cell_division" => BooleanNetwork::try_from(MODEL_CELL_DIVISION)?,
        // synthetic wide-but-simple networks (more than 53 state bits, so that set sizes exceed
        // what a double can count exactly): a shift register x00 -> x01 -> ... with a frozen head
        // 44-variable shift register whose last two variables have unknown update functions over
        // three regulators each (2^16 colours): 2^60 (state, colour) pairs but only 2^44 states per colour
        "synthetic:chain44p2" => BooleanNetwork::try_from(chain_p2(44).as_str())?,
        // 26 independent variables a00..a12, b00..b12 (frozen): sets like OR_i (a_i & b_i) have ~2^13 BDD nodes
        "synthetic:pairs13" => BooleanNetwork::try_from(pairs(13).as_str())?,
        // 32 frozen variables: AND_i (a_i <=> b_i) has ~2^17 BDD nodes (variables ordered a00..a15, b00..b15)
        "synthetic:pairs16" => BooleanNetwork::try_from(pairs(16).as_str())?,
        // the same 32 frozen variables plus two rising chains c0 -> c1 -> c2 -> c3 and z3 -> z2 -> z1 -> z0 (causal order
        // along and against the alphabetical variable order): reachability needs several sweeps over the variables
        "synthetic:pairs16chains" => {
            let mut s = pairs(16);
            s.push_str("c0 -> c0\n$c0: c0\nz3 -> z3\n$z3: z3\n");
            for i in 1..4 {
                s.push_str(&format!("c{} -> c{i}\nc{i} -> c{i}\n$c{i}: c{i} | c{}\n", i - 1, i - 1));
                s.push_str(&format!("z{} -> z{}\nz{} -> z{}\n$z{}: z{} | z{}\n", 4 - i, 3 - i, 3 - i, 3 - i, 3 - i, 3 - i, 4 - i));
            }
            BooleanNetwork::try_from(s.as_str())?
        }
        // 44 variables (a 4-stage rising chain c0..c3 that only moves when all 14 zero-arity parameters
        // are true, plus 40 frozen inputs): 2^58 (state, colour) pairs, 2^44 states per colour, and
        // dynamics that differ from "frozen" in exactly one of the 16 384 colours
        "synthetic:gated44" => BooleanNetwork::try_from(gated(40, 14).as_str())?,
        "synthetic:chain20" => BooleanNetwork::try_from(chain(20, false).as_str())?,
        "synthetic:chain40" => BooleanNetwork::try_from(chain(40, false).as_str())?,
        "synthetic:chain60" => BooleanNetwork::try_from(chain(60, false).as_str())?,
        "synthetic:chain70" => BooleanNetwork::try_from(chain(70, false).as_str())?,
        // the same with an unknown (implicit, unconstrained) update function of the last variable
        "synthetic:chain58p" => BooleanNetwork::try_from(chain(58, true).as_str())?,
        _ => {
            let path = format!("/repo/benchmark_models/{name}");
            BooleanNetwork::try_from_file(&path).map_err(|e| format!("{path}: {e}"))?
        }
    };
    let graph = get_extended_symbolic_graph(&bn, k)?;
    Ok(Big { name: name.to_string(), bn, graph, k })
}

/// The declared family. Quick uses two models whose every job finishes within seconds; thorough
/// adds larger ones (jobs that exceed their wall limit are reported as caps).
pub fn family(tier: &str) -> Vec<&'static str> {
    let all = vec![
        "pystablemotifs-models/myeloid.aeon",
        "cell_division",
        "inference-benchmarks/110_9v/model_parametrized.aeon",
        "large-colored-models/set1-tacas/tacas2.aeon",
        "pystablemotifs-models/EMT.aeon",
        "large-colored-models/set1-tacas/tacas3.aeon",
    ];
    if tier == "quick" {
        all[..2].to_vec()
    } else {
        all
    }
}

fn chain(n: usize, param_tail: bool) -> String {
    let name = |i: usize| format!("x{i:02}");
    let mut s = format!("{} -> {}\n${}: {}\n", name(0), name(0), name(0), name(0));
    for i in 1..n {
        if param_tail && i == n - 1 {
            s.push_str(&format!("{} -?? {}\n{} -?? {}\n", name(i - 1), name(i), name(i), name(i)));
        } else {
            s.push_str(&format!("{} -> {}\n${}: {}\n", name(i - 1), name(i), name(i), name(i - 1)));
        }
    }
    s
}

fn chain_p2(n: usize) -> String {
    let name = |i: usize| format!("x{i:02}");
    let mut s = format!("{} -> {}\n${}: {}\n", name(0), name(0), name(0), name(0));
    for i in 1..n - 2 {
        s.push_str(&format!("{} -> {}\n${}: {}\n", name(i - 1), name(i), name(i), name(i - 1)));
    }
    for i in n - 2..n {
        // implicit, unconstrained function of three regulators
        s.push_str(&format!("{} -?? {}\n{} -?? {}\n{} -?? {}\n", name(i - 1), name(i), name(i - 2), name(i), name(i), name(i)));
    }
    s
}

fn pairs(n: usize) -> String {
    let mut s = String::new();
    for i in 0..n {
        for p in ["a", "b"] {
            s.push_str(&format!("{p}{i:02} -> {p}{i:02}\n${p}{i:02}: {p}{i:02}\n"));
        }
    }
    s
}

fn gated(fillers: usize, params: usize) -> String {
    let gate: Vec<String> = (1..=params).map(|i| format!("g{i:02}")).collect();
    let gate = gate.join(" & ");
    let mut s = String::from("c0 -> c0\n$c0: c0\n");
    for i in 1..4 {
        s.push_str(&format!("c{} -?? c{}\nc{} -?? c{}\n$c{}: c{} | (c{} & {})\n", i - 1, i, i, i, i, i, i - 1, gate));
    }
    for i in 1..=fillers {
        s.push_str(&format!("f{i:02} -> f{i:02}\n$f{i:02}: f{i:02}\n"));
    }
    s
}
