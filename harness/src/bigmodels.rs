//! The declared finite family of bundled (benchmark-size) models used by C10, C11, C20 where no
//! explicit-state oracle is possible. Files are read from /repo/benchmark_models at run time.

use biodivine_hctl_model_checker::mc_utils::get_extended_symbolic_graph;
use biodivine_lib_param_bn::symbolic_async_graph::SymbolicAsyncGraph;
use biodivine_lib_param_bn::BooleanNetwork;

pub const MODEL_CELL_DIVISION: &str = r"
DivJ -?? DivK
PleC -?? DivK
DivK -?? DivL
DivL -?? CckA
CckA -?? ChpT
ChpT -?? CpdR
CpdR -?? ClpXP_RcdA
ChpT -?? CtrAb
ClpXP_RcdA -?? CtrAb
DivK -?? DivJ
PleC -?? DivJ
DivK -?? PleC
$CckA: DivL
$ChpT: CckA
$DivK: (!PleC & DivJ)
";

pub struct Big {
    pub name: String,
    pub bn: BooleanNetwork,
    pub graph: SymbolicAsyncGraph,
    pub k: u16,
}

impl Big {
    pub fn var_names(&self) -> Vec<String> {
        self.graph.variables().map(|v| self.graph.get_variable_name(v)).collect()
    }
    pub fn colours(&self) -> f64 {
        self.graph.unit_colors().approx_cardinality()
    }
}

pub fn load(name: &str, k: u16) -> Result<Big, String> {
    let bn = match name {
        "cell_division" => BooleanNetwork::try_from(MODEL_CELL_DIVISION)?,
        _ => {
            let path = format!("/repo/benchmark_models/{name}");
            BooleanNetwork::try_from_file(&path).map_err(|e| format!("{path}: {e}"))?
        }
    };
    let graph = get_extended_symbolic_graph(&bn, k)?;
    Ok(Big { name: name.to_string(), bn, graph, k })
}

/// The declared family. Quick uses two models whose every job finishes within seconds; thorough
/// adds larger ones (jobs that exceed their wall limit are reported as caps).
pub fn family(tier: &str) -> Vec<&'static str> {
    let all = vec![
        "pystablemotifs-models/myeloid.aeon",
        "cell_division",
        "inference-benchmarks/110_9v/model_parametrized.aeon",
        "large-colored-models/set1-tacas/tacas2.aeon",
        "pystablemotifs-models/EMT.aeon",
        "large-colored-models/set1-tacas/tacas3.aeon",
    ];
    if tier == "quick" {
        all[..2].to_vec()
    } else {
        all
    }
}
