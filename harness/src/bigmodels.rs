//! The declared finite family of bundled (benchmark-size) models used by C10, C11, C20 where no
//! explicit-state oracle is possible. Files are read from /repo/benchmark_models at run time.

use biodivine_hctl_model_checker::mc_utils::get_extended_symbolic_graph;
use biodivine_lib_param_bn::symbolic_async_graph::SymbolicAsyncGraph;
use biodivine_lib_param_bn::BooleanNetwork;

pub const MODEL_CELL_DIVISION: &str = r"
DivJ -?? DivK
PleC -?? DivK
DivK -?? DivL
DivL -?? CckA
CckA -?? ChpT
ChpT -?? CpdR
CpdR -?? ClpXP_RcdA
ChpT -?? CtrAb
ClpXP_RcdA -?? CtrAb
DivK -?? DivJ
PleC -?? DivJ
DivK -?? PleC
$CckA: DivL
$ChpT: CckA
$DivK: (!PleC & DivJ)
";

pub struct Big {
    pub name: String,
    pub bn: BooleanNetwork,
    pub graph: SymbolicAsyncGraph,
    pub k: u16,
}

impl Big {
    pub fn var_names(&self) -> Vec<String> {
        self.graph.variables().map(|v| self.graph.get_variable_name(v)).collect()
    }
    pub fn colours(&self) -> f64 {
        self.graph.unit_colors().approx_cardinality()
    }
}

pub fn load(name: &str, k: u16) -> Result<Big, String> {
    let bn = match name {
        "cell_division" => BooleanNetwork::try_from(MODEL_CELL_DIVISION)?,
        // synthetic wide-but-simple networks (more than 53 state bits, so that set sizes exceed
        // what a double can count exactly): a shift register x00 -> x01 -> ... with a frozen head
        "synthetic:chain20" => BooleanNetwork::try_from(chain(20, false).as_str())?,
        "synthetic:chain40" => BooleanNetwork::try_from(chain(40, false).as_str())?,
        "synthetic:chain60" => BooleanNetwork::try_from(chain(60, false).as_str())?,
        // the same with an unknown (implicit, unconstrained) update function of the last variable
        "synthetic:chain58p" => BooleanNetwork::try_from(chain(58, true).as_str())?,
        _ => {
            let path = format!("/repo/benchmark_models/{name}");
            BooleanNetwork::try_from_file(&path).map_err(|e| format!("{path}: {e}"))?
        }
    };
    let graph = get_extended_symbolic_graph(&bn, k)?;
    Ok(Big { name: name.to_string(), bn, graph, k })
}

/// The declared family. Quick uses two models whose every job finishes within seconds; thorough
/// adds larger ones (jobs that exceed their wall limit are reported as caps).
pub fn family(tier: &str) -> Vec<&'static str> {
    let all = vec![
        "pystablemotifs-models/myeloid.aeon",
        "cell_division",
        "inference-benchmarks/110_9v/model_parametrized.aeon",
        "large-colored-models/set1-tacas/tacas2.aeon",
        "pystablemotifs-models/EMT.aeon",
        "large-colored-models/set1-tacas/tacas3.aeon",
    ];
    if tier == "quick" {
        all[..2].to_vec()
    } else {
        all
    }
}

fn chain(n: usize, param_tail: bool) -> String {
    let name = |i: usize| format!("x{i:02}");
    let mut s = format!("{} -> {}\n${}: {}\n", name(0), name(0), name(0), name(0));
    for i in 1..n {
        if param_tail && i == n - 1 {
            s.push_str(&format!("{} -?? {}\n{} -?? {}\n", name(i - 1), name(i), name(i), name(i)));
        } else {
            s.push_str(&format!("{} -> {}\n${}: {}\n", name(i - 1), name(i), name(i), name(i - 1)));
        }
    }
    s
}
