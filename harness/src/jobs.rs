//! Isolation of potentially unbounded symbolic computations (bundled benchmark-size models):
//! a job runs in a child process (this same binary, `harness JOB <json>`), prints one JSON value,
//! and is killed by the parent after a wall-clock limit. A timeout is a *cap* (reported in the
//! evidence as not exhaustive), never a verdict.

use serde_json::Value;
use std::io::Read;
use std::process::{Command, Stdio};
use std::time::{Duration, Instant};

pub enum JobResult {
    Done(Value),
    Timeout,
    Crashed(String),
}

pub fn run(job: &Value, limit_s: f64) -> JobResult {
    let exe = std::env::current_exe().expect("current_exe");
    let mut child = match Command::new(exe).arg("JOB").arg(job.to_string()).stdout(Stdio::piped()).stderr(Stdio::null()).spawn() {
        Ok(c) => c,
        Err(e) => return JobResult::Crashed(format!("spawn: {e}")),
    };
    let mut stdout = child.stdout.take().unwrap();
    let reader = std::thread::spawn(move || {
        let mut s = String::new();
        let _ = stdout.read_to_string(&mut s);
        s
    });
    let t0 = Instant::now();
    loop {
        match child.try_wait() {
            Ok(Some(status)) => {
                let out = reader.join().unwrap_or_default();
                if !status.success() {
                    return JobResult::Crashed(format!("exit {status}: {}", out.chars().take(300).collect::<String>()));
                }
                return match out.lines().rev().find(|l| l.starts_with('{')).and_then(|l| serde_json::from_str(l).ok()) {
                    Some(v) => JobResult::Done(v),
                    None => JobResult::Crashed(format!("no JSON in output: {}", out.chars().take(300).collect::<String>())),
                };
            }
            Ok(None) => {
                if t0.elapsed().as_secs_f64() > limit_s {
                    let _ = child.kill();
                    let _ = child.wait();
                    return JobResult::Timeout;
                }
                std::thread::sleep(Duration::from_millis(20));
            }
            Err(e) => return JobResult::Crashed(format!("wait: {e}")),
        }
    }
}

/// Child side: dispatch on job["kind"].
pub fn child_main(job: &Value) -> Value {
    match job["kind"].as_str() {
        Some("c01chains") => crate::props::c01::job_chains(job),
        Some("c01big") => crate::props::c01::job(job),
        Some("c02big") => crate::props::c02::job(job),
        Some("c15big") => crate::props::c15::job(job),
        Some("c10big") => crate::props::c10::job(job),
        Some("c11big") => crate::props::c11::job(job),
        Some("c20big") => crate::props::c20::job(job),
        Some("c12big") => crate::props::c12::job(job),
        Some("c13big") => crate::props::c13::job(job),
        other => serde_json::json!({"error": format!("unknown job kind {other:?}")}),
    }
}
