//! Formula AST of the harness, rendering, conversion to the library's syntax tree through its
//! public constructors, and the bounded-exhaustive enumerators (DESIGN §2.4).

use biodivine_hctl_model_checker::preprocessing::hctl_tree::HctlTreeNode;
use biodivine_hctl_model_checker::preprocessing::operator_enums::{BinaryOp, HybridOp, UnaryOp};
use std::collections::HashMap;
use std::sync::Arc;

#[derive(Clone, Copy, Debug, PartialEq, Eq, Hash, PartialOrd, Ord, serde::Serialize, serde::Deserialize)]
pub enum Un {
    Not,
    EX,
    AX,
    EF,
    AF,
    EG,
    AG,
}
#[derive(Clone, Copy, Debug, PartialEq, Eq, Hash, PartialOrd, Ord, serde::Serialize, serde::Deserialize)]
pub enum Bi {
    And,
    Or,
    Xor,
    Imp,
    Iff,
    EU,
    AU,
    EW,
    AW,
}
#[derive(Clone, Copy, Debug, PartialEq, Eq, Hash, PartialOrd, Ord, serde::Serialize, serde::Deserialize)]
pub enum Hy {
    Bind,
    Jump,
    Exists,
    Forall,
}

pub const ALL_UN: [Un; 7] = [Un::Not, Un::EX, Un::AX, Un::EF, Un::AF, Un::EG, Un::AG];
pub const ALL_BI: [Bi; 9] = [Bi::And, Bi::Or, Bi::Xor, Bi::Imp, Bi::Iff, Bi::EU, Bi::AU, Bi::EW, Bi::AW];
pub const PLAIN_BI: [Bi; 7] = [Bi::And, Bi::Or, Bi::Xor, Bi::Imp, Bi::Iff, Bi::EU, Bi::AU];
pub const ALL_Q: [Hy; 3] = [Hy::Bind, Hy::Exists, Hy::Forall];

impl Un {
    pub fn s(self) -> &'static str {
        match self {
            Un::Not => "~",
            Un::EX => "EX",
            Un::AX => "AX",
            Un::EF => "EF",
            Un::AF => "AF",
            Un::EG => "EG",
            Un::AG => "AG",
        }
    }
    pub fn lib(self) -> UnaryOp {
        match self {
            Un::Not => UnaryOp::Not,
            Un::EX => UnaryOp::EX,
            Un::AX => UnaryOp::AX,
            Un::EF => UnaryOp::EF,
            Un::AF => UnaryOp::AF,
            Un::EG => UnaryOp::EG,
            Un::AG => UnaryOp::AG,
        }
    }
    pub fn from_lib(o: &UnaryOp) -> Un {
        match o {
            UnaryOp::Not => Un::Not,
            UnaryOp::EX => Un::EX,
            UnaryOp::AX => Un::AX,
            UnaryOp::EF => Un::EF,
            UnaryOp::AF => Un::AF,
            UnaryOp::EG => Un::EG,
            UnaryOp::AG => Un::AG,
        }
    }
}
impl Bi {
    pub fn s(self) -> &'static str {
        match self {
            Bi::And => "&",
            Bi::Or => "|",
            Bi::Xor => "^",
            Bi::Imp => "=>",
            Bi::Iff => "<=>",
            Bi::EU => "EU",
            Bi::AU => "AU",
            Bi::EW => "EW",
            Bi::AW => "AW",
        }
    }
    pub fn lib(self) -> BinaryOp {
        match self {
            Bi::And => BinaryOp::And,
            Bi::Or => BinaryOp::Or,
            Bi::Xor => BinaryOp::Xor,
            Bi::Imp => BinaryOp::Imp,
            Bi::Iff => BinaryOp::Iff,
            Bi::EU => BinaryOp::EU,
            Bi::AU => BinaryOp::AU,
            Bi::EW => BinaryOp::EW,
            Bi::AW => BinaryOp::AW,
        }
    }
    pub fn from_lib(o: &BinaryOp) -> Bi {
        match o {
            BinaryOp::And => Bi::And,
            BinaryOp::Or => Bi::Or,
            BinaryOp::Xor => Bi::Xor,
            BinaryOp::Imp => Bi::Imp,
            BinaryOp::Iff => Bi::Iff,
            BinaryOp::EU => Bi::EU,
            BinaryOp::AU => Bi::AU,
            BinaryOp::EW => Bi::EW,
            BinaryOp::AW => Bi::AW,
        }
    }
    pub fn is_temporal(self) -> bool {
        matches!(self, Bi::EU | Bi::AU | Bi::EW | Bi::AW)
    }
}
impl Hy {
    pub fn s(self) -> &'static str {
        match self {
            Hy::Bind => "!",
            Hy::Jump => "@",
            Hy::Exists => "3",
            Hy::Forall => "V",
        }
    }
    pub fn long(self) -> &'static str {
        match self {
            Hy::Bind => "\\bind ",
            Hy::Jump => "\\jump ",
            Hy::Exists => "\\exists ",
            Hy::Forall => "\\forall ",
        }
    }
    pub fn lib(self) -> HybridOp {
        match self {
            Hy::Bind => HybridOp::Bind,
            Hy::Jump => HybridOp::Jump,
            Hy::Exists => HybridOp::Exists,
            Hy::Forall => HybridOp::Forall,
        }
    }
    pub fn from_lib(o: &HybridOp) -> Hy {
        match o {
            HybridOp::Bind => Hy::Bind,
            HybridOp::Jump => Hy::Jump,
            HybridOp::Exists => Hy::Exists,
            HybridOp::Forall => Hy::Forall,
        }
    }
}

/// Formula. `Var(i)` / the variable of a hybrid operator is the *level* of its binder (number of
/// enclosing quantifiers), so formulae generated with depth 0 are closed by construction.
#[derive(Clone, Debug, PartialEq, Eq, Hash, PartialOrd, Ord, serde::Serialize, serde::Deserialize)]
pub enum F {
    Const(bool),
    Prop(u8),
    Var(u8),
    Wild(u8),
    Un(Un, Arc<F>),
    Bin(Bi, Arc<F>, Arc<F>),
    Hy(Hy, u8, Option<u8>, Arc<F>),
}

#[derive(Clone, Debug)]
pub struct Names {
    pub vars: Vec<String>,
    pub props: Vec<String>,
    pub wilds: Vec<String>,
    pub doms: Vec<String>,
}

impl Names {
    pub fn user(props: &[String]) -> Names {
        Names {
            vars: ["x", "y", "z", "w", "v4", "v5", "v6", "v7", "v8", "v9", "v10", "v11"].iter().map(|s| s.to_string()).collect(),
            props: props.to_vec(),
            wilds: ["p", "q", "r", "w0", "w1", "w2"].iter().map(|s| s.to_string()).collect(),
            doms: ["d", "e", "g"].iter().map(|s| s.to_string()).collect(),
        }
    }
    /// the names preprocessing assigns: x, xx, xxx by nesting level
    pub fn minimized(props: &[String]) -> Names {
        let mut n = Names::user(props);
        n.vars = (1..=12).map(|i| "x".repeat(i)).collect();
        n
    }
}

impl F {
    pub fn un(o: Un, c: F) -> F {
        F::Un(o, Arc::new(c))
    }
    pub fn bin(o: Bi, l: F, r: F) -> F {
        F::Bin(o, Arc::new(l), Arc::new(r))
    }
    pub fn hy(o: Hy, v: u8, d: Option<u8>, c: F) -> F {
        F::Hy(o, v, d, Arc::new(c))
    }
    pub fn size(&self) -> usize {
        match self {
            F::Un(_, c) | F::Hy(_, _, _, c) => 1 + c.size(),
            F::Bin(_, l, r) => 1 + l.size() + r.size(),
            _ => 1,
        }
    }
    /// maximal quantifier nesting depth
    pub fn qdepth(&self) -> usize {
        match self {
            F::Un(_, c) => c.qdepth(),
            F::Hy(Hy::Jump, _, _, c) => c.qdepth(),
            F::Hy(_, _, _, c) => 1 + c.qdepth(),
            F::Bin(_, l, r) => l.qdepth().max(r.qdepth()),
            _ => 0,
        }
    }
    /// Fully parenthesised rendering, identical in layout to the library's canonical text.
    pub fn show(&self, nm: &Names) -> String {
        match self {
            F::Const(true) => "True".into(),
            F::Const(false) => "False".into(),
            F::Prop(i) => nm.props[*i as usize].clone(),
            F::Var(i) => format!("{{{}}}", nm.vars[*i as usize]),
            F::Wild(i) => format!("%{}%", nm.wilds[*i as usize]),
            F::Un(Un::Not, c) => format!("(~{})", c.show(nm)),
            F::Un(o, c) => format!("({} {})", o.s(), c.show(nm)),
            F::Bin(o, l, r) => format!("({} {} {})", l.show(nm), o.s(), r.show(nm)),
            F::Hy(o, v, None, c) => format!("({}{{{}}}: {})", o.s(), nm.vars[*v as usize], c.show(nm)),
            F::Hy(o, v, Some(d), c) => format!(
                "({}{{{}}} in %{}%: {})",
                o.s(),
                nm.vars[*v as usize],
                nm.doms[*d as usize],
                c.show(nm)
            ),
        }
    }
    /// Build the library's tree with its public constructors (no parser involved).
    pub fn to_tree(&self, nm: &Names) -> HctlTreeNode {
        match self {
            F::Const(b) => HctlTreeNode::mk_constant(*b),
            F::Prop(i) => HctlTreeNode::mk_proposition(&nm.props[*i as usize]),
            F::Var(i) => HctlTreeNode::mk_variable(&nm.vars[*i as usize]),
            F::Wild(i) => HctlTreeNode::mk_wild_card(&nm.wilds[*i as usize]),
            F::Un(o, c) => HctlTreeNode::mk_unary(c.to_tree(nm), o.lib()),
            F::Bin(o, l, r) => HctlTreeNode::mk_binary(l.to_tree(nm), r.to_tree(nm), o.lib()),
            F::Hy(o, v, d, c) => HctlTreeNode::mk_hybrid(
                c.to_tree(nm),
                &nm.vars[*v as usize],
                d.map(|d| nm.doms[d as usize].clone()),
                o.lib(),
            ),
        }
    }
    pub fn uses_wild_or_dom(&self) -> bool {
        match self {
            F::Wild(_) => true,
            F::Hy(_, _, Some(_), _) => true,
            F::Un(_, c) | F::Hy(_, _, None, c) => c.uses_wild_or_dom(),
            F::Bin(_, l, r) => l.uses_wild_or_dom() || r.uses_wild_or_dom(),
            _ => false,
        }
    }
    pub fn labels(&self, wilds: &mut Vec<u8>, doms: &mut Vec<u8>) {
        match self {
            F::Wild(i) => {
                if !wilds.contains(i) {
                    wilds.push(*i)
                }
            }
            F::Hy(_, _, d, c) => {
                if let Some(d) = d {
                    if !doms.contains(d) {
                        doms.push(*d)
                    }
                }
                c.labels(wilds, doms)
            }
            F::Un(_, c) => c.labels(wilds, doms),
            F::Bin(_, l, r) => {
                l.labels(wilds, doms);
                r.labels(wilds, doms)
            }
            _ => {}
        }
    }
    pub fn any<P: Fn(&F) -> bool + Copy>(&self, p: P) -> bool {
        if p(self) {
            return true;
        }
        match self {
            F::Un(_, c) | F::Hy(_, _, _, c) => c.any(p),
            F::Bin(_, l, r) => l.any(p) || r.any(p),
            _ => false,
        }
    }
    pub fn has_op_un(&self, o: Un) -> bool {
        self.any(|f| matches!(f, F::Un(x, _) if *x == o))
    }
    pub fn has_op_bi(&self, o: Bi) -> bool {
        self.any(|f| matches!(f, F::Bin(x, _, _) if *x == o))
    }
    pub fn has_hy(&self, o: Hy) -> bool {
        self.any(|f| matches!(f, F::Hy(x, _, _, _) if *x == o))
    }
    /// operator signature used for per-operator hit counts
    pub fn ops(&self, out: &mut std::collections::BTreeSet<&'static str>) {
        match self {
            F::Un(o, c) => {
                out.insert(o.s());
                c.ops(out)
            }
            F::Bin(o, l, r) => {
                out.insert(o.s());
                l.ops(out);
                r.ops(out)
            }
            F::Hy(o, _, d, c) => {
                out.insert(o.s());
                if d.is_some() {
                    out.insert("in");
                }
                c.ops(out)
            }
            F::Wild(_) => {
                out.insert("%");
            }
            _ => {}
        }
    }
}

/// Alphabet of an enumeration.
#[derive(Clone, Debug)]
pub struct Alphabet {
    pub consts: Vec<bool>,
    pub nprops: u8,
    pub nwilds: u8,
    pub ndoms: u8,
    pub un: Vec<Un>,
    pub bi: Vec<Bi>,
    pub quant: Vec<Hy>,
    pub jump: bool,
    pub maxdepth: u8,
}

impl Alphabet {
    pub fn plain(nprops: u8, maxdepth: u8) -> Alphabet {
        Alphabet {
            consts: vec![true],
            nprops,
            nwilds: 0,
            ndoms: 0,
            un: ALL_UN.to_vec(),
            bi: PLAIN_BI.to_vec(),
            quant: ALL_Q.to_vec(),
            jump: true,
            maxdepth,
        }
    }
    /// plain alphabet with all nine binary operators (EW, AW included)
    pub fn all_ops(nprops: u8, maxdepth: u8) -> Alphabet {
        let mut a = Alphabet::plain(nprops, maxdepth);
        a.bi = ALL_BI.to_vec();
        a
    }
    pub fn extended(nprops: u8, maxdepth: u8, nwilds: u8, ndoms: u8) -> Alphabet {
        let mut a = Alphabet::plain(nprops, maxdepth);
        a.nwilds = nwilds;
        a.ndoms = ndoms;
        a
    }
    pub fn describe(&self) -> String {
        format!(
            "consts={:?} props={} wilds={} doms={} un=[{}] bin=[{}] quant=[{}] jump={} maxdepth={}",
            self.consts,
            self.nprops,
            self.nwilds,
            self.ndoms,
            self.un.iter().map(|o| o.s()).collect::<Vec<_>>().join(" "),
            self.bi.iter().map(|o| o.s()).collect::<Vec<_>>().join(" "),
            self.quant.iter().map(|o| o.s()).collect::<Vec<_>>().join(" "),
            self.jump,
            self.maxdepth
        )
    }
}

/// Memoised generator of *all* formulae with exactly `size` nodes and `depth` variables in scope.
pub struct Gen {
    pub alpha: Alphabet,
    memo: HashMap<(usize, u8), Arc<Vec<F>>>,
}

impl Gen {
    pub fn new(alpha: Alphabet) -> Gen {
        Gen { alpha, memo: HashMap::new() }
    }
    pub fn exact(&mut self, size: usize, depth: u8) -> Arc<Vec<F>> {
        if let Some(v) = self.memo.get(&(size, depth)) {
            return v.clone();
        }
        let a = self.alpha.clone();
        let mut out = vec![];
        if size == 1 {
            for c in &a.consts {
                out.push(F::Const(*c));
            }
            for i in 0..a.nprops {
                out.push(F::Prop(i));
            }
            for i in 0..depth {
                out.push(F::Var(i));
            }
            for i in 0..a.nwilds {
                out.push(F::Wild(i));
            }
        } else if size >= 2 {
            let sub = self.exact(size - 1, depth);
            for o in &a.un {
                for c in sub.iter() {
                    out.push(F::un(*o, c.clone()));
                }
            }
            for ls in 1..size.saturating_sub(1) {
                let rs = size - 1 - ls;
                if rs < 1 {
                    continue;
                }
                let l = self.exact(ls, depth);
                let r = self.exact(rs, depth);
                for o in &a.bi {
                    for x in l.iter() {
                        for y in r.iter() {
                            out.push(F::bin(*o, x.clone(), y.clone()));
                        }
                    }
                }
            }
            if depth < a.maxdepth {
                let sub = self.exact(size - 1, depth + 1);
                for o in &a.quant {
                    for c in sub.iter() {
                        out.push(F::hy(*o, depth, None, c.clone()));
                        for d in 0..a.ndoms {
                            out.push(F::hy(*o, depth, Some(d), c.clone()));
                        }
                    }
                }
            }
            if a.jump {
                let sub = self.exact(size - 1, depth);
                for v in 0..depth {
                    for c in sub.iter() {
                        out.push(F::hy(Hy::Jump, v, None, c.clone()));
                    }
                }
            }
        }
        let out = Arc::new(out);
        self.memo.insert((size, depth), out.clone());
        out
    }
    /// All closed formulae with at most `m` nodes, in size order (simplest first).
    pub fn closed_up_to(&mut self, m: usize) -> Vec<F> {
        let mut out = vec![];
        for s in 1..=m {
            out.extend(self.exact(s, 0).iter().cloned());
        }
        out
    }
    /// Number of closed formulae with exactly `size` nodes, without materialising the top level.
    pub fn count_exact(&mut self, size: usize, depth: u8) -> usize {
        self.exact(size, depth).len()
    }
}

/// Convert a (preprocessed or raw) library tree into the harness AST. Variable names are mapped
/// to levels through the stack of enclosing binders; free variables get `None`.
pub fn from_tree(
    t: &HctlTreeNode,
    props: &[String],
    wilds: &mut Vec<String>,
    doms: &mut Vec<String>,
) -> Option<F> {
    fn go(
        t: &HctlTreeNode,
        scope: &mut Vec<String>,
        props: &[String],
        wilds: &mut Vec<String>,
        doms: &mut Vec<String>,
    ) -> Option<F> {
        use biodivine_hctl_model_checker::preprocessing::hctl_tree::NodeType;
        use biodivine_hctl_model_checker::preprocessing::operator_enums::Atomic;
        Some(match &t.node_type {
            NodeType::Terminal(Atomic::True) => F::Const(true),
            NodeType::Terminal(Atomic::False) => F::Const(false),
            NodeType::Terminal(Atomic::Prop(p)) => F::Prop(props.iter().position(|x| x == p)? as u8),
            NodeType::Terminal(Atomic::Var(v)) => F::Var(scope.iter().rposition(|x| x == v)? as u8),
            NodeType::Terminal(Atomic::WildCardProp(w)) => {
                let i = match wilds.iter().position(|x| x == w) {
                    Some(i) => i,
                    None => {
                        wilds.push(w.clone());
                        wilds.len() - 1
                    }
                };
                F::Wild(i as u8)
            }
            NodeType::Unary(o, c) => F::un(Un::from_lib(o), go(c, scope, props, wilds, doms)?),
            NodeType::Binary(o, l, r) => F::bin(
                Bi::from_lib(o),
                go(l, scope, props, wilds, doms)?,
                go(r, scope, props, wilds, doms)?,
            ),
            NodeType::Hybrid(o, v, d, c) => {
                let d = match d {
                    None => None,
                    Some(d) => Some(match doms.iter().position(|x| x == d) {
                        Some(i) => i as u8,
                        None => {
                            doms.push(d.clone());
                            (doms.len() - 1) as u8
                        }
                    }),
                };
                let h = Hy::from_lib(o);
                if h == Hy::Jump {
                    let lvl = scope.iter().rposition(|x| x == v)? as u8;
                    F::hy(h, lvl, d, go(c, scope, props, wilds, doms)?)
                } else {
                    let lvl = scope.len() as u8;
                    scope.push(v.clone());
                    let c = go(c, scope, props, wilds, doms);
                    scope.pop();
                    F::hy(h, lvl, d, c?)
                }
            }
        })
    }
    go(t, &mut vec![], props, wilds, doms)
}

/// Convert a reference tree (names) into the harness AST (levels / indices). Returns None for
/// open formulae or unknown names. Wild-card and domain names are looked up in `nm`.
pub fn from_t(t: &crate::refparser::T, nm: &Names) -> Option<F> {
    use crate::refparser::T;
    fn go(t: &T, scope: &mut Vec<String>, nm: &Names) -> Option<F> {
        Some(match t {
            T::Const(b) => F::Const(*b),
            T::Prop(p) => F::Prop(nm.props.iter().position(|x| x == p)? as u8),
            T::Var(v) => F::Var(scope.iter().rposition(|x| x == v)? as u8),
            T::Wild(w) => F::Wild(nm.wilds.iter().position(|x| x == w)? as u8),
            T::Un(o, c) => F::un(*o, go(c, scope, nm)?),
            T::Bin(o, l, r) => F::bin(*o, go(l, scope, nm)?, go(r, scope, nm)?),
            T::Hy(Hy::Jump, v, _, c) => F::hy(Hy::Jump, scope.iter().rposition(|x| x == v)? as u8, None, go(c, scope, nm)?),
            T::Hy(o, v, d, c) => {
                let d = match d {
                    None => None,
                    Some(d) => Some(nm.doms.iter().position(|x| x == d)? as u8),
                };
                let lvl = scope.len() as u8;
                scope.push(v.clone());
                let c = go(c, scope, nm);
                scope.pop();
                F::hy(*o, lvl, d, c?)
            }
        })
    }
    go(t, &mut vec![], nm)
}

/// Replace the literal proposition names `a` / `b` of a template text by the first / last proposition of `nm`
/// (identifier tokens only; variables, labels and operator names are left alone).
pub fn with_props_of(text: &str, nm: &Names) -> String {
    let (p0, p1) = (nm.props[0].clone(), nm.props[nm.props.len() - 1].clone());
    let mut out = String::new();
    let mut tok = String::new();
    let flush = |tok: &mut String, out: &mut String| {
        match tok.as_str() {
            "a" => out.push_str(&p0),
            "b" => out.push_str(&p1),
            t => out.push_str(t),
        }
        tok.clear();
    };
    for c in text.chars() {
        if c.is_alphanumeric() || c == '_' {
            tok.push(c);
        } else {
            flush(&mut tok, &mut out);
            out.push(c);
        }
    }
    flush(&mut tok, &mut out);
    out
}

/// Parse a closed formula written in user syntax with the *reference* parser.
pub fn f(text: &str, nm: &Names) -> F {
    let t = crate::refparser::parse_str(text, true).unwrap_or_else(|e| panic!("template {text:?} does not parse: {e}"));
    from_t(&t, nm).unwrap_or_else(|| panic!("template {text:?} is not closed over the given names"))
}

/// The collision alphabet of the cache model (DESIGN §3 C04): formulae built to share
/// sub-formulae up to renaming, at different nesting depths, closed and with one free variable,
/// inside and outside domain-restricted scopes, under jumps, containing the two shortcut
/// patterns, and wild-cards inside duplicated sub-trees.
pub fn collision_alphabet(nm: &Names) -> Vec<F> {
    [
        "EF (~ a)",
        "!{x}: AX ({x} & a)",
        "!{x} in %d%: EF (~ a)",
        "(!{x}: AX ({x} & %p%)) & EF (~ a)",
        "!{x}: AX {x}",
        "3{x} in %d%: @{x}: AX ({x} & a)",
        "!{x} in %d%: !{y}: AX ({y} & a)",
        "!{x} in %e%: AX ({x} & a)",
        "!{x} in %d%: (@{x}: ((@{x}: %p%) & (@{x}: %p%)))",
        "(!{x} in %e%: a) & ((!{x}: AX ({x} & %p%)) & (!{x}: AX ({x} & %p%)))",
        "!{x}: AG EF {x}",
        "!{x} in %d%: ((!{y}: AG EF {y}) & {x})",
        "3{x} in %d%: 3{y} in %e%: ({x} & EX {y})",
        "3{x}: 3{y} in %e%: ({x} & EX {y})",
        // --- thorough only below ---
        "(~ a) & (!{x} in %d%: (~ a))",
        "!{x}: EX ({x} & (!{z}: EX {z}))",
        "3{w}: 3{x}: ((@{w}: a) & ({x} & EX ({x} & (!{z}: EX {z}))))",
        "!{y}: EX (AX ({y} & a))",
        "%p% & EF (~ a)",
        "V{x} in %d%: @{x}: EF (~ a)",
        "!{x}: 3{y}: (@{x}: AX ({x} & a)) & (@{y}: AX ({y} & a))",
        "!{x}: (!{y}: AX {y}) & AX {x}",
        "3{x}: !{y} in %d%: (!{z}: AX ({z} & a))",
        "!{x}: (!{y}: AX ({y} & a))",
        "!{x} in %d%: !{y} in %e%: (AX ({x} & a) | AX ({y} & a))",
        "EF (~ a) | (3{x} in %e%: EF (~ a))",
        "!{x}: !{y}: (AX ({x} & a) & AX ({y} & a))",
        "!{x} in %d%: (!{y}: AX {y}) | AX ({x} & a)",
    ]
    .iter()
    .map(|s| f(s, nm))
    .collect()
}

/// Template families `F_tmpl` (DESIGN §2.4): shapes the tool is used for that a node bound
/// cannot reach. `pool_size` selects how many fillers are used per slot.
pub fn templates(nm: &Names, ext: bool, pool_size: usize) -> Vec<F> {
    let mut out: Vec<String> = vec![];
    // fillers over {x} / {y} (one free variable) and closed ones
    let fill = |v: &str| -> Vec<String> {
        vec![
            format!("AX {{{v}}}"),
            format!("EF {{{v}}}"),
            format!("AG EF {{{v}}}"),
            format!("~ {{{v}}} & a"),
            format!("EX (~ {{{v}}})"),
            format!("AF {{{v}}}"),
            format!("a EU {{{v}}}"),
            format!("EG (a | {{{v}}})"),
        ]
    };
    let closed = ["a", "~ b", "EF a", "AG (a => EX b)", "!{z}: AX {z}", "!{z}: AG EF {z}"];
    let fx: Vec<String> = fill("x").into_iter().take(pool_size).collect();
    let fy: Vec<String> = fill("y").into_iter().take(pool_size).collect();
    let qs = ["!", "3", "V"];
    let ops = ["&", "|", "=>"];
    // Q1{x}: Q2{y}: (@{x}: alpha) op (@{y}: beta) [op gamma]
    for q1 in qs {
        for q2 in qs {
            for a in &fx {
                for b in &fy {
                    for op in ops.iter().take(if pool_size > 3 { 3 } else { 1 }) {
                        out.push(format!("{q1}{{x}}: {q2}{{y}}: (@{{x}}: {a}) {op} (@{{y}}: {b})"));
                    }
                    out.push(format!("{q1}{{x}}: {q2}{{y}}: (@{{x}}: ~ {{y}} & {a}) & (@{{y}}: {b}) & ({})", closed[out.len() % closed.len()]));
                }
            }
        }
    }
    // duplicate templates: the same two-variable sub-formula with swapped variable roles
    for q1 in qs {
        for q2 in qs {
            for (i, a) in fx.iter().enumerate() {
                let b = &fy[(i + 1) % fy.len()];
                let ay = a.replace("{x}", "{y}");
                let bx = b.replace("{y}", "{x}");
                out.push(format!("{q1}{{x}}: {q2}{{y}}: (({a}) & ({b})) | (({ay}) & ({bx}))"));
                out.push(format!("{q1}{{x}}: {q2}{{y}}: (({a}) & EX ({b})) ^ (({ay}) & EX ({bx}))"));
            }
        }
    }
    // three-variable nests
    for a in fx.iter().take(3) {
        out.push(format!("!{{x}}: 3{{y}}: V{{z}}: (@{{z}}: {a}) | (@{{y}}: EX {{z}})"));
        out.push(format!("3{{x}}: 3{{y}}: !{{z}}: ({a}) & (@{{y}}: AX {{y}}) & ~ {{y}}"));
        out.push(format!("V{{x}}: !{{y}}: 3{{z}}: @{{x}}: ({a}) => (EF {{z}} & AX {{y}})"));
    }
    // the benchmark formulae of the repository
    for s in [
        "!{x}: AG EF {x}",
        "!{x}: AX {x}",
        "!{x}: AX ~{x}",
        "!{x}: AX AF {x}",
        "3{x}: @{x}: (AX {x} & EF ~{x})",
        "!{x}: 3{y}: (@{x}: ~{y} & AX {x}) & (@{y}: AX {y})",
        "3{x}: 3{y}: (@{x}: ~{y} & AX {x}) & (@{y}: AX {y}) & EF ({x} & (!{z}: AX {z})) & EF ({y} & (!{z}: AX {z}))",
        "3{x}: 3{y}: (@{x}: AG EF {x} & ~ EF {y}) & (@{y}: AG EF {y})",
        "!{x}: (AX (~{x} & AF {x}))",
        "AF (!{x}: (AX (~{x} & AF {x})))",
        "AF (!{x}: ((AX (~{x} & AF {x})) & (EF (!{y}: EX ~ AF {y}))))",
        "!{x}: 3{y}: ((@{x}: ~{y} & AX {x}) & (@{y}: AX {y}) & EF {y})",
    ] {
        out.push(s.to_string());
    }
    if ext {
        let body = ["a", "!{y}: AX {y}", "AX {x}", "%p% & AX {x}", "!{y}: AG EF {y}", "EF {x}", "~ {x} | %p%", "EX (!{y} in %e%: AX ({y} & a))", "EF (!{y}: AX {y})", "(!{y}: AX {y}) | EX {x}"];
        for q in qs {
            for (i, b) in body.iter().enumerate() {
                if i >= pool_size + 2 {
                    break;
                }
                // Q{x} in %d%: ((@{x}: alpha) op beta)
                out.push(format!("{q}{{x}} in %d%: ((@{{x}}: {b}) & a)"));
                out.push(format!("{q}{{x}} in %d%: {b}"));
                out.push(format!("{q}{{x}} in %e%: ({b}) | %p%"));
                // (Q{x} in %d%: C[phi]) op C'[phi]   (same sub-formula inside and outside the scope)
                out.push(format!("({q}{{x}} in %d%: EX ({b})) & (!{{x}}: EX ({b}))"));
                out.push(format!("(!{{x}}: EX ({b})) | ({q}{{x}} in %d%: EX ({b}))"));
                out.push(format!("({q}{{x}} in %d%: EX ({b})) ^ ({q}{{x}} in %e%: EX ({b}))"));
                out.push(format!("{q}{{x}} in %d%: {q}{{y}} in %e%: (@{{x}}: {b}) & (@{{y}}: {})", b.replace("{x}", "{y}").replace("{y}: AX {y}", "{z}: AX {z}").replace("{y}: AG EF {y}", "{z}: AG EF {z}").replace("!{y} in", "!{z} in").replace("({y} & a)", "({z} & a)")));
            }
        }
        // the same inner domain (same label, same nesting depth) under different outer domains / none
        let inner = ["{x} & EX {y}", "(@{y}: EF {x}) | AX {y}", "@{x}: (a & EX {y})"];
        for (qi, q1) in qs.iter().enumerate() {
            let q2 = qs[(qi + 1) % 3];
            for b in inner.iter().take(pool_size.min(3)) {
                for op in ["&", "|"] {
                    out.push(format!("({q1}{{x}} in %d%: {q2}{{y}} in %e%: {b}) {op} ({q1}{{x}} in %e%: {q2}{{y}} in %e%: {b})"));
                    out.push(format!("({q1}{{x}} in %d%: {q2}{{y}} in %e%: {b}) {op} ({q1}{{x}}: {q2}{{y}} in %e%: {b})"));
                    out.push(format!("({q1}{{x}}: {q2}{{y}} in %d%: {b}) {op} ({q1}{{x}} in %e%: {q2}{{y}} in %d%: {b})"));
                    out.push(format!("({q2}{{x}} in %e%: {q1}{{y}} in %d%: {b}) {op} ({q2}{{x}} in %d%: {q1}{{y}} in %d%: {b})"));
                }
            }
        }
        out.push("!{x} in %d%: (@{x}: ((@{x}: %p%) & (@{x}: %p%)))".into());
        out.push("(!{x} in %e%: a) & ((!{x}: AX ({x} & %p%)) & (!{x}: AX ({x} & %p%)))".into());
        out.push("(!{x}: (!{y}: AX ({y} & a))) & (!{x}: !{y} in %d%: (!{z}: AX ({z} & a)))".into());
        out.push("(~ a) & (!{x} in %d%: (~ a))".into());
        out.push("!{x} in %d%: ((@{x}: AX {x}) & (!{y}: (a & AX {y})))".into());
    }
    let mut fs = vec![];
    let mut seen = std::collections::HashSet::new();
    for s in out {
        let t = match crate::refparser::parse_str(&s, true) {
            Ok(t) => t,
            Err(e) => panic!("template {s:?} does not parse: {e}"),
        };
        if !t.scope_ok(&mut vec![], &nm.props) {
            // some generated fillers are ill-scoped (e.g. {z} re-used): skip them deterministically
            continue;
        }
        if let Some(x) = from_t(&t, nm) {
            if seen.insert(x.clone()) {
                fs.push(x);
            }
        }
    }
    fs
}

/// Shift the levels of all variables/binders with level >= `from` by `by`.
pub fn shift_levels(f: &F, from: u8, by: u8) -> F {
    let s = |v: u8| if v >= from { v + by } else { v };
    match f {
        F::Var(i) => F::Var(s(*i)),
        F::Un(o, c) => F::un(*o, shift_levels(c, from, by)),
        F::Bin(o, l, r) => F::bin(*o, shift_levels(l, from, by), shift_levels(r, from, by)),
        F::Hy(o, v, d, c) => F::hy(*o, s(*v), *d, shift_levels(c, from, by)),
        other => other.clone(),
    }
}

/// Duplicate templates (DESIGN §2.4): a sub-formula phi with exactly one free variable (and
/// possibly quantifiers of its own) occurring twice up to renaming — at the same and at
/// *different* quantifier depths, in both evaluation orders, with the free variable being the
/// outer or the inner one. `max_phi` bounds the size of phi; `need_inner_q` keeps only phi that
/// contain a quantifier (the shapes where canonical renaming involves more than one variable).
pub fn duplicate_templates(nprops: u8, max_phi: usize, need_inner_q: bool, ext: bool) -> Vec<F> {
    let mut alpha = Alphabet::plain(nprops.min(1), 3);
    alpha.consts = vec![];
    alpha.un = vec![Un::EX, Un::AX, Un::Not];
    alpha.bi = vec![Bi::And];
    alpha.quant = vec![Hy::Bind, Hy::Exists];
    if ext {
        alpha.nwilds = 1;
    }
    let mut g = Gen::new(alpha);
    let mut pool: Vec<F> = vec![];
    for size in 2..=max_phi {
        for phi in g.exact(size, 1).iter() {
            let uses_free = phi.any(|x| matches!(x, F::Var(0)) || matches!(x, F::Hy(Hy::Jump, 0, _, _)));
            let has_q = phi.any(|x| matches!(x, F::Hy(h, _, _, _) if *h != Hy::Jump));
            if uses_free && (has_q || !need_inner_q) && phi.qdepth() <= 1 {
                pool.push(phi.clone());
            }
        }
    }
    let mut out = vec![];
    let qs = [Hy::Bind, Hy::Exists, Hy::Forall];
    for phi in &pool {
        // phi with its free variable at level 0 (inner binders from level 1)
        let p0 = phi.clone();
        // free variable at level 1, inner binders from level 2 (placed under two quantifiers, refers to the inner one)
        let p1 = shift_levels(phi, 0, 1);
        // free variable at level 0 but placed under two quantifiers (inner binders from level 2)
        let p0_deep = shift_levels(phi, 1, 1);
        for (qi, q1) in qs.iter().enumerate() {
            let q2 = qs[(qi + 1) % 3];
            for op in [Bi::And, Bi::Or] {
                // shallow occurrence first, deeper occurrence second, and the other way round
                out.push(F::hy(*q1, 0, None, F::bin(op, p0.clone(), F::hy(q2, 1, None, p1.clone()))));
                out.push(F::hy(*q1, 0, None, F::bin(op, F::hy(q2, 1, None, p1.clone()), p0.clone())));
                // both under two quantifiers: one refers to the outer, one to the inner variable
                out.push(F::hy(*q1, 0, None, F::hy(q2, 1, None, F::bin(op, p0_deep.clone(), p1.clone()))));
                // siblings at different depths
                out.push(F::bin(op, F::hy(*q1, 0, None, p0.clone()), F::hy(q2, 0, None, F::hy(*q1, 1, None, p1.clone()))));
                out.push(F::bin(op, F::hy(q2, 0, None, F::hy(*q1, 1, None, p1.clone())), F::hy(*q1, 0, None, p0.clone())));
            }
        }
    }
    out.sort();
    out.dedup();
    out
}

/// Pair family: every ordered pair (A, B) of a pool of closed formulae joined by `&` / `|`, and
/// (for a smaller prefix of the pool) nested under a domain-restricted quantifier with a jump:
/// `Q{x} in %d%: (A & (@{x}: B))`. Two occurrences of related sub-formulae in two different
/// contexts inside ONE formula is the shape every cache-related defect needs.
pub fn pair_family(pool: &[F], nest: usize, with_domains: bool) -> Vec<F> {
    let mut out = vec![];
    for a in pool {
        for b in pool {
            out.push(F::bin(Bi::And, a.clone(), b.clone()));
            out.push(F::bin(Bi::Or, a.clone(), b.clone()));
        }
    }
    let small: Vec<&F> = pool.iter().take(nest).collect();
    for a in &small {
        for b in &small {
            let (sa, sb) = (shift_levels(a, 0, 1), shift_levels(b, 0, 1));
            for q in [Hy::Bind, Hy::Exists, Hy::Forall] {
                let body = F::bin(Bi::And, sa.clone(), F::hy(Hy::Jump, 0, None, sb.clone()));
                out.push(F::hy(q, 0, if with_domains { Some(0) } else { None }, body));
            }
        }
    }
    out
}

/// Pool of closed plain formulae used by `pair_family` in the plain checks.
pub fn plain_pool(nm: &Names) -> Vec<F> {
    let mut p: Vec<F> = collision_alphabet(nm).into_iter().filter(|f| !f.uses_wild_or_dom()).collect();
    for s in [
        "a",
        "AX a",
        "!{x}: AX (~{x} & AF {x})",
        "3{x}: @{x}: (AX {x} & EF ~{x})",
        "!{x}: 3{y}: (@{x}: ~{y} & AX {x}) & (@{y}: AX {y})",
        "AF (!{x}: (AX (~{x} & AF {x})))",
        "3{x}: V{y}: (@{y}: EF {x})",
        "a EW (!{x}: AX {x})",
        "(!{x}: AG EF {x}) AU a",
        "!{x}: EG ({x} | a)",
    ] {
        p.push(f(s, nm));
    }
    p.sort();
    p.dedup();
    p
}

/// Formulae that EXTEND a shape the evaluator recognises as a pattern (`!{x}: AG EF {x}`, `!{x}: AX {x}`)
/// by a condition: `!{x}: P ({x} & PHI)`, `!{x}: P (PHI & {x})`, `!{x}: (P {x}) & PHI` and the jump form, for
/// PHI ranging over propositional, temporal and quantified conditions (some depending on `x`, some on
/// transient states through `3{y}: @{y}:` / `V{y}: @{y}:`). Uses the proposition `a` only.
pub fn pattern_condition_family(nm: &Names) -> Vec<F> {
    let conds = [
        "a",
        "~a",
        "EF {x}",
        "AG a",
        "EF ~a",
        "(3{y}: (@{y}: (a & EF {x})))",
        "(3{y}: (@{y}: (~a & EF {x})))",
        "(V{y}: (@{y}: (a | ~(EF {x}))))",
        "(V{y}: (@{y}: (~a | AG (EF {x}))))",
        "(3{y}: ((@{y}: ~a) & EF {y}))",
        "(3{y}: ((@{y}: a) & ~(EF {y})))",
        "(!{y}: AG (EF {y}))",
        "(3{y}: (@{y}: (AG (EF {y}) & EF {x})))",
    ];
    let mut out = vec![];
    for p in ["AG EF", "AX", "EF AG", "AG"] {
        for c in conds {
            for shape in ["!{x}: PAT ({x} & COND)", "!{x}: PAT (COND & {x})", "!{x}: ((PAT {x}) & COND)", "3{x}: (@{x}: PAT ({x} & COND))", "!{x}: PAT ({x} | ~COND)"] {
                out.push(f(&shape.replace("PAT", p).replace("COND", c), nm));
            }
        }
    }
    out.sort();
    out.dedup();
    out
}

/// A closed sub-formula PSI evaluated inside the scope of a variable with a RESTRICTED domain, next to a jump to that
/// variable (before / after it), and once more outside the scope (bare or under another quantifier), in both orders.
/// What is computed inside a restricted scope must never be served outside it. Uses %d%, propositions a (and b).
pub fn restricted_scope_duplicates(nm: &Names) -> Vec<F> {
    let mut psis = vec!["(AG a)", "(EF (~a))", "(AX a)", "(EG a)", "(!{z}: AG EF {z})", "(!{z}: AX {z})"];
    if nm.props.len() >= 2 {
        psis.push("(a EU b)");
        psis.push("(EF (a & b))");
    }
    let mut out = vec![];
    for q1 in ["3", "V", "!"] {
        for q2 in ["3", "V", "!"] {
            for psi in &psis {
                for glue in ["&", "|"] {
                    for jump_first in [true, false] {
                        let inside = if jump_first { format!("({q1}{{x}} in %d%: ((@{{x}}: a) {glue} {psi}))") } else { format!("({q1}{{x}} in %d%: ({psi} {glue} (@{{x}}: a)))") };
                        for outside in [format!("({q2}{{y}}: (@{{y}}: {psi}))"), psi.to_string()] {
                            out.push(f(&with_props_of(&format!("{inside} | {outside}"), nm), nm));
                            out.push(f(&with_props_of(&format!("{outside} & {inside}"), nm), nm));
                        }
                    }
                }
            }
        }
    }
    // ... and with a NESTED restricted quantifier (domain %e%: completely empty / empty for some colours in the label families)
    // evaluated after PSI inside the scope - scope bookkeeping has an early-return path for empty domains
    for q1 in ["3", "V", "!"] {
        for q3 in ["3", "V", "!"] {
            for psi in &psis {
                for glue in ["&", "|"] {
                    let inside = format!("({q1}{{x}} in %d%: ({psi} {glue} ({q3}{{y}} in %e%: (@{{y}}: a))))");
                    for outside in [format!("(!{{y}}: (@{{y}}: {psi}))"), psi.to_string()] {
                        out.push(f(&with_props_of(&format!("{inside} | {outside}"), nm), nm));
                        out.push(f(&with_props_of(&format!("{outside} & {inside}"), nm), nm));
                    }
                }
            }
        }
    }
    out.sort();
    out.dedup();
    out
}

/// Two parenthesised groups in ONE formula that consist of the same tokens in the same order but are grouped differently
/// inside: `((l0 o1 l1) o2 l2) g (l0 o1 (l1 o2 l2))`, `(u (l0 o l1)) g ((u l0) o l1)`, both orders. Whatever identifies a group by
/// its flattened tokens (a cache key, a printed form without parentheses) confuses them. Texts in user syntax over three leaf names.
pub fn reparenthesised_texts(l: [&str; 3]) -> Vec<String> {
    let unary = ["~", "EX", "AX", "EF", "AF", "EG", "AG"];
    let binary = ["&", "|", "^", "=>", "<=>", "EU", "AU", "EW", "AW"];
    let mut out = vec![];
    for o1 in binary {
        for o2 in binary {
            let t1 = format!("(({} {o1} {}) {o2} {})", l[0], l[1], l[2]);
            let t2 = format!("({} {o1} ({} {o2} {}))", l[0], l[1], l[2]);
            for g in ["|", "&"] {
                out.push(format!("{t1} {g} {t2}"));
                out.push(format!("{t2} {g} {t1}"));
            }
        }
    }
    for u in unary {
        for o in binary {
            let u1 = format!("({u} ({} {o} {}))", l[0], l[1]);
            let u2 = format!("(({u} {}) {o} {})", l[0], l[1]);
            out.push(format!("{u1} | {u2}"));
            out.push(format!("{u2} & {u1}"));
        }
    }
    for q in ["!", "3", "V"] {
        for o in ["&", "|", "EU", "AW"] {
            let q1 = format!("({q}{{x}}: ({{x}} {o} {}))", l[1]);
            let q2 = format!("(({q}{{x}}: {{x}}) {o} {})", l[1]);
            out.push(format!("{q1} | {q2}"));
            out.push(format!("{q2} & {q1}"));
        }
    }
    out
}

/// Until operators with COMPOUND operands over up to four propositions: the left operand a literal (it depends on one variable
/// only), the right operand a conjunction of two or three literals over other / the same variables (not included in the left one).
/// `L EU R`, `L AW R`, `L AU R`, `L EW R`: what a saturation does per variable matters only when the operands ignore some variables.
pub fn until_compound_family(nprops: u8) -> Vec<F> {
    let n = nprops.min(4);
    let lit = |i: u8, pos: bool| if pos { F::Prop(i) } else { F::un(Un::Not, F::Prop(i)) };
    let mut rights: Vec<F> = vec![];
    for i in 0..n {
        for j in (i + 1)..n {
            for (pi, pj) in [(true, true), (true, false), (false, true)] {
                rights.push(F::bin(Bi::And, lit(i, pi), lit(j, pj)));
            }
            for k in (j + 1)..n {
                for (pi, pj, pk) in [(true, true, true), (false, true, true), (true, false, true), (true, true, false)] {
                    rights.push(F::bin(Bi::And, F::bin(Bi::And, lit(i, pi), lit(j, pj)), lit(k, pk)));
                }
            }
        }
    }
    let mut out = vec![];
    for li in 0..n {
        for lp in [true, false] {
            for r in &rights {
                for op in [Bi::EU, Bi::AW, Bi::AU, Bi::EW] {
                    out.push(F::bin(op, lit(li, lp), r.clone()));
                }
            }
        }
    }
    out
}

/// Wild-card propositions counted across scopes: %p% several times inside the scope of a variable with a restricted domain
/// (within a duplicated sub-formula that does not mention the variable), and one to three more times outside it, in both orders.
/// Texts (user syntax with %p%, %d%, proposition a); bookkeeping of how often a context set is still needed must not depend on scopes.
pub fn wildcard_count_texts() -> Vec<String> {
    let mut out = vec![];
    for q in ["3", "V", "!"] {
        for inner in ["(EF %p% & AX EF %p%)", "((EF %p%) | (AX (EF %p%)) | {x})", "((AX %p%) & (AX %p%) & (AX %p%))", "(@{x}: ((EX %p%) & (EX %p%)))"] {
            for outer in ["%p%", "(%p% | AX %p%)", "(%p% & (EX %p%) & (AG %p%))", "(!{y}: (%p% & AX ({y} | %p%)))"] {
                for glue in ["&", "|"] {
                    out.push(format!("({q}{{x}} in %d%: {inner}) {glue} {outer}"));
                    out.push(format!("{outer} {glue} ({q}{{x}} in %d%: {inner})"));
                }
            }
        }
    }
    out
}

/// Two-operator nests: every binary operator over every unary operator in either operand position
/// (leaves: the propositions, True and False), and the same with a state variable / a closed fixed-point
/// sub-formula as the inner operand. 4..7 nodes; systematic, not sampled.
pub fn op_nest_family(nprops: u8) -> Vec<F> {
    let mut leaves: Vec<F> = (0..nprops.min(2)).map(F::Prop).collect();
    leaves.push(F::Const(true));
    leaves.push(F::Const(false));
    let a = |x: F| Arc::new(x);
    let mut out = vec![];
    for bi in ALL_BI {
        for un in ALL_UN {
            for l1 in &leaves {
                for l2 in &leaves {
                    out.push(F::Bin(bi, a(l1.clone()), a(F::Un(un, a(l2.clone())))));
                    out.push(F::Bin(bi, a(F::Un(un, a(l1.clone()))), a(l2.clone())));
                }
                out.push(F::Hy(Hy::Bind, 0, None, a(F::Bin(bi, a(l1.clone()), a(F::Un(un, a(F::Var(0))))))));
                out.push(F::Hy(Hy::Bind, 0, None, a(F::Bin(bi, a(F::Un(un, a(F::Var(0)))), a(l1.clone())))));
                let inner = F::Hy(Hy::Bind, 1, None, a(F::Un(un, a(F::Var(1)))));
                out.push(F::Hy(Hy::Exists, 0, None, a(F::Hy(Hy::Jump, 0, None, a(F::Bin(bi, a(l1.clone()), a(inner.clone())))))));
            }
        }
    }
    out.sort();
    out.dedup();
    out
}

/// Deterministic deep quantifier nests (d quantifiers on one branch, d = 4..=max): every variable is
/// used; jumps to the outermost / a middle / the innermost variable; three operator mixes.
pub fn deep_nests(nm: &Names, max: usize) -> Vec<F> {
    let mut out = vec![];
    for d in 4..=max {
        for variant in 0..3usize {
            let v = |i: usize| format!("{{{}}}", nm.vars[i]);
            let mut q = String::new();
            for i in 0..d {
                q.push_str(&format!("{}{}: ", ["!", "3", "V"][(i + variant) % 3], v(i)));
            }
            let body = match variant {
                0 => format!("(@{}: EX {}) | ({} & AX {})", v(0), v(d - 1), v(d / 2), v(0)),
                1 => format!("(@{}: (EF {} & ~{})) | (@{}: AX {})", v(d - 1), v(0), v(d - 2), v(d / 2), v(d - 1)),
                _ => format!("(@{}: AG EF {}) & (EX {} | {} | ~{})", v(1), v(d - 1), v(d - 1), v(d - 2), v(0)),
            };
            out.push(f(&format!("{q}{body}"), nm));
        }
    }
    out
}

/// "Shared operand" family: a sub-formula B inside one operand of a Boolean connective and again next to
/// it - (A & B) | B, (A | B) & B, (A & B) | ~B, B | (A & B), (A => B) & (B | A) - for A, B over a pool of
/// small closed formulae (per-colour emptiness of A decides what a lazy evaluation of B may skip).
pub fn shared_operand_family(nm: &Names) -> Vec<F> {
    let p0 = nm.props[0].clone();
    let pool: Vec<String> = vec![
        p0.clone(),
        format!("~ {p0}"),
        format!("EX {p0}"),
        format!("AX {p0}"),
        format!("EF {p0}"),
        format!("AG {p0}"),
        format!("AF {p0}"),
        format!("EG (~ {p0})"),
        "3{x}: @{x}: AX {x}".to_string(),
        "!{x}: AX {x}".to_string(),
        "!{x}: AG EF {x}".to_string(),
    ];
    let mut out = vec![];
    for a in &pool {
        for b in &pool {
            if a == b {
                continue;
            }
            for t in ["((A) & (B)) | (B)", "((A) | (B)) & (B)", "((A) & (B)) | ~ (B)", "(B) | ((A) & (B))", "((A) => (B)) & ((B) | (A))", "((A) & (EX (B))) | (EX (B))"] {
                out.push(f(&t.replace('A', a).replace('B', b), nm));
            }
        }
    }
    out
}
