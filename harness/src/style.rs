//! Meaning-preserving rewrites of formula text (C08): renaming, whitespace, redundant
//! parentheses, long/short operator spelling, constant spellings.

use crate::formulas::{Hy, Names, Un, F};

/// One token of the concrete syntax; `glue_left` = no whitespace may be *required* before it.
#[derive(Clone, Debug)]
pub struct Tk {
    pub s: String,
}

#[derive(Clone, Debug)]
pub struct Style {
    /// name of the variable bound by the `i`-th binder in pre-order (jump targets / occurrences follow their binder)
    pub binder_names: Vec<String>,
    /// use the long spelling for the `i`-th hybrid operator in pre-order (None = for none, Some(usize::MAX) = all)
    pub long_hybrid: Option<usize>,
    /// spelling of True / False
    pub true_s: String,
    pub false_s: String,
    /// wrap the `i`-th sub-formula (pre-order) in `extra` additional pairs of parentheses (usize::MAX = every one)
    pub paren_at: Option<usize>,
    pub paren_extra: usize,
}

impl Style {
    pub fn plain(f: &F, names: &Names) -> Style {
        Style {
            binder_names: default_binder_names(f, names),
            long_hybrid: None,
            true_s: "True".into(),
            false_s: "False".into(),
            paren_at: None,
            paren_extra: 1,
        }
    }
}

/// level-based default names for every binder in pre-order
pub fn default_binder_names(f: &F, names: &Names) -> Vec<String> {
    let mut out = vec![];
    fn go(f: &F, names: &Names, out: &mut Vec<String>) {
        match f {
            F::Un(_, c) => go(c, names, out),
            F::Bin(_, l, r) => {
                go(l, names, out);
                go(r, names, out)
            }
            F::Hy(Hy::Jump, _, _, c) => go(c, names, out),
            F::Hy(_, v, _, c) => {
                out.push(names.vars[*v as usize].clone());
                go(c, names, out)
            }
            _ => {}
        }
    }
    go(f, names, &mut out);
    out
}

/// levels of every binder in pre-order
pub fn binder_levels(f: &F) -> Vec<u8> {
    let mut out = vec![];
    fn go(f: &F, out: &mut Vec<u8>) {
        match f {
            F::Un(_, c) => go(c, out),
            F::Bin(_, l, r) => {
                go(l, out);
                go(r, out)
            }
            F::Hy(Hy::Jump, _, _, c) => go(c, out),
            F::Hy(_, v, _, c) => {
                out.push(*v);
                go(c, out)
            }
            _ => {}
        }
    }
    go(f, &mut out);
    out
}

pub fn count_nodes(f: &F) -> usize {
    f.size()
}
pub fn count_hybrid(f: &F) -> usize {
    match f {
        F::Un(_, c) => count_hybrid(c),
        F::Bin(_, l, r) => count_hybrid(l) + count_hybrid(r),
        F::Hy(_, _, _, c) => 1 + count_hybrid(c),
        _ => 0,
    }
}

struct Pr<'a> {
    st: &'a Style,
    names: &'a Names,
    binder: usize,
    hybrid: usize,
    node: usize,
    scope: Vec<String>,
    out: Vec<String>,
}

impl<'a> Pr<'a> {
    fn go(&mut self, f: &F) {
        let my = self.node;
        self.node += 1;
        let extra = match self.st.paren_at {
            Some(i) if i == my || i == usize::MAX => self.st.paren_extra,
            _ => 0,
        };
        for _ in 0..extra {
            self.out.push("(".into());
        }
        match f {
            F::Const(true) => self.out.push(self.st.true_s.clone()),
            F::Const(false) => self.out.push(self.st.false_s.clone()),
            F::Prop(i) => self.out.push(self.names.props[*i as usize].clone()),
            F::Wild(i) => self.out.push(format!("%{}%", self.names.wilds[*i as usize])),
            F::Var(i) => self.out.push(format!("{{{}}}", self.scope[*i as usize])),
            F::Un(o, c) => {
                self.out.push("(".into());
                self.out.push(o.s().into());
                self.go(c);
                self.out.push(")".into());
            }
            F::Bin(o, l, r) => {
                self.out.push("(".into());
                self.go(l);
                self.out.push(o.s().into());
                self.go(r);
                self.out.push(")".into());
            }
            F::Hy(o, v, d, c) => {
                self.out.push("(".into());
                let h = self.hybrid;
                self.hybrid += 1;
                let long = matches!(self.st.long_hybrid, Some(i) if i == h || i == usize::MAX);
                self.out.push(if long { o.long().trim().to_string() } else { o.s().to_string() });
                if *o == Hy::Jump {
                    self.out.push(format!("{{{}}}", self.scope[*v as usize]));
                    self.out.push(":".into());
                    self.go(c);
                } else {
                    let name = self.st.binder_names[self.binder].clone();
                    self.binder += 1;
                    self.out.push(format!("{{{name}}}"));
                    if let Some(d) = d {
                        self.out.push("in".into());
                        self.out.push(format!("%{}%", self.names.doms[*d as usize]));
                    }
                    self.out.push(":".into());
                    debug_assert_eq!(self.scope.len(), *v as usize);
                    self.scope.push(name);
                    self.go(c);
                    self.scope.pop();
                }
                self.out.push(")".into());
            }
        }
        for _ in 0..extra {
            self.out.push(")".into());
        }
    }
}

/// Concrete-syntax token list of `f` under `st` (canonical full parenthesisation + extras).
pub fn tokens(f: &F, names: &Names, st: &Style) -> Vec<String> {
    let mut p = Pr { st, names, binder: 0, hybrid: 0, node: 0, scope: vec![], out: vec![] };
    p.go(f);
    p.out
}

fn needs_space(a: &str, b: &str) -> bool {
    let la = a.chars().last().unwrap();
    let fb = b.chars().next().unwrap();
    let namec = |c: char| c.is_alphanumeric() || c == '_';
    // two name-like tokens must be separated ("EX a", "a EU b", "\bind x"); a backslash operator is name-like at its end
    namec(la) && namec(fb)
}

/// Join tokens: `ws` at boundary `at` (None = at every boundary), single spaces elsewhere.
/// An empty `ws` is only applied where no separator is required.
pub fn join(toks: &[String], ws: &str, at: Option<usize>) -> String {
    let mut s = String::new();
    for (i, t) in toks.iter().enumerate() {
        if i > 0 {
            let here = at.is_none() || at == Some(i);
            if here {
                if ws.is_empty() && needs_space(&toks[i - 1], t) {
                    s.push(' ');
                } else {
                    s.push_str(ws);
                }
            } else {
                s.push(' ');
            }
        }
        s.push_str(t);
    }
    s
}

pub fn render(f: &F, names: &Names, st: &Style) -> String {
    join(&tokens(f, names, st), " ", None)
}

/// All assignments of pool names to binders such that no binder re-uses a name that is in scope
/// (consistent renamings of variables); capped at `cap` assignments, enumerated in a fixed order.
pub fn binder_assignments(f: &F, pool: &[&str], cap: usize) -> Vec<Vec<String>> {
    // structure: binders in pre-order with their levels; binder i's scope = names of the latest binders at levels < level(i)
    let levels = binder_levels(f);
    let mut out = vec![];
    fn rec(levels: &[u8], pool: &[&str], cur: &mut Vec<String>, active: &mut Vec<Option<String>>, out: &mut Vec<Vec<String>>, cap: usize) {
        if out.len() >= cap {
            return;
        }
        let i = cur.len();
        if i == levels.len() {
            out.push(cur.clone());
            return;
        }
        let lvl = levels[i] as usize;
        for p in pool {
            // names in scope: active binders at levels < lvl
            if active[..lvl].iter().any(|a| a.as_deref() == Some(*p)) {
                continue;
            }
            let saved = active.clone();
            active[lvl] = Some(p.to_string());
            for a in active[lvl + 1..].iter_mut() {
                *a = None;
            }
            cur.push(p.to_string());
            rec(levels, pool, cur, active, out, cap);
            cur.pop();
            *active = saved;
        }
    }
    rec(&levels, pool, &mut vec![], &mut vec![None; 8], &mut out, cap);
    out
}

pub fn has_const(f: &F) -> bool {
    f.any(|x| matches!(x, F::Const(_)))
}
#[allow(dead_code)]
pub fn uses_not(f: &F) -> bool {
    f.has_op_un(Un::Not)
}

/// Precedence level of the top operator (weakest first), following the documented grammar.
fn level(f: &F) -> u8 {
    use crate::formulas::Bi;
    match f {
        F::Hy(..) => 0,
        F::Bin(Bi::Iff, ..) => 1,
        F::Bin(Bi::Imp, ..) => 2,
        F::Bin(Bi::Or, ..) => 3,
        F::Bin(Bi::Xor, ..) => 4,
        F::Bin(Bi::And, ..) => 5,
        F::Bin(..) => 6,
        F::Un(..) => 7,
        _ => 8,
    }
}

/// Rendering with as few parentheses as the grammar allows (all binary operators are
/// right-associative; a hybrid operator may only start a formula or a parenthesised group and its
/// body extends to the end of that group). `keep` lists pre-order node indices that keep their
/// canonical outer parentheses anyway.
pub fn render_minimal(f: &F, names: &Names, keep: &[usize]) -> String {
    fn go(f: &F, names: &Names, scope: &mut Vec<String>, node: &mut usize, keep: &[usize], need: bool, out: &mut String) {
        let my = *node;
        *node += 1;
        let paren = (need || keep.contains(&my)) && level(f) < 8;
        if paren {
            out.push('(');
        }
        match f {
            F::Const(true) => out.push_str("True"),
            F::Const(false) => out.push_str("False"),
            F::Prop(i) => out.push_str(&names.props[*i as usize]),
            F::Wild(i) => out.push_str(&format!("%{}%", names.wilds[*i as usize])),
            F::Var(i) => out.push_str(&format!("{{{}}}", scope[*i as usize])),
            F::Un(o, c) => {
                out.push_str(o.s());
                out.push(' ');
                go(c, names, scope, node, keep, level(c) < 7, out);
            }
            F::Bin(o, l, r) => {
                let lv = level(f);
                go(l, names, scope, node, keep, level(l) <= lv, out);
                out.push_str(&format!(" {} ", o.s()));
                go(r, names, scope, node, keep, level(r) < lv, out);
            }
            F::Hy(o, v, d, c) => {
                if *o == Hy::Jump {
                    out.push_str(&format!("@{{{}}}: ", scope[*v as usize]));
                    go(c, names, scope, node, keep, false, out);
                } else {
                    let name = names.vars[*v as usize].clone();
                    match d {
                        Some(d) => out.push_str(&format!("{}{{{}}} in %{}%: ", o.s(), name, names.doms[*d as usize])),
                        None => out.push_str(&format!("{}{{{}}}: ", o.s(), name)),
                    }
                    scope.push(name);
                    go(c, names, scope, node, keep, false, out);
                    scope.pop();
                }
            }
        }
        if paren {
            out.push(')');
        }
    }
    let mut out = String::new();
    go(f, names, &mut vec![], &mut 0, keep, false, &mut out);
    out
}
