//! Driving the repository's two binaries (built from the working tree by `./check`), temp
//! directories, and independent reading of result archives.

use std::io::{Read, Write};
use std::path::{Path, PathBuf};
use std::process::{Command, Stdio};
use std::time::{Duration, Instant};

pub const BIN_DIR: &str = "/verif/target/repo-bins/release";

/// `VERIF_BIN_DIR` overrides the directory (used by tools/regress_parallel.py, which builds scratch copies).
fn bin_dir() -> PathBuf {
    PathBuf::from(std::env::var("VERIF_BIN_DIR").unwrap_or_else(|_| BIN_DIR.to_string()))
}
pub fn checker_bin() -> PathBuf {
    bin_dir().join("hctl-model-checker")
}
pub fn converter_bin() -> PathBuf {
    bin_dir().join("convert-aeon-to-bnet")
}

pub struct RunOut {
    pub stdout: String,
    pub stderr: String,
    pub code: Option<i32>,
    pub timed_out: bool,
}

impl RunOut {
    pub fn panicked(&self) -> bool {
        self.stderr.contains("panicked at") || self.code == Some(101) || (self.code.is_none() && !self.timed_out)
    }
}

pub fn run(bin: &Path, args: &[&str], stdin: Option<&str>, limit_s: f64) -> Result<RunOut, String> {
    let mut cmd = Command::new(bin);
    cmd.args(args).stdout(Stdio::piped()).stderr(Stdio::piped()).stdin(if stdin.is_some() { Stdio::piped() } else { Stdio::null() });
    cmd.env("RUST_BACKTRACE", "0").env("NO_COLOR", "1");
    let mut child = cmd.spawn().map_err(|e| format!("cannot start {}: {e}", bin.display()))?;
    if let Some(s) = stdin {
        let mut w = child.stdin.take().unwrap();
        let _ = w.write_all(s.as_bytes());
    }
    let mut so = child.stdout.take().unwrap();
    let mut se = child.stderr.take().unwrap();
    let t1 = std::thread::spawn(move || {
        let mut b = vec![];
        let _ = so.read_to_end(&mut b);
        String::from_utf8_lossy(&b).to_string()
    });
    let t2 = std::thread::spawn(move || {
        let mut b = vec![];
        let _ = se.read_to_end(&mut b);
        String::from_utf8_lossy(&b).to_string()
    });
    let t0 = Instant::now();
    let mut timed_out = false;
    let status = loop {
        match child.try_wait() {
            Ok(Some(s)) => break Some(s),
            Ok(None) => {
                if t0.elapsed().as_secs_f64() > limit_s {
                    let _ = child.kill();
                    let _ = child.wait();
                    timed_out = true;
                    break None;
                }
                std::thread::sleep(Duration::from_millis(2));
            }
            Err(e) => return Err(format!("wait: {e}")),
        }
    };
    Ok(RunOut { stdout: t1.join().unwrap_or_default(), stderr: t2.join().unwrap_or_default(), code: status.and_then(|s| s.code()), timed_out })
}

/// Strip ANSI escape sequences.
pub fn strip_ansi(s: &str) -> String {
    let mut out = String::new();
    let mut it = s.chars().peekable();
    while let Some(c) = it.next() {
        if c == '\u{1b}' {
            if it.peek() == Some(&'[') {
                it.next();
                for d in it.by_ref() {
                    if d.is_ascii_alphabetic() {
                        break;
                    }
                }
            }
        } else {
            out.push(c);
        }
    }
    out
}

/// Read a zip archive independently of the library's loader: (entry name, content) in archive order.
pub fn read_zip(path: &Path) -> Result<Vec<(String, String)>, String> {
    let f = std::fs::File::open(path).map_err(|e| e.to_string())?;
    let mut z = zip::ZipArchive::new(f).map_err(|e| e.to_string())?;
    let mut out = vec![];
    for i in 0..z.len() {
        let mut e = z.by_index(i).map_err(|e| e.to_string())?;
        let mut s = String::new();
        e.read_to_string(&mut s).map_err(|e| e.to_string())?;
        out.push((e.name().to_string(), s));
    }
    Ok(out)
}

#[derive(Clone, Debug, PartialEq)]
pub struct Block {
    pub formula: String,
    pub results: f64,
    pub colors: f64,
    pub states: f64,
    /// exhaustive mode: each listed state as (variable name, value) pairs
    pub listed: Vec<Vec<(String, bool)>>,
}

/// Parse the `Formula:` blocks of the checker's stdout.
pub fn parse_blocks(stdout: &str) -> Result<Vec<Block>, String> {
    let clean = strip_ansi(stdout);
    let lines: Vec<&str> = clean.lines().collect();
    let mut out = vec![];
    let mut i = 0;
    while i < lines.len() {
        if let Some(f) = lines[i].strip_prefix("Formula: ") {
            let num = |l: Option<&&str>, suffix: &str| -> Result<f64, String> {
                let l = l.ok_or("truncated block")?;
                let v = l.strip_suffix(suffix).ok_or(format!("expected line ending with {suffix:?}, got {l:?}"))?;
                v.trim().parse::<f64>().map_err(|e| format!("bad number in {l:?}: {e}"))
            };
            if !lines.get(i + 1).map(|l| l.starts_with("Time to model check:")).unwrap_or(false) {
                return Err(format!("missing time line after {:?}", lines[i]));
            }
            let results = num(lines.get(i + 2), " results in total")?;
            let colors = num(lines.get(i + 3), " unique colors")?;
            let states = num(lines.get(i + 4), " unique states")?;
            if lines.get(i + 5) != Some(&"-----") {
                return Err("missing ----- after summary".into());
            }
            let mut j = i + 6;
            let mut listed = vec![];
            while j < lines.len() && lines[j].contains(" & ") && !lines[j].starts_with("Formula: ") {
                let mut st = vec![];
                for lit in lines[j].split(" & ") {
                    let lit = lit.trim();
                    if lit.is_empty() {
                        continue;
                    }
                    match lit.strip_prefix('~') {
                        Some(n) => st.push((n.to_string(), false)),
                        None => st.push((lit.to_string(), true)),
                    }
                }
                listed.push(st);
                j += 1;
            }
            out.push(Block { formula: f.to_string(), results, colors, states, listed });
            i = j;
        } else {
            i += 1;
        }
    }
    Ok(out)
}
