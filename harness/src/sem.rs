//! The semantic sweep engine shared by C01, C02, C03, C13 (and used as an anchor by others):
//! every formula of an enumerated space is evaluated by the library through the selected entry
//! points and by the explicit-state oracle; verdict tables are compared point-wise.

use crate::bridge::{Bound, Mask};
use crate::formulas::{Names, F};
use crate::nets::NetSpec;
use crate::oracle::Labels;
use crate::report::{Report, Violation};
use crate::sweep::{Got, NetCtx};
use rayon::prelude::*;
use serde_json::{json, Value};
use std::collections::{BTreeMap, BTreeSet, HashSet};
use std::sync::Arc;

#[derive(Clone, Copy, Debug, PartialEq, Eq)]
pub enum Entries {
    /// model_check_formula, _dirty, model_check_tree, _tree_dirty
    Plain4,
    /// model_check_formula_dirty only
    PlainDirty,
    /// model_check_extended_formula_dirty, model_check_extended_formula
    Ext2,
}

#[derive(Clone, Copy, Debug)]
pub struct Checks {
    /// compare with the oracle on every state x valid colour
    pub semantic: bool,
    /// result inside the unit set, independent of auxiliary variables, cardinalities bounded
    pub unit: bool,
    pub entries: Entries,
}

/// Check one formula on one network. Returns the list of (entry point, what is wrong).
pub fn check_formula(ctx: &NetCtx, f: &F, ck: Checks, expected: Option<&[Mask]>) -> Vec<(String, String)> {
    let mut bad = vec![];
    let text = f.show(&ctx.user);
    let own_expected;
    let expected: &[Mask] = match expected {
        Some(e) => e,
        None => {
            own_expected = ctx.expected(f);
            &own_expected
        }
    };
    let mut handle = |entry: &str, got: Got, canonical: bool| match got {
        Got::Panic(p) => bad.push((entry.to_string(), format!("panic: {p}"))),
        Got::Err(e) => bad.push((entry.to_string(), format!("unexpected Err for a closed well-formed formula: {e}"))),
        Got::Set(s) => {
            if ck.semantic {
                let d = if canonical { ctx.diff_canonical(&s, expected) } else { ctx.diff_dirty(&s, expected) };
                if let Some(d) = d {
                    bad.push((entry.to_string(), format!("differs from explicit-state semantics: {d}")));
                }
            }
            if ck.unit {
                if canonical {
                    // sanitised sets live in the canonical context: compare with a canonical graph
                    let unit_card = ctx.b.graph.unit_colored_vertices().approx_cardinality();
                    let unit_cols = ctx.b.graph.unit_colors().approx_cardinality();
                    if s.approx_cardinality() > unit_card + 0.5 {
                        bad.push((entry.to_string(), format!("{} results but the graph's unit set has {}", s.approx_cardinality(), unit_card)));
                    } else if s.colors().approx_cardinality() > unit_cols + 0.5 {
                        bad.push((entry.to_string(), format!("{} colours but the graph admits {}", s.colors().approx_cardinality(), unit_cols)));
                    }
                } else {
                    if ctx.b.outside_unit(&s) {
                        bad.push((entry.to_string(), "result is not a subset of the graph's unit set".to_string()));
                    }
                    if ctx.b.depends_on_extras(&s) {
                        bad.push((entry.to_string(), "result of a closed formula depends on auxiliary (HCTL state-variable) BDD variables".to_string()));
                    }
                }
            }
        }
    };
    // the same formula written with the fewest parentheses the documented grammar allows (users do not write
    // canonical texts); used only when the reference parser maps the text back to this very formula
    let minimal = {
        let m = crate::style::render_minimal(f, &ctx.user, &[]);
        let ok = m != text && matches!(crate::refparser::parse_str(&m, true), Ok(t) if crate::formulas::from_t(&t, &ctx.user).as_ref() == Some(f));
        if ok { Some(m) } else { None }
    };
    match ck.entries {
        Entries::Plain4 => {
            if let Some(m) = &minimal {
                handle("model_check_formula_dirty on the minimal-parentheses text", ctx.formula_dirty(m), false);
            }
            handle("model_check_formula_dirty", ctx.formula_dirty(&text), false);
            handle("model_check_formula", ctx.formula(&text), true);
            handle("model_check_tree_dirty", ctx.tree_dirty(f), false);
            handle("model_check_tree", ctx.tree(f), true);
            if ck.unit {
                // the self-loop-free variant is an entry point too: whatever it computes must stay inside the unit set
                // (its meaning is C18's subject, so no semantic comparison here)
                match ctx.run(|| biodivine_hctl_model_checker::model_checking::model_check_formula_unsafe_ex(&text, &ctx.b.graph)) {
                    Got::Set(s) => {
                        if ctx.b.outside_unit(&s) {
                            bad.push(("model_check_formula_unsafe_ex".to_string(), "result is not a subset of the graph's unit set".to_string()));
                        }
                        if ctx.b.depends_on_extras(&s) {
                            bad.push(("model_check_formula_unsafe_ex".to_string(), "result of a closed formula depends on auxiliary (HCTL state-variable) BDD variables".to_string()));
                        }
                    }
                    Got::Err(e) => bad.push(("model_check_formula_unsafe_ex".to_string(), format!("unexpected Err for a closed well-formed formula: {e}"))),
                    Got::Panic(p) => bad.push(("model_check_formula_unsafe_ex".to_string(), format!("panic: {p}"))),
                }
            }
        }
        Entries::PlainDirty => {
            if let Some(m) = &minimal {
                handle("model_check_formula_dirty on the minimal-parentheses text", ctx.formula_dirty(m), false);
            }
            handle("model_check_formula_dirty", ctx.formula_dirty(&text), false);
        }
        Entries::Ext2 => {
            if let Some(m) = &minimal {
                handle("model_check_extended_formula_dirty on the minimal-parentheses text", ctx.ext_dirty(m), false);
            }
            handle("model_check_extended_formula_dirty", ctx.ext_dirty(&text), false);
            handle("model_check_extended_formula", ctx.ext(&text), true);
        }
    }
    bad
}

pub fn case_json(ctx: &NetCtx, f: &F, ck: Checks) -> Value {
    json!({
        "kind": "sem",
        "net_name": ctx.b.name,
        "net": ctx.b.spec,
        "aeon": ctx.b.aeon,
        "k": ctx.b.k,
        "labels": {"wild": ctx.labels.wild, "dom": ctx.labels.dom, "desc": ctx.label_desc, "wild_names": ctx.user.wilds, "dom_names": ctx.user.doms},
        "formula": f,
        "text": f.show(&ctx.user),
        "semantic": ck.semantic,
        "unit": ck.unit,
        "entries": match ck.entries { Entries::Plain4 => "plain4", Entries::PlainDirty => "plaindirty", Entries::Ext2 => "ext2" },
    })
}

/// Re-execute a recorded case. Some(description) if it (still) fails.
pub fn replay(case: &Value) -> Option<String> {
    let spec: NetSpec = serde_json::from_value(case["net"].clone()).ok()?;
    let k = case["k"].as_u64()? as u16;
    let b = match Bound::new(case["net_name"].as_str().unwrap_or("replay"), &spec, k) {
        Ok(b) => Arc::new(b),
        Err(e) => return Some(format!("cannot bind network: {e:?}")),
    };
    let wild: Vec<Vec<Mask>> = serde_json::from_value(case["labels"]["wild"].clone()).ok()?;
    let dom: Vec<Vec<Mask>> = serde_json::from_value(case["labels"]["dom"].clone()).ok()?;
    let ctx = NetCtx::new(b, Labels { wild, dom, props: vec![] }, case["labels"]["desc"].as_str().unwrap_or(""));
    let ctx = match (serde_json::from_value::<Vec<String>>(case["labels"]["wild_names"].clone()), serde_json::from_value::<Vec<String>>(case["labels"]["dom_names"].clone())) {
        (Ok(w), Ok(d)) if w != ctx.user.wilds || d != ctx.user.doms => {
            let (w, d): (Vec<&str>, Vec<&str>) = (w.iter().map(|s| s.as_str()).collect(), d.iter().map(|s| s.as_str()).collect());
            ctx.with_label_names(&w[..ctx.labels.wild.len().min(w.len())], &d[..ctx.labels.dom.len().min(d.len())])
        }
        _ => ctx,
    };
    let f: F = serde_json::from_value(case["formula"].clone()).ok()?;
    let ck = Checks {
        semantic: case["semantic"].as_bool()?,
        unit: case["unit"].as_bool()?,
        entries: match case["entries"].as_str()? {
            "plain4" => Entries::Plain4,
            "plaindirty" => Entries::PlainDirty,
            _ => Entries::Ext2,
        },
    };
    let bad = check_formula(&ctx, &f, ck, None);
    if bad.is_empty() {
        None
    } else {
        Some(bad.iter().map(|(e, w)| format!("{e}: {w}")).collect::<Vec<_>>().join(" | "))
    }
}

#[derive(Default)]
struct Acc {
    evaluations: u64,
    tables: HashSet<Vec<Mask>>,
    nontrivial_tables: HashSet<Vec<Mask>>,
    ops: BTreeMap<&'static str, u64>,
    violations: Vec<Violation>,
    n_viol: u64,
}

/// Sweep `formulas` over `ctx`, accumulating into `rep`.
pub fn sweep(rep: &mut Report, ctx: &NetCtx, formulas: &[F], ck: Checks) {
    let acc = formulas
        .par_iter()
        .fold(Acc::default, |mut acc, f| {
            let expected = ctx.expected(f);
            let bad = check_formula(ctx, f, ck, Some(&expected));
            acc.evaluations += match ck.entries {
                Entries::Plain4 => 4,
                Entries::Ext2 => 2,
                Entries::PlainDirty => 1,
            };
            let mut ops = BTreeSet::new();
            f.ops(&mut ops);
            for o in ops {
                *acc.ops.entry(o).or_insert(0) += 1;
            }
            if ctx.nontrivial(&expected) {
                acc.nontrivial_tables.insert(expected.clone());
            }
            acc.tables.insert(expected);
            if !bad.is_empty() {
                acc.n_viol += 1;
                if acc.violations.len() < 200 {
                    let what = format!(
                        "formula {} on network {} [{}] labels={}: {}",
                        f.show(&ctx.user),
                        ctx.b.name,
                        ctx.b.aeon.replace('\n', "; "),
                        ctx.label_desc,
                        bad.iter().map(|(e, w)| format!("{e}: {w}")).collect::<Vec<_>>().join(" | ")
                    );
                    acc.violations.push(Violation { case: case_json(ctx, f, ck), what, size: f.size() * 1000 + ctx.b.n });
                }
            }
            acc
        })
        .reduce(Acc::default, |mut a, b| {
            a.evaluations += b.evaluations;
            a.tables.extend(b.tables);
            a.nontrivial_tables.extend(b.nontrivial_tables);
            for (k, v) in b.ops {
                *a.ops.entry(k).or_insert(0) += v;
            }
            a.n_viol += b.n_viol;
            a.violations.extend(b.violations);
            a
        });
    rep.evaluations += acc.evaluations;
    rep.distinct_nontrivial += acc.nontrivial_tables.len() as u64;
    rep.traces_validated += formulas.len() as u64 * ctx.b.cols.len() as u64;
    rep.add_count("formulae_x_networks", formulas.len() as u64);
    rep.add_count("distinct_verdict_tables", acc.tables.len() as u64);
    rep.add_count("failing_formula_network_pairs", acc.n_viol);
    let mut ops = rep.extra.get("operator_hits").cloned().unwrap_or(json!({}));
    for (k, v) in acc.ops {
        let cur = ops.get(k).and_then(|x| x.as_u64()).unwrap_or(0);
        ops[k] = json!(cur + v);
    }
    rep.set("operator_hits", ops);
    let mut v = acc.violations;
    v.sort_by_key(|x| x.size);
    v.truncate(60);
    rep.violations.extend(v);
}

/// Register a network in the report (states / transitions of the explored transition systems).
pub fn note_network(rep: &mut Report, b: &Bound) {
    rep.states += b.total_states() as u64;
    rep.transitions += b.total_edges() as u64;
    let mut nets = rep.extra.get("networks").cloned().unwrap_or(json!([]));
    nets.as_array_mut().unwrap().push(json!({
        "name": b.name, "aeon": b.aeon.replace('\n', "; "), "variables": b.n, "valid_colours": b.cols.len(),
        "invalid_parameter_valuations": b.invalid_valuations, "k": b.k,
        "steady_states_per_colour": b.cols.iter().map(|c| c.steady.iter().filter(|x| **x).count()).collect::<Vec<_>>(),
    }));
    rep.set("networks", nets);
}

/// Register a network without listing it individually (large families).
pub fn note_network_light(rep: &mut Report, b: &Bound) {
    rep.states += b.total_states() as u64;
    rep.transitions += b.total_edges() as u64;
    rep.add_count("networks_in_large_families", 1);
}

/// Oracle self-check on a network (machinery failure if it does not hold).
pub fn oracle_self_check(b: &Bound) -> Result<usize, String> {
    let labels = Labels::default();
    let mut total = 0;
    let u = crate::bridge::full_mask(b.n);
    let sets: Vec<Mask> = if b.n <= 2 {
        (0..=u).collect()
    } else {
        // a spread of 24 sets for larger state spaces
        (0..24u64).map(|i| (i.wrapping_mul(0x9E3779B97F4A7C15) >> 7) & u).chain([0, u]).collect()
    };
    let sets: Vec<Mask> = if sets.len() > 40 { sets.into_iter().step_by(1).take(16 * 16).collect() } else { sets };
    for ci in 0..b.cols.len() {
        let o = crate::oracle::Oracle::new(b.n, &b.cols[ci], ci, &labels);
        total += o.self_laws(&sets[..sets.len().min(20)])?;
    }
    Ok(total)
}

pub fn names_for(b: &Bound) -> Names {
    let props: Vec<String> = if b.n == 1 { vec![b.spec.vars[0].clone()] } else { vec![b.spec.vars[0].clone(), b.spec.vars[b.n - 1].clone()] };
    Names::user(&props)
}

/// `F_ops` (DESIGN §2.4): every operator form on EVERY coloured set (and every pair of sets) of a
/// tiny network, compared with the oracle. `forms` use the labels p, q (wild-cards) and d, e
/// (domains); for a pair (P, Q) of sets: p := P, q := Q, d := Q, e := P.
pub fn ops_sweep(rep: &mut Report, b: &Arc<Bound>, forms: &[&str], pairs: bool, ck: Checks) {
    let nc = b.cols.len();
    let ns = b.n_states();
    let bits = nc * ns;
    assert!(bits <= 10, "ops_sweep only for tiny networks");
    let all: Vec<Vec<Mask>> = (0..(1u64 << bits)).map(|code| (0..nc).map(|c| (code >> (c * ns)) & ((1u64 << ns) - 1)).collect()).collect();
    let sym: Vec<biodivine_lib_param_bn::symbolic_async_graph::GraphColoredVertices> = all.iter().map(|m| b.mk_set(m)).collect();
    let base = NetCtx::new(b.clone(), Labels { wild: vec![all[0].clone(), all[0].clone()], dom: vec![all[0].clone(), all[0].clone()], props: vec![] }, "ops");
    let fs: Vec<F> = forms.iter().map(|t| crate::formulas::f(t, &base.user)).collect();
    let n = all.len();
    let qs: Vec<usize> = if pairs { (0..n).collect() } else { vec![0] };
    let acc: (u64, u64, Vec<Violation>) = (0..n)
        .into_par_iter()
        .map(|pi| {
            let mut cases = 0u64;
            let mut nbad = 0u64;
            let mut bad = vec![];
            for &qi in &qs {
                let labels = Labels { wild: vec![all[pi].clone(), all[qi].clone()], dom: vec![all[qi].clone(), all[pi].clone()], props: vec![] };
                let ctx = base.relabel(labels, &format!("p={:?} q={:?}", all[pi], all[qi]), vec![sym[pi].clone(), sym[qi].clone(), sym[qi].clone(), sym[pi].clone()]);
                for f in &fs {
                    cases += 1;
                    let r = check_formula(&ctx, f, ck, None);
                    if !r.is_empty() {
                        nbad += 1;
                        if bad.len() < 3 {
                            bad.push(Violation {
                                case: case_json(&ctx, f, ck),
                                what: format!("operator sweep: {} on {} with {}: {}", f.show(&ctx.user), b.name, ctx.label_desc, r.iter().map(|(e, w)| format!("{e}: {w}")).collect::<Vec<_>>().join(" | ")),
                                size: f.size(),
                            });
                        }
                    }
                }
            }
            (cases, nbad, bad)
        })
        .reduce(|| (0, 0, vec![]), |mut a, b| {
            a.0 += b.0;
            a.1 += b.1;
            a.2.extend(b.2);
            a
        });
    rep.evaluations += acc.0 * if ck.entries == Entries::Ext2 { 2 } else { 1 };
    rep.traces_validated += acc.0 * nc as u64;
    rep.distinct_nontrivial += acc.0;
    rep.add_count("operator_sweep_cases", acc.0);
    rep.add_count("operator_sweep_failing_cases", acc.1);
    let mut v = acc.2;
    v.truncate(30);
    rep.violations.extend(v);
    let mut t = rep.extra.get("operator_sweeps").cloned().unwrap_or(json!([]));
    t.as_array_mut().unwrap().push(json!({"network": b.name, "all_coloured_sets": n, "pairs": pairs, "forms": forms}));
    rep.set("operator_sweeps", t);
}
