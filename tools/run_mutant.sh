#!/usr/bin/env bash
# tools/run_mutant.sh <patch.diff> <tier> <ID> [<ID>...]  — apply a seeded change to /repo, run the given checks, undo it
set -u
P=$1; TIER=$2; shift 2
cd /verif
# evidence and replays of runs WITH a seeded change go to a scratch directory, never to /verif/evidence
export VERIF_OUT_DIR=/tmp/run_mutant_out; mkdir -p $VERIF_OUT_DIR/evidence
if [ -n "$(git -C /repo status --porcelain)" ]; then echo "/repo not clean"; exit 2; fi
git -C /repo apply "$P" || { echo "patch does not apply"; exit 2; }
for ID in "$@"; do
  S=$(date +%s)
  ./check $ID $TIER > /tmp/run_mutant_$ID.log 2>&1; RC=$?
  E=$(( $(date +%s) - S ))
  echo "== $ID $TIER: exit=$RC (${E}s)  $(grep -c '^VIOLATION' /tmp/run_mutant_$ID.log) VIOLATION lines"
  grep -A1 '^VIOLATION' /tmp/run_mutant_$ID.log | grep 'what:' | head -2 | cut -c1-330
done
git -C /repo checkout -- .
git -C /repo status --porcelain | head -3
# rebuild the clean binaries (the ones just built contain the seeded change); a batch driver may skip this and rebuild once
if [ -z "${SKIP_REBUILD:-}" ]; then ./check --build > /dev/null 2>&1 || echo "rebuild of the clean tree failed"; fi
