#!/usr/bin/env python3
"""Regenerate the table of seeded changes in DESIGN.md §10 from seeded/*/meta.json."""
import glob, json, os, re
root = os.path.dirname(os.path.dirname(os.path.abspath(__file__)))
rows, missed = [], 0
for p in sorted(glob.glob(f"{root}/seeded/*/meta.json")):
    m = json.load(open(p)); name = os.path.basename(os.path.dirname(p))
    esc = lambda s: str(s).replace("|", "\\|").replace("\n", " ")
    mb = m.get("missed_before")
    if mb and not mb.startswith("caught at the first"):
        missed += 1
    else:
        mb = "— (caught at the first attempt)"
    rows.append(f"| `{name}` — {esc(m['change'])} | {m['property']} | {esc(m['needs'])} | {', '.join(m['caught_by'].keys())} | {esc(mb)} |")
d = open(f"{root}/DESIGN.md").read()
head = "| seeded change | property | what it needs to manifest | reported by | first missed because |\n|---|---|---|---|---|\n"
i = d.index(head); j = d.index("\nGeneral lessons", i)
d = d[:i] + head + "\n".join(rows) + "\n" + d[j:]
d = re.sub(r"\d+ of\s+the (first )?\d+ changes were missed", f"{missed} of\nthe {len(rows)} changes were missed", d)
open(f"{root}/DESIGN.md", "w").write(d)
print(len(rows), "rows,", missed, "missed at first")
