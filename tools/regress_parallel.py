#!/usr/bin/env python3
"""Regression of the machinery itself: re-apply every saved seeded change in scratch copies (N parallel slots,
each with its own git worktree of /repo, its own copy of the harness crate and its own target directory) and run the
quick tier of the check of the change's own property. Expected: exit 1 for every change. /repo itself is not touched.
usage: tools/regress_parallel.py [slots=4] [name-prefix ...]"""
import json, glob, os, subprocess, sys, threading, queue, shutil, time
VERIF = "/verif"; ROOT = "/tmp/rg"
slots = int(sys.argv[1]) if len(sys.argv) > 1 and sys.argv[1].isdigit() else 4
prefixes = [a for a in sys.argv[1:] if not a.isdigit()]
env = dict(os.environ, CARGO_NET_OFFLINE="true", RUST_BACKTRACE="0")
def sh(cmd, **kw):
    return subprocess.run(cmd, shell=True, capture_output=True, text=True, env=kw.pop("env", env), **kw)
def setup(s):
    R = f"{ROOT}/{s}"
    if not os.path.exists(f"{R}/repo"):
        os.makedirs(R, exist_ok=True)
        assert sh(f"git -C /repo worktree add --detach {R}/repo HEAD").returncode == 0
    shutil.rmtree(f"{R}/harness", ignore_errors=True)
    shutil.copytree(f"{VERIF}/harness", f"{R}/harness", ignore=shutil.ignore_patterns("target"))
    t = open(f"{R}/harness/Cargo.toml").read().replace('path = "/repo"', f'path = "{R}/repo"')
    open(f"{R}/harness/Cargo.toml", "w").write(t)
    c = f"{R}/harness/.cargo/config.toml"
    if os.path.exists(c):
        open(c, "w").write(open(c).read().replace("/verif/target", f"{R}/target"))
    return R
def run_one(R, name, patch, pid):
    sh(f"git -C {R}/repo checkout -q -- . && git -C {R}/repo clean -qfd src")
    if sh(f"git -C {R}/repo apply {patch}").returncode != 0:
        return "PATCH-DOES-NOT-APPLY"
    e = dict(env, CARGO_TARGET_DIR=f"{R}/target")
    b = sh(f"cd {R}/harness && cargo build --release --offline", env=e)
    if b.returncode != 0:
        return "BUILD-FAILED " + b.stderr[-300:].replace("\n", " ")
    if pid in ("C16", "C17", "C19"):
        b = sh(f"cd {R}/repo && cargo build --release --offline --bins --target-dir {R}/target/repo-bins", env=e)
        if b.returncode != 0:
            return "BINS-BUILD-FAILED"
    e2 = dict(e, VERIF_VIA_CHECK="1", VERIF_OUT_DIR=f"{R}/out", VERIF_BIN_DIR=f"{R}/target/repo-bins/release")
    os.makedirs(f"{R}/out/evidence", exist_ok=True)
    r = sh(f"{R}/target/release/harness {pid} quick", env=e2)
    sh(f"git -C {R}/repo checkout -q -- .")
    return f"exit={r.returncode} violations={r.stdout.count('VIOLATION property=')}"
jobs = queue.Queue()
for m in sorted(glob.glob(f"{VERIF}/seeded/*/meta.json")):
    name = os.path.basename(os.path.dirname(m))
    if prefixes and not any(name.startswith(p) for p in prefixes):
        continue
    jobs.put((name, os.path.dirname(m) + "/patch.diff", json.load(open(m))["property"]))
total = jobs.qsize(); results = []; lock = threading.Lock()
def worker(s):
    R = setup(s)
    while True:
        try:
            name, patch, pid = jobs.get_nowait()
        except queue.Empty:
            break
        t0 = time.time(); res = run_one(R, name, patch, pid)
        with lock:
            results.append((name, pid, res))
            print(f"[{len(results)}/{total}] {name} -> {pid}: {res} ({time.time()-t0:.0f}s)", flush=True)
ths = [threading.Thread(target=worker, args=(s,)) for s in range(slots)]
[t.start() for t in ths]; [t.join() for t in ths]
bad = [r for r in results if not r[2].startswith("exit=1")]
print(f"SUMMARY: {len(results) - len(bad)} of {len(results)} seeded changes reported by the quick tier of their own property's check")
for r in bad:
    print("NOT REPORTED:", r)
for s in range(slots):
    sh(f"git -C /repo worktree remove --force {ROOT}/{s}/repo")
shutil.rmtree(ROOT, ignore_errors=True); sh("git -C /repo worktree prune")
json.dump({"when": time.strftime("%Y-%m-%d %H:%M"), "repo_head": sh("git -C /repo rev-parse --short HEAD").stdout.strip(), "results": results}, open(f"{VERIF}/seeded/REGRESSION.json", "w"), indent=1)
