#!/usr/bin/env bash
# Re-run every seeded change against the quick tier of the checks its meta.json lists under caught_by.
# Applies each patch to /repo, runs the checks, reverts. Prints one line per (change, check).
set -u
cd /verif
for d in seeded/*/; do
  n=$(basename $d)
  ids=$(python3 -c "import json;print(' '.join(sorted({k.split()[0] for k in json.load(open('$d/meta.json'))['caught_by']})))")
  echo "### $n -> $ids"
  SKIP_REBUILD=1 tools/run_mutant.sh /verif/$d/patch.diff quick $ids 2>&1 | grep "^== " 
done
git -C /repo status --porcelain | head -3
./check --build > /dev/null 2>&1
