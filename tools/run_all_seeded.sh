#!/usr/bin/env bash
# Re-run every seeded change against the quick tier of the check of ITS OWN property (ALL_CHECKS=1: of every check its meta.json lists under caught_by).
# Applies each patch to /repo, runs the checks, reverts. Prints one line per (change, check).
set -u
cd /verif
for d in seeded/*/; do
  n=$(basename $d)
  if [ "${ALL_CHECKS:-}" = 1 ]; then ids=$(python3 -c "import json;print(' '.join(sorted({k.split()[0] for k in json.load(open('$d/meta.json'))['caught_by']})))"); else ids=$(python3 -c "import json;print(json.load(open('$d/meta.json'))['property'])"); fi
  echo "### $n -> $ids"
  SKIP_REBUILD=1 tools/run_mutant.sh /verif/$d/patch.diff quick $ids 2>&1 | grep "^== " 
done
git -C /repo status --porcelain | head -3
./check --build > /dev/null 2>&1
