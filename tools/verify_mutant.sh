#!/usr/bin/env bash
# tools/verify_mutant.sh <ID-dir under /tmp/mut>   — independent confirmation of a sub-agent's claims
# (patch applies on clean HEAD, 55 repo tests pass with it, demo fails with / passes without)
set -u
D=/tmp/mut/$1; WT=$D/wt; export CARGO_TARGET_DIR=$D/target CARGO_NET_OFFLINE=true RUST_BACKTRACE=0
cd $WT || exit 2
DEMO=$(ls tests/ 2>/dev/null | grep -i demo | head -1)
echo "demo file: tests/$DEMO"
git checkout -q -- . ; git clean -qfd tests examples 2>/dev/null
if ! git apply --check $D/patch.diff; then echo "PATCH DOES NOT APPLY"; exit 1; fi
# without the change: demo must pass
mkdir -p tests; cp $D/$DEMO tests/ 2>/dev/null || cp $D/demo*.rs tests/
DEMO=$(ls tests/ | grep -i demo | head -1); T=${DEMO%.rs}
cargo test --offline --features verif-hooks --test $T 2>&1 | grep -E "^test result|^error" | head -3 | sed 's/^/WITHOUT: /'
git apply $D/patch.diff
cargo test --offline --features verif-hooks --test $T 2>&1 | grep -E "^test result|^error" | head -3 | sed 's/^/WITH:    /'
mv tests/$DEMO /tmp/mut/$1/.demo_aside.rs
cargo test --workspace --no-fail-fast --offline 2>&1 | grep -E "^test result: .* [1-9][0-9]* passed|FAILED|warning: unused" | head -5 | sed 's/^/SUITE:   /'
mv /tmp/mut/$1/.demo_aside.rs tests/$DEMO
git diff --stat -- src | tail -3
