#!/usr/bin/env bash
# tools/dev_slot.sh <slot> <patch.diff|-> <ID> [tier=quick]
# Development aid: run one check in a scratch slot (/tmp/rg/<slot>: own git worktree of /repo, own copy of the harness crate,
# own target dir), optionally with a seeded change applied to the slot's worktree. /repo and /verif/target are not touched,
# so several slots can run while /verif/harness is being edited. Primary confirmation still goes through tools/run_mutant.sh.
set -u
S=$1; P=$2; ID=$3; TIER=${4:-quick}
R=/tmp/rg/$S
export CARGO_NET_OFFLINE=true RUST_BACKTRACE=0
mkdir -p $R/out/evidence
[ -d $R/repo ] || git -C /repo worktree add --detach $R/repo HEAD >/dev/null 2>&1 || { echo "worktree failed"; exit 2; }
git -C $R/repo checkout -q --detach $(git -C /repo rev-parse HEAD) 2>/dev/null
git -C $R/repo checkout -q -- . ; git -C $R/repo clean -qfd src
if [ "$P" != "-" ]; then git -C $R/repo apply "$P" || { echo "patch does not apply"; exit 2; }; fi
mkdir -p $R/harness
if [ -z "${NOSYNC:-}" ] || [ ! -f $R/harness/Cargo.toml ]; then rsync -a --delete --exclude target /verif/harness/ $R/harness/; fi
sed -i "s#path = \"/repo\"#path = \"$R/repo\"#" $R/harness/Cargo.toml
sed -i "s#/verif/target#$R/target#" $R/harness/.cargo/config.toml
export CARGO_TARGET_DIR=$R/target
(cd $R/harness && cargo clean --release -p biodivine-hctl-model-checker >/dev/null 2>&1; cargo build --release --offline > $R/build.log 2>&1) || { echo "BUILD FAILED"; grep -E "^error" -A8 $R/build.log | head -40; exit 2; }
case "$ID" in C16|C17|C19) (cd $R/repo && cargo build --release --offline --bins --target-dir $R/target/repo-bins > $R/build-bins.log 2>&1) || { echo "BINS BUILD FAILED"; exit 2; };; esac
S0=$(date +%s)
VERIF_VIA_CHECK=1 VERIF_OUT_DIR=$R/out VERIF_BIN_DIR=$R/target/repo-bins/release $R/target/release/harness $ID $TIER > $R/run_$ID.log 2>&1; RC=$?
echo "== slot $S $(basename $(dirname $P) 2>/dev/null) $ID $TIER: exit=$RC ($(( $(date +%s)-S0 ))s) $(grep -c '^VIOLATION' $R/run_$ID.log) VIOLATION lines"
grep -A1 '^VIOLATION' $R/run_$ID.log | grep 'what:' | head -2 | cut -c1-330
tail -1 $R/run_$ID.log | cut -c1-300
git -C $R/repo checkout -q -- .
