#!/usr/bin/env python3
"""tools/make_round.py <suffix> <ID> [<ID>...] — prepare /tmp/mut/<ID><suffix>/ (scratch worktree of /repo + TASK.md) for a round of
independent sub-agents. TASK.md holds only the property's text and one-line descriptions of earlier seeded changes for it
(so that the agent must find a new mechanism); nothing else from /verif is given."""
import json, glob, os, subprocess, sys
suffix = sys.argv[1]; ids = sys.argv[2:]
props = {json.loads(l)["id"]: json.loads(l) for l in open("/verif/properties.jsonl")}
for pid in ids:
    name = pid + suffix; D = f"/tmp/mut/{name}"
    os.makedirs(D, exist_ok=True)
    if not os.path.exists(f"{D}/wt"):
        subprocess.run(f"git -C /repo worktree add --detach {D}/wt HEAD", shell=True, check=True, capture_output=True)
    earlier = []
    for m in sorted(glob.glob(f"/verif/seeded/*/meta.json")):
        j = json.load(open(m))
        if j["property"] == pid or pid in j.get("also_breaks", []):
            earlier.append(f"- {j['change']} (needs: {j['needs']})")
    p = props[pid]
    t = f"""# Task: plant a subtle property-breaking change in a scratch copy of sybila/biodivine-hctl-model-checker

You have your own scratch git worktree of the repository at `{D}/wt` (a Rust crate; HCTL model checker for partially
specified Boolean networks). Work ONLY inside `{D}/` . Do not read or write `/repo` or `/verif`.
Use `export CARGO_TARGET_DIR={D}/target CARGO_NET_OFFLINE=true RUST_BACKTRACE=0 CARGO_INCREMENTAL=0 CARGO_PROFILE_DEV_DEBUG=0 CARGO_PROFILE_TEST_DEBUG=0` (the disk is shared and small: no debug info, no incremental artefacts; delete `{D}/target` when you are done) for every cargo command (no network is available; always pass `--offline`).

## The property (a semantic property users rely on)

id: {pid}
title: {p['title']}
statement: {p['statement']}
quantified over: {json.dumps(p.get('quantifier'), ensure_ascii=False)}
why the existing tests cannot settle it: {p.get('why_tests_cant')}
anchored in: {json.dumps(p.get('anchors'), ensure_ascii=False)}

## What to produce

A change to the repository's source (`src/...`; not to tests, not to Cargo.toml dependencies) that
1. still compiles (`cargo build --offline`, and `cargo build --offline --features verif-hooks`),
2. still passes the WHOLE existing test suite: `cargo test --workspace --no-fail-fast --offline` must report 55 passed, 0 failed (run it; ~1-2 min),
3. BREAKS the property above for some inputs - but needs something SPECIFIC to manifest: an unusual input shape, a multi-step sequence
   of calls, a particular order, a size threshold, a rarely used entry point or option, two cooperating sites that each look fine
   alone ... - not something ordinary use would expose at once. It should look like a realistic slip or a plausible "optimisation" /
   refactoring a maintainer could make, not sabotage (no magic constants keyed to a test, no `if name == "foo"`).
4. comes with a demonstration: an integration test file `tests/demo_{name}.rs` in the worktree (use the crate's public API; `--features verif-hooks`
   is available when building tests and only re-exports `evaluation::canonization`) that FAILS with your change and PASSES without it
   (check both: `git stash` / `git stash pop`, or `git diff > patch; git checkout src; ...`). Run it with
   `cargo test --offline --features verif-hooks --test demo_{name}`.

## Earlier changes already made for this property - yours must use a DIFFERENT mechanism and need a DIFFERENT kind of trigger

{chr(10).join(earlier) if earlier else '(none)'}

Think about what none of these touch: other code paths and entry points behind the same property, behaviour of dependencies (lib-bdd,
lib-param-bn, zip, clap), option handling, orders, sizes and thresholds, state carried between calls, unusual-but-legal inputs, interactions of two features.

## Deliverables (write them, then stop)

- `{D}/patch.diff`  : output of `git -C {D}/wt diff -- src` (source change only, applies with `git apply` on a clean HEAD)
- `{D}/demo_{name}.rs` : a copy of your demonstration test file (also leave it in `{D}/wt/tests/`)
- `{D}/REPORT.md` : what the change is (file/function), why it breaks the property, exactly what is needed for it to manifest
  (smallest failing input / sequence), why the 55 existing tests still pass, and the commands you ran with their results.
Your final answer should be a 5-10 line summary of the same.
"""
    open(f"{D}/TASK.md", "w").write(t)
    print(name, len(earlier), "earlier changes")
