#!/usr/bin/env python3
"""Generates /verif/MANIFEST.json from the table below (single source of truth)."""
import json, subprocess

hooks_commit = "d80d512"

CHECKS = {
 "C01": ("model_checking", "explicit-state reference model checker + bounded-exhaustive formula/network enumeration",
   "Every closed formula up to a node bound (plus template families: duplicates, pairs, shared operands, deep quantifier nests up to depth 10; networks with unusual names / shapes; closed-form hybrid formulae on a set with a 2^17-node BDD) on every network of a hand-written family and of the all-2-variable-network grammar is evaluated by the real entry points and by an independent explicit-state HCTL model checker over every colour's full transition system; tables are compared on every state x valid colour. Exhaustive within the stated node/network bounds; nothing is sampled. Rounds 10-11 added: batches of 40/100 formulae with tied heights through the four multi entry points, three networks built programmatically in a non-lexicographic declaration order, two-operator nests and pattern-with-condition families.", "§3 C01"),
 "C02": ("model_checking", "explicit-state reference model checker over extended formulae x context-set families",
   "All extended formulae (wild-cards, domains on bind/exists/forall, nested and repeated) up to a node bound x deterministic families of context sets (empty, full, colour-dependent, empty for some colours, colour-disjoint, singletons), on synthetic wide models (more than 2^53 state x colour pairs) the three README equivalences and three closed forms for full / empty / all-but-one-state / all-but-one-pair / single-state domains; compared point-wise with the explicit-state oracle implementing the documented meaning. Also: every formula in the long quantifier spellings, and the context sets loaded from a bundle with decoy entries stored before / after the real ones.", "§3 C02"),
 "C03": ("model_checking", "bounded-exhaustive enumeration with unit-set / support oracle on constrained networks",
   "On every network of the family whose regulation constraints exclude parametrisations, every enumerated formula's raw result must be a subset of the unit set and independent of auxiliary BDD variables, and sanitised results must not exceed the unit set's cardinalities. The unit set itself is validated against independently enumerated valid interpretations.", "§3 C03"),
 "C04": ("model_checking", "stateright BFS over the real EvalContext driven by the real eval_node (all batches x all orders up to a bound)",
   "Explicit-state exploration of the only history-dependent state of the library (the evaluation cache): every multiset of formulae from a collision alphabet up to a batch length, every evaluation order (incl. repetition patterns such as [A, A, B, B] up to length 5/6), real eval_node as transition function, states de-duplicated by a digest of the real context; every result compared with alone / sharing-disabled / oracle, and every ordered list replayed through the public batch entry points. Also batches of 48/96 plain and extended formulae (beyond the 32-element threshold of sort_unstable).", "§3 C04"),
 "C05": ("exploration", "bounded-exhaustive input enumeration against a reference tokenizer + recursive-descent parser",
   "All token sequences up to length T and all character strings up to length K over sharp alphabets, plus deterministic long inputs, through both parsers and an independent reference front end written from the documented grammar; accept/reject, token lists and trees must agree. Also sequences of hybrid-header pieces (space-separated and glued), and the parse-and-preprocess wrappers held against the same grammar.", "§3 C05"),
 "C06": ("exploration", "bounded-exhaustive tree enumeration with independent renderer and round trip",
   "All trees up to a node bound assembled with the public constructors, all trees the parser returns for short token sequences, trees produced by preprocessing and deep chains: stored text/height at every node vs an independent renderer, print->parse round trip. Also the public random constructor new_random_boolean on an enumerated grid of (levels, seed).", "§3 C06"),
 "C07": ("exploration", "bounded-exhaustive tree enumeration against an independent scope checker and de-Bruijn normaliser",
   "All parsed trees up to a node bound (preprocessed against the extended symbolic context of a parametrised network; every foreign symbolic variable name tried as a proposition) over variable names that collide with the internal ones in every order, with jumps everywhere: accept iff well-scoped, output exactly the depth-named alpha-variant, idempotent. Also a domain-focused alphabet (quantifiers with and without %d%) and six contexts of networks built programmatically in non-lexicographic declaration order; until operators with compound operands on sparse 3- / 4-variable networks.", "§3 C07"),
 "C08": ("exploration", "bounded-exhaustive enumeration of formulae x meaning-preserving rewrites, differential on the real entry points",
   "For every formula up to a node bound (and the template families) every rewrite of finite families (all scope-respecting renamings into names that collide with the internal ones, whitespace patterns at every token boundary, redundant parentheses at every sub-formula, long/short spellings, constant spellings) is evaluated and must give the same set as the canonical text.", "§3 C08"),
 "C09": ("exploration", "bounded-exhaustive enumeration of sub-trees / formula lists against an independent alpha-equivalence decision and occurrence counter",
   "Every sub-tree of every preprocessed formula up to a node bound: canonical-form classes must coincide with alpha-equivalence classes (partition check = all pairs, plus explicit pairwise traversal), renaming total/injective/consistent, idempotence; duplicate marking of all single formulae and all lists <= 3 over a pool with jump/domain shapes vs an independent occurrence count. Uses the verif-hooks re-export of the private canonization module. Also nests of 13..33 quantifiers (canonical names var12 and beyond).", "§3 C09"),
 "C10": ("model_checking", "bounded-exhaustive enumeration of substitution cases (formula x antichain of closed sub-formulae), differential on the real entry points",
   "Every formula up to a node bound / template x every non-empty antichain (<= 3) of closed proper sub-formula occurrences replaced by wild-cards bound to the raw result of the sub-formula; the extended evaluation must equal the plain one (BDD equality); identity cases through all extended entry points with an empty context; bundled benchmark models in isolated child processes with wall limits.", "§3 C10"),
 "C11": ("model_checking", "exhaustive enumeration of law instances: every coloured set of tiny networks as wild-card argument; declared argument family on bundled models",
   "44 temporal laws (each side evaluated alone and both sides as one batch; every one-argument law on all 256 state sets of 128/512 three-variable menu networks) + 3 graph-library laws instantiated with EVERY coloured state set (and all pairs where feasible) of tiny networks, anchored by the explicit-state oracle, and with a declared finite argument family on bundled models (up to 69 variables / 65 536 colours); both sides are evaluated by the tool and compared as sets. Also every duality read from the other side (a negation directly above each temporal operator) and excluded middle for the until operators.", "§3 C11"),
 "C12": ("model_checking", "explicit-state reference model checker + differential (shortcut vs pattern-defeating twin) over all small contexts",
   "Every one-hole context up to a node bound x the two shortcut patterns, logically identical twins that defeat the matcher, and near-miss families, on the core networks (also colour-restricted graphs and networks with multi-stability inside one colour) and label families: shortcut == twin as sets, everything == explicit-state oracle, inside the unit set.", "§3 C12"),
 "C13": ("model_checking", "explicit-state reference model checker on all formulae containing EW/AW",
   "All formulae up to a node bound (both literal constants in the alphabet) that contain EW or AW on the core networks, compared point-wise with the oracle's weak-until definitions.", "§3 C13"),
 "C15": ("model_checking", "bounded-exhaustive enumeration of formulae x spare-variable counts with explicit-state anchor",
   "Every formula up to a node bound / template on graphs with k = d, d+1, d+3 spare variable sets: sanitised == raw point-wise == oracle; canonical variable set; subset of and usable with SymbolicAsyncGraph::new; BDD-identical across k; extended entry points with context sets inside / outside the valid colours; two-network histories; wide models (> 2^53 pairs) against lib-param-bn's transfer. Also two-operator nests (every binary over every unary operator, constants included) and programmatically built networks.", "§3 C15"),
 "C16": ("exploration", "bounded-exhaustive enumeration of archive round trips (network x format x k x label->set map x formula list)",
   "Every combination of a declared finite family (including histories of the target path: fresh, an earlier archive, a non-zip file, an empty file) is written with build_result_archive, unzipped independently, the archived model re-parsed, the bundle reloaded and every set compared point-wise and as BDD; reloaded sets are used as wild-card/domain context; analysis archives: entry i <-> line i. Also: histories of the target path with a longer earlier archive / file, 70-label and metadata-like label maps, build_initial_archive, and the analysis run through the tool under every print option.", "§3 C16"),
 "C17": ("exploration", "bounded-exhaustive enumeration of CLI configurations executed on the binary built from the working tree, compared with the library",
   "All combinations of model format x formula-file layout x print option x -o x -e x formula lists on small networks: stdout blocks, counts, exhaustive listings and archived BDDs are compared with the library's results; mismatched context archives and 20 failure configurations must give a message and no crash. Also formula files with 40 lines of tied heights and output paths that already hold a longer archive.", "§3 C17"),
 "C18": ("model_checking", "bounded-exhaustive differential: unsafe_ex vs standard evaluation on the loop-insensitive fragment / steady-state-free networks",
   "All formulae of the loop-insensitive fragment up to a node bound on every core network, and all formulae over all operators on the networks whose independently computed transition systems have no steady state in any colour; raw results must be identical; plus two-network histories (ordered pairs of networks with the same symbolic encoding evaluated one after the other on one fresh OS thread). Also the pattern-with-condition family (!{x}: AG EF ({x} & PHI) and variants for 13 conditions).", "§3 C18"),
 "C20": ("model_checking", "exhaustive enumeration of (formula, colour) pairs: parametrised result sliced at each colour vs evaluation on the instantiated network",
   "Every formula up to a node bound / template x EVERY valid colour of every multi-colour core network: states of the parametrised result at the colour (also extended formulae with colour-dependent context sets sliced per colour) == model_check_formula on pick_witness(colour) (== oracle, which evaluates colours in isolation). Bundled: partially erased myeloid (all 2 180 colours), sub-lattices of 64k-colour models in the thorough tier.", "§3 C20"),
 "C14": ("exploration", "bounded-exhaustive input enumeration through every string entry point under catch_unwind with a reference accept/reject oracle",
   "All short strings and token sequences, all label subsets for all small extended formulae, deep inputs, all trees up to a node bound over a binder-focused alphabet (ill-scoped ones must be rejected); each through 21 string entry points on graphs with 0..3 spare variable sets; Ok/Err must match the reference parser + scope rules + label presence + k >= depth; a panic is always a violation. The binder-tree family has quantifiers with a domain as well.", "§3 C14"),
 "C19": ("exploration", "bounded-exhaustive enumeration of aeon networks through the converter binary with an independent truth-table oracle",
   "Every network of a converter grammar (1..3 variables, implicit functions, shared uninterpreted symbols of arity 0..3 (every argument list with repetitions), explicit expressions, constrained/unconstrained regulations, name-clash sub-family) is run through the convert-aeon-to-bnet binary; for every target the set of truth tables under all valuations of the fresh inputs must equal the set of all instantiations of the input function. Also the operator-shape sub-family (all ordered pairs of binary operators nested to the right / left with negations, chains of 4..33 operands).", "§3 C19"),
}

# additions of rounds 12-13 (appended to the description of the check)
ADDENDA = {
 "C01": " Also: two-step histories (look-alike graphs - same encoding with other update functions, unit variants of one network - evaluated one after the other on one fresh OS thread, probes against the oracle) and graphs with per-variable spare counts; re-parenthesised groups; until operators with compound operands on sparse networks.",
 "C02": " Also: two-step histories with domain-restricted quantifiers (two label families); wild-cards counted across restricted scopes; ordered lists of 2..4 extended formulae of different heights through the batch entry points.",
 "C04": " Also: caches that outlive a call - two-step histories over look-alike graphs, plain and extended probes against the oracle; renaming cache hits on graphs with per-variable spare counts.",
 "C07": " Also: a family of contexts that know each other's variable names, gone through twice on one thread; variable names of any script; entry points must evaluate the preprocessed formula; the spare-set requirement of a formula next to a taller one in a batch.",
 "C08": " Also: state-variable names spelled like constants, the keyword `in` and operators; seven networks whose variable names look like operators / constants / spare variables; the self-loop-free entry point under the same rewrites; unary operands of binary operators.",
 "C09": " Also: 10^6 (thorough 5*10^6) same-shape sub-formulae canonised in sequence on one thread, each against its closed form.",
 "C10": " Also: one public evaluation context re-used for successive substitutions (label in proposition and in domain position); graphs with a restricted unit set and spare variable sets; pre-computed results travelling through a result archive.",
 "C11": " Also: compositionality - for every ordered pair (A, B) of 20 operator applications over the same arguments `A & B` must be the intersection of A and B evaluated on their own (and the batch [A, B] must return both); the 3-variable menu family also with sign and observability of every essential input declared; a 196 607-node argument set; nests of two unary temporal operators against the oracle; a 70-variable model.",
 "C12": " Also: two-step histories with the two patterns and their twins; the shortcut through model_check_formula_unsafe_ex where self-loops cannot matter; regulator-free variables that move once next to an oscillation.",
 "C13": " Also: shift registers with 58..70 variables (> 2^53 states): EW / AW on two / three consecutive chain states against the defining equivalences and closed forms (child processes).",
 "C14": " Also: one context label in both roles across the formulae of a batch; names of the graph's spare variables as propositions; wild-cards counted across restricted scopes; a quantified sub-formula text repeated with an ill-scoped second occurrence.",
 "C15": " Also: graphs with per-variable spare counts; a sanitised result must be a proper set of the canonical context (colors(), vertices(), cardinalities, pick_singleton()); graphs with 11 / 12 / 21 spare variable sets; lists of four / five with repetition patterns.",
 "C16": " Also: the result archive written to the path of the context archive; analyse_formula with a context archive that must stay untouched. Thorough: all core / unusual networks with <= 64 colours, k up to 6, path histories for every format.",
 "C17": " Also: -o naming the -e file. Thorough: every closed plain formula with <= 5 nodes and every closed extended formula with <= 3 nodes through the tool in files of 7 lines (about 90 000 executions).",
 "C18": " Also: graphs whose unit set was restricted after construction (every second colour, single colours) or perturbed by restrict_variable_in_graph.",
 "C19": " The joint family over all targets (one interpretation per shared symbol) is recorded as an observation only - the property is stated per variable.",
 "C20": " Also: networks with several function symbols in non-alphabetical first-use order, spare-variable-like names and non-lexicographic declaration order; until operators with compound operands on sparse 3- / 4-variable networks.",
}
NOT_YET = {
}
TRUST = "Trusted: rustc/cargo, biodivine-lib-bdd (eval_in, support_set, BDD equality), biodivine-lib-param-bn's model parsers; the harness's own oracle / reference front end (written from the property text, self-checked by dualities and fixed-point laws). Bounds are stated in each evidence file; beyond them nothing is claimed."

def main():
    props = [json.loads(l) for l in open('/verif/properties.jsonl')]
    checks = []
    na = []
    for p in props:
        pid = p['id']
        if pid in CHECKS:
            lvl, tech, text, ref = CHECKS[pid]
            checks.append({
                "property_id": pid,
                "quick_cmd": f"./check {pid} quick",
                "thorough_cmd": f"./check {pid} thorough",
                "evidence_file": f"/verif/evidence/{pid}.json",
                "replay_cmd_template": f"./check {pid} --replay {{path}}",
                "engine": "harness",
                "level_claimed": {"category": lvl, "text": text + ADDENDA.get(pid, ""), "design_ref": ref},
                "level_note": TRUST,
                "technique": tech,
            })
        else:
            na.append({"property_id": pid, "reason": NOT_YET.get(pid, "check not yet built in this commit (planned, see DESIGN.md §3); nothing is claimed for it")})
    m = {
        "version": 1,
        "setup_cmd": "./check --build",
        "hooks": {
            "guard": "cargo feature `verif-hooks` of biodivine-hctl-model-checker",
            "enable": "the harness crate depends on /repo with features=[\"verif-hooks\"]; ./check rebuilds it from /repo's working tree (cargo build --release --offline in /verif/harness)",
            "baseline_off_cmd": "cd /repo && cargo test --workspace --no-fail-fast --offline",
            "source_commits": [hooks_commit],
            "add_only": True,
        },
        "engines": [
            {"name": "harness", "path": "/verif/harness", "serves_properties": sorted(CHECKS.keys()),
             "kind_free_text": "one Rust crate: independent colour semantics + explicit-state HCTL oracle, bounded-exhaustive enumerators (formulae, trees, strings, networks), reference parser, stateright model of the evaluation cache driving the real eval_node"},
        ],
        "checks": checks,
        "not_applicable": na,
        "notes": "Exit codes of ./check: 0 property held on everything explored, 1 VIOLATION line(s) printed, 2 machinery failure (build error, model/implementation binding mismatch) which is never a verdict. known_findings.json lists fixed and open genuine defects.",
    }
    json.dump(m, open('/verif/MANIFEST.json', 'w'), indent=1)
    print("checks:", len(checks), "not_applicable:", len(na))

main()
