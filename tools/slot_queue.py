#!/usr/bin/env python3
"""tools/slot_queue.py [-j N] <patch-dir-root> NAME:ID[,ID] ...  — run tools/dev_slot.sh for every (seeded change, check) over N scratch slots.
patch-dir-root/NAME/patch.diff is applied inside the slot's own worktree; /repo is not touched."""
import sys, subprocess, threading, queue
args = sys.argv[1:]; n = 4
if args[0] == "-j": n = int(args[1]); args = args[2:]
root = args[0]; jobs = queue.Queue()
for spec in args[1:]:
    name, ids = spec.split(":")
    for i in ids.split(","):
        jobs.put((name, i))
lock = threading.Lock()
def worker(s):
    while True:
        try: name, i = jobs.get_nowait()
        except queue.Empty: return
        patch = "-" if name == "-" else f"{root}/{name}/patch.diff"
        r = subprocess.run(["/verif/tools/dev_slot.sh", f"q{s}", patch, i], capture_output=True, text=True)
        with lock:
            print(f"#### {name} -> {i}\n" + "\n".join(r.stdout.strip().splitlines()[:3]), flush=True)
ts = [threading.Thread(target=worker, args=(s,)) for s in range(n)]
[t.start() for t in ts]; [t.join() for t in ts]
print("QUEUE DONE")
