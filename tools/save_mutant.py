#!/usr/bin/env python3
"""tools/save_mutant.py <spec.json>  — copy verified seeded changes from /tmp/mut/<ID>/ to /verif/seeded/<ID>-<slug>/.

spec.json: list of {"id", "slug", "property", "also_breaks", "change", "needs", "caught_by": {check: message},
"missed_before" (optional), "origin"}.  Verification facts are taken from /tmp/mut/<ID>.verify.txt.
"""
import json, os, shutil, sys, glob

spec = json.load(open(sys.argv[1]))
for m in spec:
    src = f"/tmp/mut/{m['id']}"
    dst = f"/verif/seeded/{m['id']}-{m['slug']}"
    ver = open(f"/tmp/mut/{m['id']}.verify.txt").read()
    ok = ("WITHOUT: test result: ok" in ver and "WITH:    test result: FAILED" in ver and "SUITE:   test result: ok. 55 passed" in ver
          and "DOES NOT APPLY" not in ver)
    if not ok:
        print(f"{m['id']}: verification record incomplete, not saved"); continue
    os.makedirs(dst, exist_ok=True)
    shutil.copy(f"{src}/patch.diff", f"{dst}/patch.diff")
    for d in glob.glob(f"{src}/demo_*.rs"):
        shutil.copy(d, dst)
    if os.path.exists(f"{src}/REPORT.md"):
        shutil.copy(f"{src}/REPORT.md", f"{dst}/AGENT_REPORT.md")
    meta = {"property": m["property"], "also_breaks": m.get("also_breaks", []), "change": m["change"], "needs": m["needs"], "caught_by": m["caught_by"]}
    if m.get("missed_before"):
        meta["missed_before"] = m["missed_before"]
    meta["verified"] = {"patch_applies_on_HEAD": True, "repo_suite_with_change": "55 passed", "demo_with_change": "fails", "demo_without_change": "passes",
                        "how": "tools/verify_mutant.sh in the sub-agent's scratch worktree, then tools/run_mutant.sh <patch> quick <checks> against /repo (applied, checked, reverted, rebuilt)"}
    meta["origin"] = m["origin"]
    json.dump(meta, open(f"{dst}/meta.json", "w"), indent=1, ensure_ascii=False)
    print("saved", dst)
